package main

// ssah.go — helpers over the SSA form: anchor resolution, callee resolution,
// dominance, branch facts (E-DOM), value resolution through spilled locals.

import (
	"fmt"
	"go/constant"
	"go/token"
	"go/types"
	"sort"
	"strings"

	"golang.org/x/tools/go/ssa"
)

// ---------------------------------------------------------------------------
// anchors

func (p *Prog) pkg(rel string) *ssa.Package {
	path := modPath
	if rel != "" {
		path += "/" + rel
	}
	pk := p.ByPath[path]
	if pk == nil || pk.Types == nil {
		return nil
	}
	return p.SSA.Package(pk.Types)
}

// Func resolves a package-level function or a method.  recv is "" for
// functions, "T" for methods (pointer or value receiver, whichever declares
// the method).
func (p *Prog) Func(relPkg, recv, name string) *ssa.Function {
	if f := p.funcByName(relPkg, recv, name); f != nil {
		return f
	}
	return anchorAliasFn[mqRaw(relPkg, recv, name)]
}

func (p *Prog) funcByName(relPkg, recv, name string) *ssa.Function {
	sp := p.pkg(relPkg)
	if sp == nil {
		return nil
	}
	if recv == "" {
		return sp.Func(name)
	}
	tn, _ := sp.Pkg.Scope().Lookup(recv).(*types.TypeName)
	if tn == nil {
		return nil
	}
	for _, t := range []types.Type{tn.Type(), types.NewPointer(tn.Type())} {
		ms := p.SSA.MethodSets.MethodSet(t)
		for i := 0; i < ms.Len(); i++ {
			sel := ms.At(i)
			if sel.Obj().Name() == name {
				if f := p.SSA.MethodValue(sel); f != nil && f.Synthetic == "" {
					return f
				}
				// promoted through embedding: take the declared function
				if fo, ok := sel.Obj().(*types.Func); ok {
					if f := p.SSA.FuncValue(fo); f != nil {
						return f
					}
				}
			}
		}
	}
	return nil
}

func (p *Prog) Named(relPkg, name string) *types.Named {
	sp := p.pkg(relPkg)
	if sp == nil {
		return nil
	}
	tn, _ := sp.Pkg.Scope().Lookup(name).(*types.TypeName)
	if tn == nil {
		return nil
	}
	n, _ := tn.Type().(*types.Named)
	return n
}

func (p *Prog) Iface(relPkg, name string) *types.Interface {
	n := p.Named(relPkg, name)
	if n == nil {
		return nil
	}
	i, _ := n.Underlying().(*types.Interface)
	return i
}

// Implementers returns every named non-interface type of the module (T or *T)
// that implements iface, sorted by name.
func (p *Prog) Implementers(iface *types.Interface) []*types.Named {
	var out []*types.Named
	for path, pk := range p.ByPath {
		if !strings.HasPrefix(path, modPath) || pk.Types == nil {
			continue
		}
		sc := pk.Types.Scope()
		for _, nm := range sc.Names() {
			tn, ok := sc.Lookup(nm).(*types.TypeName)
			if !ok || tn.IsAlias() {
				continue
			}
			n, ok := tn.Type().(*types.Named)
			if !ok {
				continue
			}
			if _, isI := n.Underlying().(*types.Interface); isI {
				continue
			}
			if types.Implements(n, iface) || types.Implements(types.NewPointer(n), iface) {
				out = append(out, n)
			}
		}
	}
	sort.Slice(out, func(i, j int) bool { return typeString(out[i]) < typeString(out[j]) })
	return out
}

// MethodsOf returns the declared (non-synthetic) SSA functions that implement
// the methods of iface on named type n, keyed by method name.
func (p *Prog) MethodsOf(n *types.Named, iface *types.Interface) map[string]*ssa.Function {
	out := map[string]*ssa.Function{}
	for i := 0; i < iface.NumMethods(); i++ {
		m := iface.Method(i)
		for _, t := range []types.Type{types.NewPointer(n), n} {
			sel := p.SSA.MethodSets.MethodSet(t).Lookup(m.Pkg(), m.Name())
			if sel == nil {
				continue
			}
			if fo, ok := sel.Obj().(*types.Func); ok {
				if f := p.SSA.FuncValue(fo); f != nil {
					out[m.Name()] = f
					break
				}
			}
		}
	}
	return out
}

// PkgFuncs lists every source function of a package (methods, functions,
// closures), sorted by name.
func (p *Prog) PkgFuncs(relPkg string) []*ssa.Function {
	sp := p.pkg(relPkg)
	if sp == nil {
		return nil
	}
	seen := map[*ssa.Function]bool{}
	var out []*ssa.Function
	var add func(f *ssa.Function)
	add = func(f *ssa.Function) {
		if f == nil || seen[f] || f.Synthetic != "" && !strings.HasPrefix(f.Synthetic, "package init") {
			return
		}
		if f.Blocks == nil {
			return
		}
		seen[f] = true
		out = append(out, f)
		for _, a := range f.AnonFuncs {
			add(a)
		}
	}
	for _, m := range sp.Members {
		switch m := m.(type) {
		case *ssa.Function:
			add(m)
		case *ssa.Type:
			for _, t := range []types.Type{m.Type(), types.NewPointer(m.Type())} {
				ms := p.SSA.MethodSets.MethodSet(t)
				for i := 0; i < ms.Len(); i++ {
					if fo, ok := ms.At(i).Obj().(*types.Func); ok && fo.Pkg() == sp.Pkg {
						add(p.SSA.FuncValue(fo))
					}
				}
			}
		}
	}
	sort.Slice(out, func(i, j int) bool { return fname(out[i]) < fname(out[j]) })
	return out
}

// AllModuleFuncs: every source function of the module.
func (p *Prog) AllModuleFuncs() []*ssa.Function {
	var out []*ssa.Function
	var paths []string
	for path := range p.ByPath {
		if strings.HasPrefix(path, modPath) {
			paths = append(paths, path)
		}
	}
	sort.Strings(paths)
	for _, path := range paths {
		out = append(out, p.PkgFuncs(shortPkg(path))...)
	}
	return out
}

// fname: stable, module-relative name: "memfs.(*Filespace).IsExist", closures
// get "$n" suffixes from go/ssa.
func fname(f *ssa.Function) string {
	if f == nil {
		return "<nil>"
	}
	if f.Parent() != nil {
		return fname(f.Parent()) + "$" + strings.TrimPrefix(f.Name(), f.Parent().Name()+"$")
	}
	pk := ""
	if f.Pkg != nil {
		pk = lastSeg(f.Pkg.Pkg.Path())
	} else if f.Object() != nil && f.Object().Pkg() != nil {
		pk = lastSeg(f.Object().Pkg().Path())
	}
	if f.Signature != nil && f.Signature.Recv() != nil {
		rt := f.Signature.Recv().Type()
		ptr := ""
		if pt, ok := rt.(*types.Pointer); ok {
			rt = pt.Elem()
			ptr = "*"
		}
		if n, ok := rt.(*types.Named); ok {
			return fmt.Sprintf("%s.(%s%s).%s", pk, ptr, n.Obj().Name(), f.Name())
		}
	}
	return pk + "." + f.Name()
}

func lastSeg(s string) string {
	if i := strings.LastIndex(s, "/"); i >= 0 {
		return s[i+1:]
	}
	return s
}

// withClosures returns f and all functions nested in it.
func withClosures(f *ssa.Function) []*ssa.Function {
	out := []*ssa.Function{f}
	for _, a := range f.AnonFuncs {
		out = append(out, withClosures(a)...)
	}
	return out
}

// ---------------------------------------------------------------------------
// instructions and calls

func eachInstr(f *ssa.Function, fn func(b *ssa.BasicBlock, i int, in ssa.Instruction)) {
	for _, b := range f.Blocks {
		for i, in := range b.Instrs {
			fn(b, i, in)
		}
	}
}

// CallInfo describes a resolved call site.
type CallInfo struct {
	Instr  ssa.CallInstruction
	Common *ssa.CallCommon
	Static *ssa.Function // non-nil for static calls (incl. bound closures resolved)
	Method *types.Func   // non-nil for interface-method (invoke) calls
	Block  *ssa.BasicBlock
	Index  int
	Kind   string // "call", "go", "defer"
}

func (ci *CallInfo) Pos() token.Pos { return ci.Instr.Pos() }

// Name: "pkgpath.Func", "pkgpath.(T).Method" (receiver named type without
// pointer marker) or for interface calls "pkgpath.(Iface).Method".
func (ci *CallInfo) Name() string {
	if ci.Static != nil {
		return qualName(ci.Static)
	}
	if ci.Method != nil {
		return qualObj(ci.Method)
	}
	return ""
}

func qualName(f *ssa.Function) string {
	if f.Object() != nil {
		if fo, ok := f.Object().(*types.Func); ok {
			return qualObj(fo)
		}
	}
	if f.Pkg != nil {
		return f.Pkg.Pkg.Path() + "." + f.Name()
	}
	return f.Name()
}

func qualObj(fo *types.Func) string {
	pk := ""
	if fo.Pkg() != nil {
		pk = fo.Pkg().Path()
	}
	sig, _ := fo.Type().(*types.Signature)
	if sig != nil && sig.Recv() != nil {
		rt := sig.Recv().Type()
		if pt, ok := rt.(*types.Pointer); ok {
			rt = pt.Elem()
		}
		if n, ok := rt.(*types.Named); ok {
			return fmt.Sprintf("%s.(%s).%s", pk, n.Obj().Name(), fo.Name())
		}
		// method of an unnamed interface type
		return fmt.Sprintf("%s.(interface).%s", pk, fo.Name())
	}
	return pk + "." + fo.Name()
}

// mq builds a module-qualified name: mq("filesystem/fsloop", "Consumer", "Loop").
func mq(relPkg, recv, name string) string {
	q := mqRaw(relPkg, recv, name)
	if a, ok := anchorAlias[q]; ok {
		return a
	}
	return q
}

func mqRaw(relPkg, recv, name string) string {
	p := modPath
	if relPkg != "" {
		p += "/" + relPkg
	}
	if recv != "" {
		return fmt.Sprintf("%s.(%s).%s", p, recv, name)
	}
	return p + "." + name
}

func callInfo(in ssa.Instruction, b *ssa.BasicBlock, idx int) *CallInfo {
	ci, ok := in.(ssa.CallInstruction)
	if !ok {
		return nil
	}
	c := ci.Common()
	out := &CallInfo{Instr: ci, Common: c, Block: b, Index: idx, Kind: "call"}
	switch in.(type) {
	case *ssa.Go:
		out.Kind = "go"
	case *ssa.Defer:
		out.Kind = "defer"
	}
	if c.IsInvoke() {
		out.Method = c.Method
		return out
	}
	if f := c.StaticCallee(); f != nil {
		out.Static = f
		// bound method wrapper: resolve to the underlying method
		if strings.HasSuffix(f.Name(), "$bound") && f.Object() != nil {
			if fo, ok := f.Object().(*types.Func); ok {
				if g := f.Prog.FuncValue(fo); g != nil {
					out.Static = g
				}
			}
		}
		return out
	}
	// call of a method value / closure stored in an SSA register
	if mc, ok := c.Value.(*ssa.MakeClosure); ok {
		if f, ok := mc.Fn.(*ssa.Function); ok {
			out.Static = f
		}
	}
	return out
}

// Calls lists the call sites (call, go, defer) of f (not of its closures).
func Calls(f *ssa.Function) []*CallInfo {
	var out []*CallInfo
	eachInstr(f, func(b *ssa.BasicBlock, i int, in ssa.Instruction) {
		if ci := callInfo(in, b, i); ci != nil {
			out = append(out, ci)
		}
	})
	return out
}

// CallsTo filters the call sites of f by qualified callee name(s).
func CallsTo(f *ssa.Function, names ...string) []*CallInfo {
	var out []*CallInfo
	for _, ci := range Calls(f) {
		n := ci.Name()
		for _, want := range names {
			if n == want {
				out = append(out, ci)
			}
		}
	}
	return out
}

// CallsDeep: call sites in f and its closures.
func CallsDeep(f *ssa.Function) []*CallInfo {
	var out []*CallInfo
	for _, g := range withClosures(f) {
		out = append(out, Calls(g)...)
	}
	return out
}

// value of a call (nil for go/defer)
func (ci *CallInfo) Value() ssa.Value {
	if c, ok := ci.Instr.(*ssa.Call); ok {
		return c
	}
	return nil
}

// Arg returns the i-th argument not counting the receiver.
func (ci *CallInfo) Arg(i int) ssa.Value {
	c := ci.Common
	args := c.Args
	if !c.IsInvoke() && c.Signature().Recv() != nil {
		if len(args) == 0 {
			return nil
		}
		args = args[1:]
	}
	if i < 0 || i >= len(args) {
		return nil
	}
	return args[i]
}

// Recv returns the receiver value for method calls (static or invoke).
func (ci *CallInfo) Recv() ssa.Value {
	c := ci.Common
	if c.IsInvoke() {
		return c.Value
	}
	if c.Signature().Recv() != nil && len(c.Args) > 0 {
		return c.Args[0]
	}
	// bound closure
	if mc, ok := c.Value.(*ssa.MakeClosure); ok && len(mc.Bindings) > 0 {
		return mc.Bindings[0]
	}
	return nil
}

// resultN returns the Extract of tuple-result index n of call v (or v itself
// for n==0 of a single-result call); nil if not extracted.
func resultN(v ssa.Value, n int) []ssa.Value {
	var out []ssa.Value
	if v == nil {
		return nil
	}
	if _, ok := v.Type().(*types.Tuple); !ok {
		if n == 0 {
			return []ssa.Value{v}
		}
		return nil
	}
	for _, r := range *v.Referrers() {
		if e, ok := r.(*ssa.Extract); ok && e.Index == n {
			out = append(out, e)
		}
	}
	return out
}

// errResultIndex returns the index of the last result if it is `error`, else -1.
func errResultIndex(sig *types.Signature) int {
	r := sig.Results()
	if r.Len() == 0 {
		return -1
	}
	if isErrorType(r.At(r.Len() - 1).Type()) {
		return r.Len() - 1
	}
	return -1
}

func isErrorType(t types.Type) bool {
	n, ok := t.(*types.Named)
	return ok && n.Obj().Pkg() == nil && n.Obj().Name() == "error"
}

// ---------------------------------------------------------------------------
// dominance

func instrIndex(in ssa.Instruction) int {
	for i, x := range in.Block().Instrs {
		if x == in {
			return i
		}
	}
	return -1
}

// dominates: instruction a is executed before b on every path reaching b.
func dominates(a, b ssa.Instruction) bool {
	if a.Block() == b.Block() {
		return instrIndex(a) < instrIndex(b)
	}
	return a.Block().Dominates(b.Block())
}

// reachable: is there a CFG path from the point after instruction a to b?
func reachableFrom(a, b ssa.Instruction) bool {
	if a.Block() == b.Block() && instrIndex(a) < instrIndex(b) {
		return true
	}
	seen := map[*ssa.BasicBlock]bool{}
	var stack []*ssa.BasicBlock
	stack = append(stack, a.Block().Succs...)
	for len(stack) > 0 {
		x := stack[len(stack)-1]
		stack = stack[:len(stack)-1]
		if seen[x] {
			continue
		}
		seen[x] = true
		if x == b.Block() {
			return true
		}
		stack = append(stack, x.Succs...)
	}
	return false
}

// ---------------------------------------------------------------------------
// branch facts (E-DOM): which conditions are known true/false at block entry

type fact struct {
	v   ssa.Value
	pol bool
}
type factSet map[fact]bool

type Facts struct {
	fn *ssa.Function
	in map[*ssa.BasicBlock]factSet
}

// ComputeFacts: forward must-analysis.  At `if c goto T else F`, T learns
// (c,true) and F learns (c,false); joins intersect.  Facts about values defined
// inside a loop are killed at the loop header (the SSA register is rewritten by
// the next iteration).
func ComputeFacts(f *ssa.Function) *Facts {
	fa := &Facts{fn: f, in: map[*ssa.BasicBlock]factSet{}}
	if len(f.Blocks) == 0 {
		return fa
	}
	// out-facts along an edge
	edgeOut := func(pred, succ *ssa.BasicBlock) factSet {
		base := fa.in[pred]
		if base == nil {
			return nil // TOP (unvisited)
		}
		out := factSet{}
		for k := range base {
			out[k] = true
		}
		if len(pred.Instrs) > 0 {
			if iff, ok := pred.Instrs[len(pred.Instrs)-1].(*ssa.If); ok && len(pred.Succs) == 2 && pred.Succs[0] != pred.Succs[1] {
				pol := succ == pred.Succs[0]
				if succ == pred.Succs[0] || succ == pred.Succs[1] {
					addCond(out, iff.Cond, pol)
					// `a && b` / `a || b` evaluated as a value: phi [short-circuit: const, rhs: X]
					if p, isPhi := iff.Cond.(*ssa.Phi); isPhi && p.Block() == pred {
						rhs := -1
						allConst := true
						var cval bool
						for i, e := range p.Edges {
							if cb, isC := constBool(e); isC {
								cval = cb
							} else if rhs < 0 {
								rhs = i
							} else {
								allConst = false
							}
						}
						if rhs >= 0 && allConst && len(p.Edges) >= 2 && pol != cval {
							// the value can only have come through the rhs edge
							rp := pred.Preds[rhs]
							if base := fa.in[rp]; base != nil {
								for k := range base {
									out[k] = true
								}
							}
							if len(rp.Instrs) > 0 {
								if riff, isIf := rp.Instrs[len(rp.Instrs)-1].(*ssa.If); isIf && len(rp.Succs) == 2 {
									addCond(out, riff.Cond, pred == rp.Succs[0])
								}
							}
							// straight-line rhs block: inherit the facts of the edge into it
							if len(rp.Preds) == 1 {
								pp := rp.Preds[0]
								if len(pp.Instrs) > 0 {
									if piff, isIf := pp.Instrs[len(pp.Instrs)-1].(*ssa.If); isIf && len(pp.Succs) == 2 && pp.Succs[0] != pp.Succs[1] {
										addCond(out, piff.Cond, rp == pp.Succs[0])
									}
								}
							}
							addCond(out, p.Edges[rhs], pol)
						}
					}
				}
			}
		}
		return out
	}
	fa.in[f.Blocks[0]] = factSet{}
	changed := true
	for iter := 0; changed && iter < 100; iter++ {
		changed = false
		for _, b := range f.Blocks {
			if b == f.Blocks[0] {
				continue
			}
			var acc factSet
			first := true
			for _, p := range b.Preds {
				eo := edgeOut(p, b)
				if eo == nil {
					continue // TOP
				}
				if first {
					acc = eo
					first = false
				} else {
					for k := range acc {
						if !eo[k] {
							delete(acc, k)
						}
					}
				}
			}
			if first {
				continue
			}
			// loop header: kill facts about values defined in blocks dominated by b
			isHeader := false
			for _, p := range b.Preds {
				if b.Dominates(p) {
					isHeader = true
				}
			}
			if isHeader {
				for k := range acc {
					if definedUnder(k.v, b) {
						delete(acc, k)
					}
				}
			}
			old := fa.in[b]
			if old == nil || !sameFacts(old, acc) {
				fa.in[b] = acc
				changed = true
			}
		}
	}
	return fa
}

func sameFacts(a, b factSet) bool {
	if len(a) != len(b) {
		return false
	}
	for k := range a {
		if !b[k] {
			return false
		}
	}
	return true
}

// definedUnder: v (or any operand it is computed from) is defined in a block
// dominated by h.
func definedUnder(v ssa.Value, h *ssa.BasicBlock) bool {
	seen := map[ssa.Value]bool{}
	var rec func(v ssa.Value, d int) bool
	rec = func(v ssa.Value, d int) bool {
		if v == nil || seen[v] || d > 6 {
			return false
		}
		seen[v] = true
		in, ok := v.(ssa.Instruction)
		if !ok {
			return false
		}
		if in.Block() != nil && h.Dominates(in.Block()) {
			return true
		}
		for _, op := range in.Operands(nil) {
			if op != nil && *op != nil && rec(*op, d+1) {
				return true
			}
		}
		return false
	}
	return rec(v, 0)
}

// addCond records c==pol, and decomposes !x.
func addCond(fs factSet, c ssa.Value, pol bool) {
	fs[fact{c, pol}] = true
	if u, ok := c.(*ssa.UnOp); ok && u.Op == token.NOT {
		addCond(fs, u.X, !pol)
	}
}

// At returns the facts known at block entry (never nil).
func (fa *Facts) At(b *ssa.BasicBlock) factSet {
	if s := fa.in[b]; s != nil {
		return s
	}
	return factSet{}
}

// ---- semantic queries over facts -----------------------------------------

func isNilConst(v ssa.Value) bool {
	c, ok := v.(*ssa.Const)
	return ok && c.Value == nil
}

func constInt(v ssa.Value) (int64, bool) {
	c, ok := v.(*ssa.Const)
	if !ok || c.Value == nil || c.Value.Kind() != constant.Int {
		return 0, false
	}
	i, ok := constant.Int64Val(c.Value)
	return i, ok
}

func constBool(v ssa.Value) (bool, bool) {
	c, ok := v.(*ssa.Const)
	if !ok || c.Value == nil || c.Value.Kind() != constant.Bool {
		return false, false
	}
	return constant.BoolVal(c.Value), true
}

func constString(v ssa.Value) (string, bool) {
	c, ok := v.(*ssa.Const)
	if !ok || c.Value == nil || c.Value.Kind() != constant.String {
		return "", false
	}
	return constant.StringVal(c.Value), true
}

// KnownNil reports whether the facts at block b imply v == nil (want=true) or
// v != nil (want=false).  Values are compared modulo resolve().
func (fa *Facts) KnownNil(b *ssa.BasicBlock, v ssa.Value, wantNil bool) bool {
	rv := resolve(v)
	if !wantNil && isNonNilErrValue(rv, 0) {
		return true
	}
	if wantNil && rv != nil && isErrorType(rv.Type()) && nilImpliedByAggregate(fa.At(b), rv) {
		return true
	}
	for k := range fa.At(b) {
		bo, ok := k.v.(*ssa.BinOp)
		if !ok || (bo.Op != token.EQL && bo.Op != token.NEQ) {
			continue
		}
		var other ssa.Value
		if isNilConst(bo.Y) {
			other = bo.X
		} else if isNilConst(bo.X) {
			other = bo.Y
		} else {
			continue
		}
		if !sameValue(resolve(other), rv) {
			continue
		}
		isNil := (bo.Op == token.EQL) == k.pol
		if isNil == wantNil {
			return true
		}
	}
	return false
}

// KnownBool: facts imply boolean value v == want.
func (fa *Facts) KnownBool(b *ssa.BasicBlock, v ssa.Value, want bool) bool {
	rv := resolve(v)
	for k := range fa.At(b) {
		if sameValue(resolve(k.v), rv) && k.pol == want {
			return true
		}
		// comparisons with a boolean constant: x == true, x == false, x != ...
		if bo, ok := k.v.(*ssa.BinOp); ok && (bo.Op == token.EQL || bo.Op == token.NEQ) {
			var other ssa.Value
			var cb bool
			if c, ok := constBool(bo.Y); ok {
				other, cb = bo.X, c
			} else if c, ok := constBool(bo.X); ok {
				other, cb = bo.Y, c
			} else {
				continue
			}
			if !sameValue(resolve(other), rv) {
				continue
			}
			val := cb
			if (bo.Op == token.EQL) != k.pol {
				val = !cb
			}
			if val == want {
				return true
			}
		}
	}
	return false
}

// ---------------------------------------------------------------------------
// value resolution

// resolve looks through loads of function-local allocs whose reaching store
// is unambiguous (named results and variables spilled because of defer or
// closures), through ChangeType/ChangeInterface/MakeInterface-free copies and
// single-edge phis.
func resolve(v ssa.Value) ssa.Value { return resolveRec(v, nil) }

func resolveRec(v ssa.Value, visiting map[*ssa.Phi]bool) ssa.Value {
	for depth := 0; depth < 8; depth++ {
		switch x := v.(type) {
		case *ssa.UnOp:
			if x.Op == token.MUL {
				if fv, ok := x.X.(*ssa.FreeVar); ok {
					if s := reachingStoreAddr(x, fv); s != nil {
						v = s
						continue
					}
				}
				if a, ok := x.X.(*ssa.Alloc); ok {
					if s := reachingStore(x, a); s != nil {
						v = s
						continue
					}
					if s := uniqueStore(a); s != nil && dominates(s, x) {
						v = s.Val
						continue
					}
				}
			}
			return v
		case *ssa.ChangeType:
			v = x.X
			continue
		case *ssa.Phi:
			// phi of identical operands
			var first ssa.Value
			same := true
			if visiting[x] {
				return v
			}
			if visiting == nil {
				visiting = map[*ssa.Phi]bool{}
			}
			visiting[x] = true
			for _, e := range x.Edges {
				if e == ssa.Value(x) {
					continue // a loop-carried copy of itself
				}
				re := resolveRec(e, visiting)
				if re == ssa.Value(x) {
					continue
				}
				if first == nil {
					first = re
				} else if !sameValue(first, re) {
					same = false
				}
			}
			if same && first != nil {
				return first
			}
			return v
		default:
			return v
		}
	}
	return v
}

// reachingStore: the value stored to alloc a that reaches load ld, when it is
// unambiguous: walk back within the block, then through unique predecessors.
// If the address escapes into a closure the store might be elsewhere; we only
// accept stores in the same function that dominate the load with no other
// store to a on any path in between (approximated: no other store to a in any
// block strictly between by dominance chain walking).
func reachingStore(ld *ssa.UnOp, a *ssa.Alloc) ssa.Value {
	b := ld.Block()
	idx := instrIndex(ld)
	for hops := 0; hops < 16 && b != nil; hops++ {
		for i := idx - 1; i >= 0; i-- {
			switch s := b.Instrs[i].(type) {
			case *ssa.Store:
				if s.Addr == a {
					return s.Val
				}
			case ssa.CallInstruction:
				// a call may write through a captured pointer
				if allocCaptured(a) {
					return nil
				}
			}
		}
		if len(b.Preds) != 1 {
			return nil
		}
		b = b.Preds[0]
		idx = len(b.Instrs)
	}
	return nil
}

func allocCaptured(a *ssa.Alloc) bool {
	for _, r := range *a.Referrers() {
		switch r := r.(type) {
		case *ssa.MakeClosure:
			// a closure that is only ever deferred runs at function exit: ordinary
			// calls in between cannot write the variable through it
			onlyDeferred := true
			for _, u := range *r.Referrers() {
				if _, isDefer := u.(*ssa.Defer); !isDefer {
					if _, isDbg := u.(*ssa.DebugRef); !isDbg {
						onlyDeferred = false
					}
				}
			}
			if onlyDeferred {
				continue
			}
			return true
		case *ssa.Store:
			if r.Val == a {
				return true
			}
		case ssa.CallInstruction:
			return true
		}
	}
	return false
}

// sameValue: structural identity good enough for guards: identical registers,
// equal constants, loads of the same field path of the same root, len() of the
// same value.
func sameValue(a, b ssa.Value) bool {
	if a == b {
		return true
	}
	if a == nil || b == nil {
		return false
	}
	ka, kb := valueKey(a, 0), valueKey(b, 0)
	if ka != "" && ka == kb {
		return true
	}
	// two readings of one strings.Builder / bytes.Buffer with nothing written to it in between
	if ca, ok := a.(*ssa.Call); ok {
		if cb, ok := b.(*ssa.Call); ok {
			return sameBuilderString(ca, cb) || sameBuilderString(cb, ca)
		}
	}
	return false
}

// sameBuilderString: a and b are x.String() of the same strings.Builder (bytes.Buffer), a
// dominates b, and on no way from a to b (that does not come back through a's block) a method
// of x other than String/Len/Cap is called.
func sameBuilderString(a, b *ssa.Call) bool {
	isStr := func(c *ssa.Call) (ssa.Value, bool) {
		f := c.Call.StaticCallee()
		if f == nil || f.Name() != "String" || len(c.Call.Args) != 1 {
			return nil, false
		}
		q := qualName(f)
		if q != "strings.(Builder).String" && q != "bytes.(Buffer).String" {
			return nil, false
		}
		return c.Call.Args[0], true
	}
	ra, oka := isStr(a)
	rb, okb := isStr(b)
	if !oka || !okb || a.Parent() != b.Parent() || !(ra == rb || (keyP(ra) == keyP(rb) && keyP(ra) != "?")) || !dominates(a, b) {
		return false
	}
	writes := func(in ssa.Instruction) bool {
		ci := callInfo(in, nil, 0)
		if ci == nil || ci.Static == nil || ci.Static.Signature.Recv() == nil || len(ci.Common.Args) == 0 {
			return false
		}
		q := qualName(ci.Static)
		if !strings.HasPrefix(q, "strings.(Builder).") && !strings.HasPrefix(q, "bytes.(Buffer).") {
			return false
		}
		if r := ci.Common.Args[0]; !(r == ra || keyP(r) == keyP(ra)) {
			return false
		}
		switch ci.Static.Name() {
		case "String", "Len", "Cap", "Bytes":
			return false
		}
		return true
	}
	// the region: after a in its block, then blocks reachable without re-entering a's block, up to b
	ab := a.Block()
	ia := instrIndex(a)
	if b.Block() == ab {
		for i := ia + 1; i < instrIndex(b); i++ {
			if writes(ab.Instrs[i]) {
				return false
			}
		}
		return true
	}
	for i := ia + 1; i < len(ab.Instrs); i++ {
		if writes(ab.Instrs[i]) {
			return false
		}
	}
	// blocks from which b's block is reachable without passing through a's block
	canReach := map[*ssa.BasicBlock]bool{b.Block(): true}
	back := []*ssa.BasicBlock{b.Block()}
	for len(back) > 0 {
		x := back[len(back)-1]
		back = back[:len(back)-1]
		for _, p := range x.Preds {
			if p != ab && !canReach[p] {
				canReach[p] = true
				back = append(back, p)
			}
		}
	}
	seen := map[*ssa.BasicBlock]bool{ab: true}
	stack := append([]*ssa.BasicBlock{}, ab.Succs...)
	for len(stack) > 0 {
		x := stack[len(stack)-1]
		stack = stack[:len(stack)-1]
		if seen[x] {
			continue
		}
		seen[x] = true
		if !canReach[x] {
			continue
		}
		lim := len(x.Instrs)
		if x == b.Block() {
			lim = instrIndex(b)
		}
		for i := 0; i < lim; i++ {
			if writes(x.Instrs[i]) {
				return false
			}
		}
		if x != b.Block() {
			stack = append(stack, x.Succs...)
		}
	}
	return true
}

// valueKey: canonical textual key of a side-effect-free expression over
// parameters, free variables, constants, field loads. "" if not canonical.
func valueKey(v ssa.Value, d int) string {
	if d > 8 {
		return ""
	}
	switch x := v.(type) {
	case *ssa.Parameter:
		return "param:" + x.Name()
	case *ssa.FreeVar:
		return "free:" + x.Name()
	case *ssa.Const:
		if x.Value == nil {
			return "nil"
		}
		return "const:" + x.Value.ExactString()
	case *ssa.Global:
		return "global:" + x.Name()
	case *ssa.FieldAddr:
		k := valueKey(x.X, d+1)
		if k == "" {
			return ""
		}
		return fmt.Sprintf("%s.&f%d", k, x.Field)
	case *ssa.Field:
		k := valueKey(x.X, d+1)
		if k == "" {
			return ""
		}
		return fmt.Sprintf("%s.f%d", k, x.Field)
	case *ssa.UnOp:
		if x.Op == token.MUL {
			if _, isAlloc := x.X.(*ssa.Alloc); isAlloc {
				r := resolve(x)
				if r != ssa.Value(x) {
					return valueKey(r, d+1)
				}
				return fmt.Sprintf("load:%p", x.X)
			}
			k := valueKey(x.X, d+1)
			if k == "" {
				return ""
			}
			return "*" + k
		}
		return ""
	case *ssa.Call:
		if b, ok := x.Call.Value.(*ssa.Builtin); ok && b.Name() == "len" && len(x.Call.Args) == 1 {
			k := valueKey(x.Call.Args[0], d+1)
			if k == "" {
				return fmt.Sprintf("len(%p)", x.Call.Args[0])
			}
			return "len(" + k + ")"
		}
		return ""
	case *ssa.ChangeType:
		return valueKey(x.X, d+1)
	case *ssa.MakeInterface:
		k := valueKey(x.X, d+1)
		if k == "" {
			return ""
		}
		return "iface(" + k + ")"
	case *ssa.Alloc:
		return fmt.Sprintf("alloc:%p", x)
	}
	return ""
}

// describe an SSA value for reports
func vdesc(v ssa.Value) string {
	if v == nil {
		return "<nil>"
	}
	return fmt.Sprintf("%s (%s)", v.Name(), v.String())
}

// returns of a function
func returnsOf(f *ssa.Function) []*ssa.Return {
	var out []*ssa.Return
	for _, b := range f.Blocks {
		if len(b.Instrs) == 0 || b == f.Recover {
			continue
		}
		if r, ok := b.Instrs[len(b.Instrs)-1].(*ssa.Return); ok {
			out = append(out, r)
		}
	}
	return out
}

// structOf: the struct type behind a (pointer to a) possibly unnamed struct.
func structOf(t types.Type) *types.Struct {
	if pt, ok := t.Underlying().(*types.Pointer); ok {
		t = pt.Elem()
	}
	st, _ := t.Underlying().(*types.Struct)
	return st
}

// uniqueStore: the only store ever made to local variable a (also counting the
// closures that capture it); nil if there is none or more than one, or the
// address escapes in another way.
func uniqueStore(a *ssa.Alloc) *ssa.Store {
	var only *ssa.Store
	n := 0
	var scan func(addr ssa.Value, fn *ssa.Function) bool
	scan = func(addr ssa.Value, fn *ssa.Function) bool {
		refs := addr.Referrers()
		if refs == nil {
			return true
		}
		for _, r := range *refs {
			switch x := r.(type) {
			case *ssa.Store:
				if x.Addr == addr {
					n++
					only = x
				} else {
					return false // address stored somewhere
				}
			case *ssa.UnOp, *ssa.DebugRef:
			case *ssa.MakeClosure:
				cf, ok := x.Fn.(*ssa.Function)
				if !ok {
					return false
				}
				for i, b := range x.Bindings {
					if b == addr && i < len(cf.FreeVars) {
						if !scan(cf.FreeVars[i], cf) {
							return false
						}
					}
				}
			default:
				return false
			}
		}
		return true
	}
	if !scan(a, a.Parent()) || n != 1 {
		return nil
	}
	if only.Parent() != a.Parent() {
		return nil
	}
	return only
}

// reachingStoreAddr: like reachingStore for an arbitrary address value (a
// captured variable): any call between the store and the load is a barrier.
func reachingStoreAddr(ld *ssa.UnOp, addr ssa.Value) ssa.Value {
	b := ld.Block()
	idx := instrIndex(ld)
	for hops := 0; hops < 8 && b != nil; hops++ {
		for i := idx - 1; i >= 0; i-- {
			switch s := b.Instrs[i].(type) {
			case *ssa.Store:
				if s.Addr == addr {
					return s.Val
				}
			case ssa.CallInstruction:
				return nil
			}
		}
		if len(b.Preds) != 1 {
			return nil
		}
		b = b.Preds[0]
		idx = len(b.Instrs)
	}
	return nil
}

func constantInt(k int64) constant.Value { return constant.MakeInt64(k) }

func constantInt64(cn *types.Const) (int64, bool) { return constant.Int64Val(cn.Val()) }

// HoldsOnAllEdges: pred holds for the facts at b, or — when b is a join — for
// the facts of every incoming edge (recursively, bounded).  This is how a
// disjunctive guard (`if !(a && b) { ... }`, `if a || b`) is recognised: each
// way of reaching the block must establish the condition by itself.
func (fa *Facts) HoldsOnAllEdges(b *ssa.BasicBlock, pred func(factSet) bool) bool {
	return fa.holdsRec(b, pred, 0, map[*ssa.BasicBlock]bool{})
}

func (fa *Facts) holdsRec(b *ssa.BasicBlock, pred func(factSet) bool, depth int, onPath map[*ssa.BasicBlock]bool) bool {
	if pred(fa.At(b)) {
		return true
	}
	if depth > 8 || len(b.Preds) == 0 || onPath[b] {
		return false
	}
	onPath[b] = true
	defer delete(onPath, b)
	for _, p := range b.Preds {
		if b.Dominates(p) {
			// a back edge: what the previous iteration learnt about values the loop defines says
			// nothing about this iteration's values
			fs := factSet{}
			for k := range factsOnEdge(fa, p, b) {
				if !definedUnder(k.v, b) {
					fs[k] = true
				}
			}
			if pred(fs) {
				continue
			}
			return false
		}
		if pred(factsOnEdge(fa, p, b)) {
			continue
		}
		// whatever every way into p establishes still holds when p is left (facts speak about
		// SSA values; only loop headers retract them): look further up
		if fa.holdsRec(p, pred, depth+1, onPath) {
			continue
		}
		return false
	}
	return true
}

// isNonNilErrValue: v is an error value that cannot be nil: a freshly built
// error object, or the result of a constructor that always returns one
// (fmt.Errorf, errors.New, goaterr.Errorf/NewError/Wrap/Wrapf - computed, not listed).
var nonNilErrMemo = map[*ssa.Function]int{}

func isNonNilErrValue(v ssa.Value, depth int) bool {
	if v == nil || depth > 4 {
		return false
	}
	switch x := v.(type) {
	case *ssa.MakeInterface:
		switch y := x.X.(type) {
		case *ssa.Alloc:
			return true
		case *ssa.Call:
			_ = y
			return false
		}
		return false
	case *ssa.Call:
		f := x.Call.StaticCallee()
		if f == nil || errResultIndex(f.Signature) < 0 || f.Signature.Results().Len() != 1 {
			return false
		}
		switch qualName(f) {
		case "fmt.Errorf", "errors.New":
			return true
		}
		if f.Blocks == nil {
			return false
		}
		if r, ok := nonNilErrMemo[f]; ok {
			return r == 1
		}
		nonNilErrMemo[f] = 0
		all := true
		for _, r := range returnsOf(f) {
			if !isNonNilErrValue(resolve(r.Results[0]), depth+1) {
				all = false
			}
		}
		if all && len(returnsOf(f)) > 0 {
			nonNilErrMemo[f] = 1
			return true
		}
	}
	return false
}

// flagBits: for an integer flag expression built from constants, `|` and
// conditional additions (phi), the bits set on every path (must) and on some path (may).
func flagBits(v ssa.Value, depth int) (must, may int64, ok bool) {
	if depth > 6 {
		return 0, 0, false
	}
	v = resolve(v)
	if k, isC := constInt(v); isC {
		return k, k, true
	}
	switch x := v.(type) {
	case *ssa.BinOp:
		if x.Op == token.OR || x.Op == token.ADD {
			m1, y1, ok1 := flagBits(x.X, depth+1)
			m2, y2, ok2 := flagBits(x.Y, depth+1)
			return m1 | m2, y1 | y2, ok1 && ok2
		}
	case *ssa.Phi:
		must, ok = -1, true
		for _, e := range x.Edges {
			if e == ssa.Value(x) {
				continue
			}
			m, y, o := flagBits(e, depth+1)
			if !o {
				return 0, 0, false
			}
			must &= m
			may |= y
		}
		return must, may, ok
	case *ssa.Convert:
		return flagBits(x.X, depth+1)
	}
	return 0, 0, false
}

// workerOf: if f only hands its parameters (plus constants) on to one function of its
// own package and returns that call's results, the function that does the work (followed
// up to three levels); otherwise f.
func workerOf(f *ssa.Function) *ssa.Function {
	for hop := 0; hop < 3; hop++ {
		if f == nil || len(f.Blocks) != 1 {
			return f
		}
		var only *ssa.Call
		okShape := true
		for _, in := range f.Blocks[0].Instrs {
			switch x := in.(type) {
			case *ssa.Call:
				if only != nil {
					okShape = false
				}
				only = x
			case *ssa.Return, *ssa.Extract, *ssa.DebugRef, *ssa.Alloc, *ssa.Store, *ssa.UnOp, *ssa.FieldAddr, *ssa.MakeInterface, *ssa.ChangeType,
				*ssa.Slice, *ssa.MakeSlice, *ssa.Convert, *ssa.ChangeInterface, *ssa.Field, *ssa.IndexAddr, *ssa.BinOp:
			default:
				okShape = false
			}
		}
		if !okShape || only == nil {
			return f
		}
		g := only.Call.StaticCallee()
		if g == nil || g.Pkg != f.Pkg || g.Blocks == nil || g == f {
			return f
		}
		// every result of f comes from the call
		for _, r := range returnsOf(f) {
			for _, rv := range r.Results {
				v := resolve(rv)
				if ex, isEx := v.(*ssa.Extract); isEx {
					v = ex.Tuple
				}
				if v != ssa.Value(only) {
					return f
				}
			}
		}
		f = g
	}
	return f
}

// ---------------------------------------------------------------------------
// boolean flag fields, plain or atomic

// flagFieldOfAddr: v is &x.F; returns "pkg.Type.F" (reference name).
func flagFieldOfAddr(v ssa.Value) string {
	if fa, ok := v.(*ssa.FieldAddr); ok {
		return fieldName(fa)
	}
	return ""
}

// flagSetInstr: the instruction sets a flag field: `x.F = true`, atomic.StoreT(&x.F, non-zero)
// or x.F.Store(true / non-zero).  Returns the field's qualified name.
func flagSetInstr(in ssa.Instruction) string {
	switch x := in.(type) {
	case *ssa.Store:
		if b, ok := constBool(x.Val); ok && b {
			return flagFieldOfAddr(x.Addr)
		}
	case *ssa.Call:
		cal := x.Call.StaticCallee()
		if cal == nil || cal.Pkg == nil || cal.Pkg.Pkg.Path() != "sync/atomic" || len(x.Call.Args) < 2 {
			return ""
		}
		// CompareAndSwap(&x.F, clear, set): test and set in one step
		if strings.HasPrefix(cal.Name(), "CompareAndSwap") && len(x.Call.Args) == 3 {
			wasClear := false
			if b, ok := constBool(x.Call.Args[1]); ok && !b {
				wasClear = true
			}
			if k, ok := constInt(x.Call.Args[1]); ok && k == 0 {
				wasClear = true
			}
			nowSet := false
			if b, ok := constBool(x.Call.Args[2]); ok && b {
				nowSet = true
			}
			if k, ok := constInt(x.Call.Args[2]); ok && k != 0 {
				nowSet = true
			}
			if wasClear && nowSet {
				return flagFieldOfAddr(x.Call.Args[0])
			}
			return ""
		}
		if !strings.HasPrefix(cal.Name(), "Store") && !strings.HasPrefix(cal.Name(), "Swap") {
			return ""
		}
		set := false
		if b, ok := constBool(x.Call.Args[1]); ok && b {
			set = true
		}
		if k, ok := constInt(x.Call.Args[1]); ok && k != 0 {
			set = true
		}
		if set {
			return flagFieldOfAddr(x.Call.Args[0])
		}
	}
	return ""
}

// flagExpr: v is a boolean reading of flag field `field`: returns (true, positive) where
// positive says whether v == true means "flag set".  Understands plain loads, atomic
// loads compared with 0/1, atomic.Bool.Load, negation, and private predicate helpers
// (func (x *T) isF() bool { return <flag expression> }).
func flagExpr(v ssa.Value, field string, depth int) (isFlag, positive bool) {
	if depth > 4 || v == nil {
		return false, false
	}
	v = resolve(v)
	isLoadOfField := func(x ssa.Value) bool {
		x = resolve(x)
		if u, ok := x.(*ssa.UnOp); ok && u.Op == token.MUL {
			return flagFieldOfAddr(u.X) == field
		}
		if c, ok := x.(*ssa.Call); ok {
			if cal := c.Call.StaticCallee(); cal != nil && cal.Pkg != nil && cal.Pkg.Pkg.Path() == "sync/atomic" && strings.HasPrefix(cal.Name(), "Load") && len(c.Call.Args) >= 1 {
				return flagFieldOfAddr(c.Call.Args[0]) == field
			}
		}
		return false
	}
	switch x := v.(type) {
	case *ssa.UnOp:
		if x.Op == token.NOT {
			f, p := flagExpr(x.X, field, depth+1)
			return f, !p
		}
		if isLoadOfField(x) && isBoolType(x.Type()) {
			return true, true
		}
	case *ssa.BinOp:
		var other, cst ssa.Value
		if _, ok := x.Y.(*ssa.Const); ok {
			other, cst = x.X, x.Y
		} else if _, ok := x.X.(*ssa.Const); ok {
			other, cst = x.Y, x.X
		} else {
			return false, false
		}
		if !isLoadOfField(other) {
			return false, false
		}
		if k, ok := constInt(cst); ok {
			switch {
			case x.Op == token.NEQ && k == 0, x.Op == token.GTR && k == 0 && other == x.X, x.Op == token.EQL && k == 1, x.Op == token.GEQ && k == 1 && other == x.X:
				return true, true
			case x.Op == token.EQL && k == 0, x.Op == token.NEQ && k == 1:
				return true, false
			}
		}
		if b, ok := constBool(cst); ok && (x.Op == token.EQL || x.Op == token.NEQ) {
			return true, (x.Op == token.EQL) == b
		}
	case *ssa.Extract:
		// closed, stack := x.closeState(): component i of a private accessor whose every return
		// yields a flag expression there
		cl, ok := x.Tuple.(*ssa.Call)
		if !ok || !isBoolType(x.Type()) {
			return false, false
		}
		h := cl.Call.StaticCallee()
		if h == nil || h.Blocks == nil || h.Signature.Recv() == nil || x.Index >= h.Signature.Results().Len() {
			return false, false
		}
		first := true
		var pos bool
		for _, r := range returnsOf(h) {
			if x.Index >= len(r.Results) {
				return false, false
			}
			f, p := flagExpr(r.Results[x.Index], field, depth+1)
			if !f || (!first && p != pos) {
				return false, false
			}
			pos, first = p, false
		}
		return !first, pos
	case *ssa.Call:
		if isLoadOfField(x) && isBoolType(x.Type()) {
			return true, true
		}
		// a failed CompareAndSwap(&F, clear, set) says the flag was set already
		if flagSetInstr(x) == field {
			if cal := x.Call.StaticCallee(); cal != nil && strings.HasPrefix(cal.Name(), "CompareAndSwap") {
				return true, false
			}
		}
		h := x.Call.StaticCallee()
		if h == nil || h.Blocks == nil || h.Signature.Results().Len() != 1 || !isBoolType(h.Signature.Results().At(0).Type()) || h.Signature.Recv() == nil {
			return false, false
		}
		first := true
		var pos bool
		for _, r := range returnsOf(h) {
			f, p := flagExpr(r.Results[0], field, depth+1)
			if !f || (!first && p != pos) {
				return false, false
			}
			pos, first = p, false
		}
		return !first, pos
	}
	return false, false
}

// flagKnownIn: the facts determine whether flag field `field` is set.
func flagKnownIn(fs factSet, field string) (set, known bool) {
	for k := range fs {
		if f, pos := flagExpr(k.v, field, 0); f {
			return k.pol == pos, true
		}
	}
	return false, false
}
