package main

// eng_abs.go — E-ABS: path-sensitive predicate abstraction of one function over
// its SSA CFG.  The abstract state is a joint valuation of the loop-carried
// boolean phis (T/F/?) and of the emptiness of selected slices
// (Empty/NonEmpty/?).  States are explored as (block, valuation) pairs to a
// fixpoint (at most 3^k valuations per block, k = tracked phis <= 8).

import (
	"fmt"
	"go/token"
	"go/types"
	"sort"
	"strings"

	"golang.org/x/tools/go/ssa"
)

type absVal byte

const (
	absUnknown absVal = iota
	absTrue           // bool true  / slice non-empty
	absFalse          // bool false / slice empty
)

func (a absVal) String() string {
	switch a {
	case absTrue:
		return "T"
	case absFalse:
		return "F"
	}
	return "?"
}

type absEnv struct {
	phis []*ssa.Phi
	vals []absVal
}

func (e absEnv) key() string {
	b := make([]byte, len(e.vals))
	for i, v := range e.vals {
		b[i] = "?TF"[v]
	}
	return string(b)
}

func (e absEnv) get(p *ssa.Phi) (absVal, bool) {
	for i, q := range e.phis {
		if q == p {
			return e.vals[i], true
		}
	}
	return absUnknown, false
}

func (e absEnv) with(p *ssa.Phi, v absVal) absEnv {
	n := absEnv{phis: e.phis, vals: append([]absVal{}, e.vals...)}
	for i, q := range e.phis {
		if q == p {
			n.vals[i] = v
		}
	}
	return n
}

func (e absEnv) String() string {
	var parts []string
	for i, p := range e.phis {
		nm := p.Comment
		if nm == "" {
			nm = p.Name()
		}
		parts = append(parts, fmt.Sprintf("%s=%s", nm, e.vals[i]))
	}
	return strings.Join(parts, ",")
}

// AbsResult: the valuations reachable at each block entry, and per edge.
type AbsResult struct {
	Fn     *ssa.Function
	Phis   []*ssa.Phi
	States map[*ssa.BasicBlock]map[string]absEnv
	Edges  map[[2]*ssa.BasicBlock]map[string]absEnv // (pred, succ) -> env after phi evaluation at succ
}

func isBoolT(t types.Type) bool {
	b, ok := t.Underlying().(*types.Basic)
	return ok && b.Kind() == types.Bool
}

func isSliceT(t types.Type) bool {
	_, ok := t.Underlying().(*types.Slice)
	return ok
}

// absEval evaluates an SSA value in env.
func absEval(v ssa.Value, env absEnv, depth int) absVal {
	if depth > 8 {
		return absUnknown
	}
	switch x := v.(type) {
	case *ssa.Const:
		if isBoolT(x.Type()) {
			if b, ok := constBool(x); ok {
				if b {
					return absTrue
				}
				return absFalse
			}
		}
		if x.Value == nil && isSliceT(x.Type()) {
			return absFalse // nil slice: empty
		}
		return absUnknown
	case *ssa.Phi:
		if a, ok := env.get(x); ok {
			return a
		}
		return absUnknown
	case *ssa.UnOp:
		if x.Op == token.NOT {
			switch absEval(x.X, env, depth+1) {
			case absTrue:
				return absFalse
			case absFalse:
				return absTrue
			}
		}
		return absUnknown
	case *ssa.Call:
		if b, ok := x.Call.Value.(*ssa.Builtin); ok && b.Name() == "append" {
			// append(s, elems...) is non-empty when at least one element is appended or s is non-empty
			if len(x.Call.Args) == 2 {
				if sl, ok := x.Call.Args[1].(*ssa.Slice); ok {
					if els := arrayElems(sl.X); len(els) > 0 {
						return absTrue
					}
				}
			}
			return absEval(x.Call.Args[0], env, depth+1)
		}
	}
	return absUnknown
}

// AbsExplore runs the abstraction.  tracked: which phis take part (nil = all
// bool phis and all []string phis).
func AbsExplore(f *ssa.Function) *AbsResult {
	res := &AbsResult{Fn: f, States: map[*ssa.BasicBlock]map[string]absEnv{}, Edges: map[[2]*ssa.BasicBlock]map[string]absEnv{}}
	for _, b := range f.Blocks {
		for _, in := range b.Instrs {
			if p, ok := in.(*ssa.Phi); ok && (isBoolT(p.Type()) || isSliceT(p.Type())) {
				res.Phis = append(res.Phis, p)
			}
		}
	}
	if len(res.Phis) > 10 {
		res.Phis = res.Phis[:10]
	}
	init := absEnv{phis: res.Phis, vals: make([]absVal, len(res.Phis))}
	type item struct {
		b   *ssa.BasicBlock
		env absEnv
	}
	add := func(b *ssa.BasicBlock, env absEnv) bool {
		m := res.States[b]
		if m == nil {
			m = map[string]absEnv{}
			res.States[b] = m
		}
		k := env.key()
		if _, ok := m[k]; ok {
			return false
		}
		m[k] = env
		return true
	}
	work := []item{{f.Blocks[0], init}}
	add(f.Blocks[0], init)
	for len(work) > 0 {
		it := work[len(work)-1]
		work = work[:len(work)-1]
		b, env := it.b, it.env
		// successors with refinement
		type out struct {
			s   *ssa.BasicBlock
			env absEnv
		}
		var outs []out
		if len(b.Instrs) > 0 {
			if iff, ok := b.Instrs[len(b.Instrs)-1].(*ssa.If); ok && len(b.Succs) == 2 {
				cv := absEval(iff.Cond, env, 0)
				tEnv, fEnv := env, env
				// refine a tracked phi tested directly (or negated)
				cond := iff.Cond
				neg := false
				if u, ok := cond.(*ssa.UnOp); ok && u.Op == token.NOT {
					cond, neg = u.X, true
				}
				if p, ok := cond.(*ssa.Phi); ok {
					if _, tracked := env.get(p); tracked && isBoolT(p.Type()) {
						tv, fv := absTrue, absFalse
						if neg {
							tv, fv = absFalse, absTrue
						}
						tEnv, fEnv = env.with(p, tv), env.with(p, fv)
					}
				}
				// len(s) == 0 style tests on a tracked slice phi
				if bo, ok := iff.Cond.(*ssa.BinOp); ok {
					if p, okp := lenOfPhi(bo.X, env); okp {
						if k, okk := constInt(bo.Y); okk && k == 0 {
							switch bo.Op {
							case token.EQL:
								tEnv, fEnv = env.with(p, absFalse), env.with(p, absTrue)
							case token.NEQ, token.GTR:
								tEnv, fEnv = env.with(p, absTrue), env.with(p, absFalse)
							}
							if a, _ := env.get(p); a != absUnknown {
								isEmpty := a == absFalse
								if bo.Op == token.EQL {
									if isEmpty {
										cv = absTrue
									} else {
										cv = absFalse
									}
								} else if bo.Op == token.NEQ || bo.Op == token.GTR {
									if isEmpty {
										cv = absFalse
									} else {
										cv = absTrue
									}
								}
							}
						}
					}
				}
				if cv != absFalse {
					outs = append(outs, out{b.Succs[0], tEnv})
				}
				if cv != absTrue {
					outs = append(outs, out{b.Succs[1], fEnv})
				}
			} else {
				for _, s := range b.Succs {
					outs = append(outs, out{s, env})
				}
			}
		}
		for _, o := range outs {
			// evaluate phis of the successor in the predecessor's env
			idx := -1
			for i, p := range o.s.Preds {
				if p == b {
					idx = i
				}
			}
			nenv := absEnv{phis: o.env.phis, vals: append([]absVal{}, o.env.vals...)}
			for _, in := range o.s.Instrs {
				p, ok := in.(*ssa.Phi)
				if !ok {
					break
				}
				if _, tracked := o.env.get(p); !tracked || idx < 0 {
					continue
				}
				val := absEval(p.Edges[idx], o.env, 0)
				for i, q := range nenv.phis {
					if q == p {
						nenv.vals[i] = val
					}
				}
			}
			ek := [2]*ssa.BasicBlock{b, o.s}
			if res.Edges[ek] == nil {
				res.Edges[ek] = map[string]absEnv{}
			}
			res.Edges[ek][nenv.key()] = nenv
			if add(o.s, nenv) {
				work = append(work, item{o.s, nenv})
			}
		}
	}
	return res
}

func lenOfPhi(v ssa.Value, env absEnv) (*ssa.Phi, bool) {
	c, ok := v.(*ssa.Call)
	if !ok {
		return nil, false
	}
	b, ok := c.Call.Value.(*ssa.Builtin)
	if !ok || b.Name() != "len" || len(c.Call.Args) != 1 {
		return nil, false
	}
	p, ok := c.Call.Args[0].(*ssa.Phi)
	if !ok {
		return nil, false
	}
	_, tracked := env.get(p)
	return p, tracked
}

// EnvsAt lists the valuations reachable at the entry of b, sorted.
func (r *AbsResult) EnvsAt(b *ssa.BasicBlock) []absEnv {
	var ks []string
	for k := range r.States[b] {
		ks = append(ks, k)
	}
	sort.Strings(ks)
	var out []absEnv
	for _, k := range ks {
		out = append(out, r.States[b][k])
	}
	return out
}

// PhiNamed: the tracked phi carrying source variable `name` that sits in the
// outermost loop header (the one with most edges).
func (r *AbsResult) PhiNamed(name string) *ssa.Phi {
	var best *ssa.Phi
	for _, p := range r.Phis {
		if p.Comment == name {
			if best == nil || len(p.Edges) > len(best.Edges) {
				best = p
			}
		}
	}
	return best
}

// ---- interval helper ------------------------------------------------------

// upperBoundAt: the largest value x can have at block b according to branch
// facts (max over incoming edges when b is a join).  ok=false: unbounded.
func upperBoundAt(fa *Facts, b *ssa.BasicBlock, x ssa.Value, depth int) (int64, bool) {
	if ub, ok := ubFromFacts(fa.At(b), x); ok {
		return ub, true
	}
	if depth > 3 || len(b.Preds) < 2 {
		return 0, false
	}
	var max int64 = -1 << 62
	for _, p := range b.Preds {
		ub, ok := ubFromFacts(factsOnEdge(fa, p, b), x)
		if !ok {
			ub, ok = upperBoundAt(fa, p, x, depth+1)
		}
		if !ok {
			return 0, false
		}
		if ub > max {
			max = ub
		}
	}
	return max, true
}

func ubFromFacts(fs factSet, x ssa.Value) (int64, bool) {
	best := int64(1 << 62)
	found := false
	for k := range fs {
		bo, ok := k.v.(*ssa.BinOp)
		if !ok || !(bo.X == x || sameValue(bo.X, x)) {
			continue
		}
		kv, ok := constInt(bo.Y)
		if !ok {
			continue
		}
		var ub int64
		switch {
		case bo.Op == token.LEQ && k.pol, bo.Op == token.GTR && !k.pol, bo.Op == token.EQL && k.pol:
			ub = kv
		case bo.Op == token.LSS && k.pol, bo.Op == token.GEQ && !k.pol:
			ub = kv - 1
		default:
			continue
		}
		found = true
		if ub < best {
			best = ub
		}
	}
	return best, found
}
