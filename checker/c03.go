package main

import (
	"fmt"
	"go/token"
	"go/types"
	"sort"
	"strings"

	"golang.org/x/tools/go/ssa"
)

func init() {
	register(&PropDef{ID: "C03", Title: "A filespace never reaches outside its root, whatever path it is given", Rules: rulesC03,
		Explanation: "Confinement in goatcore is a lexical mechanism (varutil.ReduceAbsPath). Decided for every string parameter of every method of every type implementing filesystem.Filespace (discovered through the type checker), on all paths: R1 a parameter-derived string that is joined behind a non-constant prefix (a rebased view: base+arg) at any call argument or field store has passed ReduceAbsPath with its error checked on that path — path.Clean/CleanPath are not accepted since they keep a leading '..'; forwarders may pass a parameter on unchanged; R2 the argument that becomes the base of a child view (constructor call or base-path field store in every Filespace(sub) method) is reduced in the method or by the constructor it is handed to (constructor summary computed with the same analysis); R4 every path handed to an os / io/ioutil / filepath.Walk / package disk function from an implementer starts with the receiver's root field and its parameter part is reduced; R5 the memory tree has no parent pointers and traversals start at the root; R6 inside ReduceAbsPath the decrement for '..' is guarded by resultLen != 0 and the zero edge returns a non-nil error; R7 every value stored into a view's base-path field ends with the separator its methods rely on when they form base+name. " +
			"R8 memfs copies share no node with their source (copyFile/copyDir return newly built nodes on every path), so a view writing its copy cannot change the rest of the parent tree; R9 path parameters pass no byte-altering string function in any implementer package or normaliser (a view rooted at '.conf' must not become 'conf'); R10 every ReduceAbsPath call sees the caller-supplied part alone, never prefix+argument (reducing the joined path lets '..' consume the view's own base). " +
			"Added in round 4: R11 where a view's base path is set, a caller-supplied part is appended to an existing prefix (the parent view's base) only after ReduceAbsPath accepted it — flattening nested views as parent.base + Clean(arg) lets a '..' consume the parent's base; R12 (who-may-call) inside the filesystem packages only filesystem/disk and filesystem/filespace/diskfs hand paths to host primitives (os, io/ioutil, filepath.Walk...): a cache or view that writes to the local disk itself bypasses the backend's reducer. " +
			"Added in round 7: R13 every path a view hands to the filespace below is computed in that call from the view's base and the argument - no origin of it is a table load (sync.Map.Load, map lookup): a memo keyed by the argument alone is inherited by derived views and answers with locations under the other view's base; a table that is provably private to one base (fresh at every install, bases only set on composite literals that are not copies of a view) is accepted. " +
			"NOT decided: symbolic links on disk (confinement is lexical), byte-identity of the rest of the parent tree, the behaviour of user-supplied inner filespaces.",
		Assumptions: []string{"a string built only from constants, receiver fields and reduced parameters cannot contain a climbing '..' segment (receiver base fields are themselves set by constructors checked under R2)"}})
}

var osSinkPkgs = map[string]bool{"os": true, "io/ioutil": true, modPath + "/filesystem/disk": true}

func isOSSink(ci *CallInfo) bool {
	if ci.Static == nil || ci.Static.Pkg == nil {
		return false
	}
	p := ci.Static.Pkg.Pkg.Path()
	if osSinkPkgs[p] {
		return true
	}
	if p == "path/filepath" {
		switch ci.Static.Name() {
		case "Walk", "WalkDir", "Glob", "EvalSymlinks":
			return true
		}
	}
	return false
}

func implName(n *types.Named) string {
	return lastSeg(n.Obj().Pkg().Path()) + ".(" + n.Obj().Name() + ")"
}

func rulesC03(c *Ctx) {
	iface := c.P.Iface("filesystem", "Filespace")
	if iface == nil {
		c.Bad("anchor", "filesystem.Filespace", 0, "interface not found; cannot certify")
		return
	}
	impls := c.P.Implementers(iface)
	var names []string
	for _, n := range impls {
		names = append(names, implName(n))
	}
	c.Note("Filespace implementers: %s", strings.Join(names, ", "))
	c.Stats["implementers"] = len(impls)
	if len(impls) < 7 {
		c.Bad("anchor", "Filespace implementers", 0, fmt.Sprintf("only %d implementers of filesystem.Filespace found (7 on the reference tree): %v", len(impls), names))
	}

	nR1, nR2, nR4 := viewConfinementRules(c, iface, impls, impls, "R1", "R2", "R4")
	c.Floor("R1", nR1, 7*19)
	c.Floor("R2", nR2, 7)
	c.Floor("R4", nR4, 8)

	// ---- R5 the memory tree has no way up ------------------------------------------
	dir := c.P.Named(memfsPkg, "Dir")
	file := c.P.Named(memfsPkg, "File")
	if dir == nil || file == nil {
		c.Bad("R5", "memfs.Dir/File", 0, "anchor not found")
	} else {
		for _, T := range []*types.Named{dir, file} {
			st := T.Underlying().(*types.Struct)
			up := ""
			for i := 0; i < st.NumFields(); i++ {
				ft := st.Field(i).Type()
				if pt, ok := ft.(*types.Pointer); ok && types.Identical(pt.Elem(), dir) {
					up = st.Field(i).Name()
				}
			}
			c.Check(up == "", "R5", "no parent pointer in memfs."+T.Obj().Name(), T.Obj().Pos(), "no field of type *Dir: a node cannot name its parent",
				"field "+up+" points to a directory: traversal can climb")
		}
		// every traversal helper called from memfs.Filespace methods starts at fs.root
		fsT := c.P.Named(memfsPkg, "Filespace")
		n := 0
		if fsT != nil {
			for mn, f := range c.P.MethodsOf(fsT, iface) {
				for _, ci := range Calls(f) {
					if ci.Static == nil || !inModule(ci.Static) || len(ci.Common.Args) == 0 {
						continue
					}
					a0 := ci.Common.Args[0]
					if pt, ok := a0.Type().(*types.Pointer); !ok || !types.Identical(pt.Elem(), dir) {
						continue
					}
					if ci.Common.Signature().Recv() != nil {
						continue // method on a *Dir obtained from a traversal
					}
					n++
					os := Origins(a0, FlowOpts{})
					ok := allOrigins(os, func(o Origin) bool {
						return (o.Kind == "field" && o.Name == "memfs.Filespace.root") ||
							(o.Kind == "call" && strings.HasPrefix(o.Name, modPath+"/"+memfsPkg+".")) // result of a traversal that itself started at the root
					})
					c.Check(ok, "R5", fmt.Sprintf("memfs.(Filespace).%s -> %s starts at root", mn, ci.Static.Name()), ci.Pos(),
						"traversal starts at fs.root", "traversal starts at "+originsString(os))
				}
			}
		}
		c.Floor("R5", n, 12)
	}

	// ---- R6 the reducer itself ---------------------------------------------------------
	ruleReducer(c)

	// ---- R7 view bases are separator-terminated -----------------------------------------
	c.Floor("R7", ruleViewBaseSeparator(c, "R7", iface, impls), 4)
	// ---- R12 only the disk backend talks to the host file system ----
	c.Floor("R12", ruleHostOnlyFromDisk(c, "R12"), 10)
	// ---- R11 a view's base is extended only by reduced parts ----
	c.Floor("R11", ruleViewBaseJoin(c, "R11", iface, impls), 4)

	// ---- R13 a view computes the forwarded path in the call itself ----
	c.Floor("R13", ruleViewPathComputed(c, "R13", iface, impls), 10)

	// ---- R8 copies share no node with their source (the rest of the tree stays byte-identical) ----
	ruleDeepCopyAs(c, "R8")
	// ---- R9 names are opaque bytes; R10 the reducer sees the caller-supplied part alone ----
	c.Floor("R9", ruleNamesOpaque(c, "R9", iface, impls), 20)
	c.Floor("R10", ruleReduceBeforeJoin(c, "R10", impls), 3)
}

// ruleReducer: in varutil.ReduceAbsPath every decrement `x - 1` is executed
// only where `x == 0` is known false, and the block entered on `x == 0`
// returns a non-nil error without reaching the decrement.
func ruleReducer(c *Ctx) {
	f := c.P.Func("varutil", "", "ReduceAbsPath")
	if f == nil {
		c.Bad("R6", "varutil.ReduceAbsPath", 0, "anchor not found: the confinement mechanism is gone or renamed; cannot certify")
		return
	}
	facts := ComputeFacts(f)
	n := 0
	eachInstr(f, func(b *ssa.BasicBlock, i int, in ssa.Instruction) {
		bo, ok := in.(*ssa.BinOp)
		if !ok || bo.Op != token.SUB {
			return
		}
		if k, ok := constInt(bo.Y); !ok || k != 1 {
			return
		}
		if bt, ok := bo.Type().Underlying().(*types.Basic); !ok || bt.Info()&types.IsInteger == 0 {
			return
		}
		n++
		con := "decrement of " + bo.X.Name() + " in varutil.ReduceAbsPath"
		// find a fact  (X == 0) false | (X != 0) true | (X > 0) true | (X <= 0) false | (X < 1) false | (X >= 1) true
		guard := false
		var zeroEdge *ssa.BasicBlock
		for k := range facts.At(b) {
			cmp, ok := k.v.(*ssa.BinOp)
			if !ok || !(cmp.X == bo.X || sameValue(cmp.X, bo.X)) {
				continue
			}
			kv, ok := constInt(cmp.Y)
			if !ok {
				continue
			}
			nonzero := false
			switch {
			case cmp.Op == token.EQL && kv == 0 && !k.pol,
				cmp.Op == token.NEQ && kv == 0 && k.pol,
				cmp.Op == token.GTR && kv == 0 && k.pol,
				cmp.Op == token.LEQ && kv == 0 && !k.pol,
				cmp.Op == token.LSS && kv == 1 && !k.pol,
				cmp.Op == token.GEQ && kv == 1 && k.pol:
				nonzero = true
			}
			if nonzero {
				guard = true
				// the other edge of that test
				for _, r := range *cmp.Referrers() {
					if iff, ok := r.(*ssa.If); ok {
						blk := iff.Block()
						if k.pol {
							zeroEdge = blk.Succs[1]
						} else {
							zeroEdge = blk.Succs[0]
						}
					}
				}
			}
		}
		if !guard {
			c.Bad("R6", con, bo.Pos(), "the decrement for a '..' segment is not guarded by a test that the result is non-empty: 'a/../../x' climbs out of the root (or indexes at -1)")
			return
		}
		// zero edge: every return dominated by it has a non-nil error; it does not reach the decrement
		ok2 := zeroEdge != nil
		why := "cannot find the edge taken when the result is empty"
		if zeroEdge != nil {
			rets := 0
			for _, r := range returnsOf(f) {
				if zeroEdge.Dominates(r.Block()) {
					rets++
					last := r.Results[len(r.Results)-1]
					if isNilConst(resolve(last)) {
						ok2, why = false, "the empty-result edge returns a nil error"
					}
				}
			}
			if rets == 0 {
				ok2, why = false, "the empty-result edge does not return an error"
			}
			if len(zeroEdge.Instrs) > 0 && reachableFrom(zeroEdge.Instrs[0], bo) && zeroEdge != b {
				// reaching the decrement again is only legitimate through the loop back edge after a return: a return-dominated block has no successors
				if !blockAlwaysReturns(zeroEdge) {
					ok2, why = false, "the empty-result edge can continue to the decrement"
				}
			}
		}
		c.Check(ok2, "R6", con, bo.Pos(), "guarded by a non-empty test whose failing edge returns a non-nil error", why+" — a climbing path is accepted")
	})
	c.Floor("R6", n, 1)
}

func blockAlwaysReturns(b *ssa.BasicBlock) bool {
	seen := map[*ssa.BasicBlock]bool{}
	var rec func(x *ssa.BasicBlock) bool
	rec = func(x *ssa.BasicBlock) bool {
		if seen[x] {
			return false // loop
		}
		seen[x] = true
		if len(x.Succs) == 0 {
			_, isRet := x.Instrs[len(x.Instrs)-1].(*ssa.Return)
			return isRet
		}
		for _, s := range x.Succs {
			if !rec(s) {
				return false
			}
		}
		return true
	}
	return rec(b)
}

// viewConfinementRules runs R1/R2/R4 for the implementers in `targets`
// (allImpls is the full implementer set, used to recognise constructors).
func viewConfinementRules(c *Ctx, iface *types.Interface, allImpls, targets []*types.Named, r1, r2, r4 string) (int, int, int) {
	implSet := map[*types.Named]bool{}
	for _, n := range allImpls {
		implSet[n] = true
	}
	impls := targets
	isImplType := func(t types.Type) bool {
		if pt, ok := t.(*types.Pointer); ok {
			t = pt.Elem()
		}
		n, ok := t.(*types.Named)
		return ok && implSet[n]
	}
	returnsFilespace := func(f *ssa.Function) bool {
		res := f.Signature.Results()
		for i := 0; i < res.Len(); i++ {
			t := res.At(i).Type()
			if isImplType(t) {
				return true
			}
			if n, ok := t.(*types.Named); ok && n.Obj().Name() == "Filespace" && n.Obj().Pkg() != nil && n.Obj().Pkg().Path() == modPath+"/filesystem" {
				return true
			}
		}
		return false
	}

	// constructor summaries: does parameter i of ctor reach the object's string
	// fields only through the reducer?
	ctorCache := map[string]string{}
	ctorSanitises := func(ctor *ssa.Function, argIdx int) (bool, string) {
		key := fmt.Sprintf("%s#%d", qualName(ctor), argIdx)
		if v, ok := ctorCache[key]; ok {
			return v == "", v
		}
		why := ""
		var param *ssa.Parameter
		pi := argIdx
		if ctor.Signature.Recv() != nil {
			pi++
		}
		if pi < len(ctor.Params) {
			param = ctor.Params[pi]
		}
		if param == nil || ctor.Blocks == nil {
			why = "constructor body not available"
		} else {
			n := 0
			for _, u := range sinkUses(ctor) {
				for _, part := range u.Parts {
					for _, l := range part {
						if l.Param == param {
							n++
							if l.State != "reduced" {
								why = fmt.Sprintf("%s hands its parameter %s on %s to %s", fname(ctor), param.Name(), l.State, u.SinkName)
							}
						}
					}
				}
			}
			if n == 0 && why == "" {
				why = fmt.Sprintf("%s does not use parameter %s in any way the analysis recognises", fname(ctor), param.Name())
			}
		}
		ctorCache[key] = why
		return why == "", why
	}

	nR1, nR2, nR4 := 0, 0, 0
	for _, T := range impls {
		methods := c.P.MethodsOf(T, iface)
		var mnames []string
		for m := range methods {
			mnames = append(mnames, m)
		}
		sort.Strings(mnames)
		if len(mnames) != iface.NumMethods() {
			c.Bad("anchor", implName(T)+" methods", 0, fmt.Sprintf("resolved %d of %d interface methods", len(mnames), iface.NumMethods()))
		}
		for _, mn := range mnames {
			f := methods[mn]
			if f.Blocks == nil {
				c.Bad("anchor", implName(T)+"."+mn, 0, "method has no body")
				continue
			}
			uses := sinkUses(f)
			for _, p := range stringParams(f) {
				con := fmt.Sprintf("%s.%s(%s)", implName(T), mn, p.Name())
				nR1++
				var mine []SinkUse
				for _, u := range uses {
					for _, part := range u.Parts {
						for _, l := range part {
							if l.Param == p {
								mine = append(mine, u)
							}
						}
					}
				}
				// ---- R1: rebasing requires reduction -------------------------
				bad := ""
				var badPos token.Pos
				rebased, forwarded := 0, 0
				for _, u := range mine {
					if isRebased(u) {
						rebased++
					} else {
						forwarded++
					}
					for _, l := range rebaseViolations(u) {
						if l.Param == p {
							bad = fmt.Sprintf("parameter %s reaches %s as %s behind a non-constant prefix [%s]", p.Name(), u.SinkName, l.State, describeParts(u))
							badPos = u.Pos()
						}
					}
				}
				if bad != "" {
					c.Bad(r1, con, badPos, bad+" — view.Op(\"../x\") addresses a node outside the view's root")
				} else if len(mine) == 0 {
					c.OK(r1, con, f.Pos(), "parameter reaches no call argument or field store (operation refused or answered without touching storage)")
				} else {
					c.OK(r1, con, f.Pos(), fmt.Sprintf("%d rebased use(s) all reduced with the error checked, %d forwarded unchanged/cleaned", rebased, forwarded))
				}

				// ---- R4: OS sinks are rooted -----------------------------------
				for _, u := range mine {
					if u.Call == nil || !isOSSink(u.Call) {
						continue
					}
					nR4++
					con4 := fmt.Sprintf("%s.%s(%s) -> %s", implName(T), mn, p.Name(), lastSeg(u.SinkName))
					ok := true
					why := ""
					// leading empty constants ("" + root + ...) carry nothing
					parts := u.Parts
					for len(parts) > 0 {
						allEmpty := len(parts[0]) > 0
						for _, l := range parts[0] {
							if s, isC := constString(l.Origin.Val); !isC || s != "" {
								allEmpty = false
							}
						}
						if !allEmpty {
							break
						}
						parts = parts[1:]
					}
					if len(parts) < 2 {
						ok, why = false, "the path is not rebased on the receiver's root"
					} else {
						rooted := false
						for _, l := range parts[0] {
							if l.Origin.Kind == "field" {
								rooted = true
							}
						}
						if !rooted {
							ok, why = false, "the left-most part of the path is not a field of the receiver"
						}
					}
					for _, part := range u.Parts {
						for _, l := range part {
							if l.Param != nil && l.State != "reduced" {
								ok, why = false, fmt.Sprintf("parameter %s reaches the OS %s", l.Param.Name(), l.State)
							}
						}
					}
					c.Check(ok, r4, con4, u.Pos(), "root field + reduced parameter ["+describeParts(u)+"]", why+" ["+describeParts(u)+"] — the host file system is addressed outside the filespace root")
				}
			}

			// ---- R2: child-view bases -------------------------------------------
			if mn == "Filespace" {
				for _, p := range stringParams(f) {
					con := fmt.Sprintf("%s.Filespace(%s) child base", implName(T), p.Name())
					nR2++
					ok := true
					why := ""
					detail := []string{}
					found := 0
					for _, u := range uses {
						derives := false
						var leaf PartLeaf
						for _, part := range u.Parts {
							for _, l := range part {
								if l.Param == p {
									derives, leaf = true, l
								}
							}
						}
						if !derives {
							continue
						}
						switch {
						case u.Call != nil && u.Call.Method != nil && u.Call.Method.Name() == "Filespace":
							found++
							detail = append(detail, "forwarded to the inner filespace's Filespace()")
							if isRebased(u) && leaf.State != "reduced" {
								ok, why = false, "rebased un-reduced argument forwarded"
							}
						case u.Call != nil && u.Call.Static != nil && inModule(u.Call.Static) && returnsFilespace(u.Call.Static):
							found++
							if leaf.State == "reduced" {
								detail = append(detail, "reduced before "+lastSeg(u.SinkName))
							} else if isRebased(u) {
								ok, why = false, fmt.Sprintf("%s joined behind the view's base is passed to %s; reducing the joined path afterwards cannot detect a climb over the view's own root", leaf.State, lastSeg(u.SinkName))
							} else if s, w := ctorSanitises(u.Call.Static, u.ArgIdx); s {
								detail = append(detail, "reduced by constructor "+lastSeg(u.SinkName))
							} else {
								ok, why = false, "child base is "+leaf.State+" and the constructor does not reduce it: "+w
							}
						case u.Store != nil:
							if fa, isFA := u.Store.Addr.(*ssa.FieldAddr); isFA && isImplType(fa.X.Type()) {
								found++
								if leaf.State == "reduced" {
									detail = append(detail, "reduced before the base-path field store")
								} else {
									ok, why = false, "child base field is set from the "+leaf.State+" argument"
								}
							}
						}
					}
					if found == 0 {
						// a disk-style check (IsDir etc.) does not build a view; look for any
						// construction at all
						ok, why = false, "cannot see how the argument becomes the child's base (no constructor call, base-field store or forwarding found)"
					}
					c.Check(ok, r2, con, f.Pos(), strings.Join(detail, "; "), why+" — view.Filespace(\"../x\") yields a view rooted outside its parent")
				}
			}
		}
	}
	return nR1, nR2, nR4
}

// ruleViewBaseSeparator: methods of a rebased view form paths as base+arg with
// no separator of their own, so every value stored into a base-path field must
// end with the separator constant.
// viewBaseFields: the string fields of view type T that its methods put in front of
// the (reduced) argument: left-most part of a rebased sink.
func viewBaseFields(c *Ctx, iface *types.Interface, T *types.Named) (*types.Struct, map[int]bool) {
	st, ok := T.Underlying().(*types.Struct)
	if !ok {
		return nil, nil
	}
	base := map[int]bool{}
	for _, f := range c.P.MethodsOf(T, iface) {
		if f.Blocks == nil {
			continue
		}
		for _, u := range sinkUses(f) {
			if len(u.Parts) < 2 || !isRebased(u) {
				continue
			}
			for _, l := range u.Parts[0] {
				if l.Origin.Kind != "field" {
					continue
				}
				for i := 0; i < st.NumFields(); i++ {
					if strings.HasSuffix(l.Origin.Name, "."+T.Obj().Name()+"."+refFieldName(lastSeg(typeString(T)), st.Field(i).Name())) && isStringy(st.Field(i).Type()) {
						base[i] = true
					}
				}
			}
		}
	}
	return st, base
}

// ruleViewBaseJoin: where a view's base path is set, a caller-supplied part is appended to an
// existing prefix (the parent view's base, a root) only after ReduceAbsPath accepted it.  A
// base with no prefix (the constructor of a view over a whole filespace) is left to that
// filespace's own reducer; but `parent.base + Clean(arg)` lets a ".." in arg consume the parent's
// base once the underlying filespace reduces the joined path: the view leaves its parent.
func ruleViewBaseJoin(c *Ctx, rule string, iface *types.Interface, impls []*types.Named) int {
	n := 0
	for _, T := range impls {
		st, base := viewBaseFields(c, iface, T)
		if len(base) == 0 {
			continue
		}
		for _, f := range c.P.AllModuleFuncs() {
			f := f
			eachInstr(f, func(b *ssa.BasicBlock, _ int, in ssa.Instruction) {
				s, ok := in.(*ssa.Store)
				if !ok {
					return
				}
				fa, ok := s.Addr.(*ssa.FieldAddr)
				if !ok || !base[fa.Field] || structOf(fa.X.Type()) != st {
					return
				}
				n++
				facts := factsFor(f)
				prefix, bad := false, ""
				for _, part := range concatParts(resolve(s.Val), 0) {
					for _, l := range classifyLeaves(f, facts, part, b) {
						if !l.NonConst {
							continue
						}
						if l.Param == nil {
							prefix = true
							continue
						}
						if l.State != "reduced" && prefix {
							bad = fmt.Sprintf("parameter %s (%s) is appended to an existing base", l.Param.Name(), l.State)
						}
					}
				}
				c.Check(bad == "", rule, fmt.Sprintf("base path of %s joined in %s", implName(T), fname(f)), s.Pos(), "a part appended to an existing base passed ReduceAbsPath",
					bad+" without the reducer having accepted it — a '..' in it consumes that base when the underlying filespace reduces the joined path: the view reaches nodes outside its parent view")
			})
		}
	}
	return n
}

func ruleViewBaseSeparator(c *Ctx, rule string, iface *types.Interface, impls []*types.Named) int {
	n := 0
	for _, T := range impls {
		st, ok := T.Underlying().(*types.Struct)
		if !ok {
			continue
		}
		// discover base fields: left-most part of a rebased sink
		base := map[int]bool{}
		for _, f := range c.P.MethodsOf(T, iface) {
			if f.Blocks == nil {
				continue
			}
			for _, u := range sinkUses(f) {
				if len(u.Parts) < 2 || !isRebased(u) {
					continue
				}
				for _, l := range u.Parts[0] {
					if l.Origin.Kind != "field" {
						continue
					}
					for i := 0; i < st.NumFields(); i++ {
						if strings.HasSuffix(l.Origin.Name, "."+T.Obj().Name()+"."+refFieldName(lastSeg(typeString(T)), st.Field(i).Name())) && isStringy(st.Field(i).Type()) {
							base[i] = true
						}
					}
				}
			}
		}
		if len(base) == 0 {
			continue
		}
		for _, f := range c.P.AllModuleFuncs() {
			eachInstr(f, func(_ *ssa.BasicBlock, _ int, in ssa.Instruction) {
				s, ok := in.(*ssa.Store)
				if !ok {
					return
				}
				fa, ok := s.Addr.(*ssa.FieldAddr)
				if !ok || !base[fa.Field] || structOf(fa.X.Type()) != st {
					return
				}
				n++
				parts := flattenTemplate(resolve(s.Val))
				okS := len(parts) > 0 && parts[len(parts)-1].hole == "" && strings.HasSuffix(parts[len(parts)-1].konst, "/")
				c.Check(okS, rule, fmt.Sprintf("base path of %s set in %s", implName(T), fname(f)), s.Pos(), "ends with the separator constant: "+renderTemplate(parts),
					"the view's base path ("+renderTemplate(parts)+") does not end with the '/' its methods rely on when they form base+name — the view maps names onto sibling paths ('app/confnew.txt' for 'app/conf' + 'new.txt')")
			})
		}
	}
	return n
}

// hostPathExempt: functions of package os with a string parameter that do not touch the file system.
var hostPathExempt = map[string]bool{
	"os.Getenv": true, "os.Setenv": true, "os.Unsetenv": true, "os.LookupEnv": true, "os.ExpandEnv": true, "os.Expand": true,
	"os.NewSyscallError": true, "os.IsPathSeparator": true, "os.NewFile": true,
}

// isHostPathPrimitive: a standard-library function that takes a path and touches the host file system.
func isHostPathPrimitive(f *ssa.Function) bool {
	if f == nil || f.Pkg == nil || f.Signature.Recv() != nil {
		return false
	}
	q := qualName(f)
	switch f.Pkg.Pkg.Path() {
	case "os", "io/ioutil":
		if hostPathExempt[q] {
			return false
		}
		ps := f.Signature.Params()
		for i := 0; i < ps.Len(); i++ {
			if isStringy(ps.At(i).Type()) {
				return true
			}
		}
	case "path/filepath":
		switch f.Name() {
		case "Walk", "WalkDir", "Glob", "EvalSymlinks":
			return true
		}
	}
	return false
}

// ruleHostOnlyFromDisk (who-may-call): inside the filesystem packages only filesystem/disk and
// filesystem/filespace/diskfs hand paths to the host.  There C03.R1/R4 show every such path to be
// root + reduced argument; a host call anywhere else (a cache, a view, a helper taking a "fast
// path" to the local disk) joins paths no rule has confined.
func ruleHostOnlyFromDisk(c *Ctx, rule string) int {
	n := 0
	for _, f := range c.P.AllModuleFuncs() {
		if f.Pkg == nil || !strings.HasPrefix(f.Pkg.Pkg.Path(), modPath+"/filesystem") {
			continue
		}
		rel := strings.TrimPrefix(f.Pkg.Pkg.Path(), modPath+"/")
		allowed := rel == diskPkg || rel == diskfsPkg
		for _, ci := range Calls(f) {
			if !isHostPathPrimitive(ci.Static) {
				continue
			}
			n++
			c.Check(allowed, rule, fmt.Sprintf("host call %s in %s", lastSeg(qualName(ci.Static)), fname(f)), ci.Pos(), "made by the disk backend (paths confined by R1/R4)",
				"a path is handed to the host file system outside filesystem/disk and filesystem/filespace/diskfs — it bypasses the backend's reducer: a recorded path like '../x' is resolved against the host directory and leaves the filespace root")
		}
	}
	return n
}

// ruleViewPathComputed (R13): a view translates a path afresh on every call: the path it hands to
// the filespace below is computed from the view's own base and the call's argument, never taken
// from a lookup table.  A table keyed by the argument alone that a derived view inherits (a copied
// struct keeps the pointer) answers with the location computed for the other view's base: the
// child reads and lists nodes outside its own root.
func ruleViewPathComputed(c *Ctx, rule string, iface *types.Interface, impls []*types.Named) int {
	n := 0
	for _, T := range impls {
		st0, base := viewBaseFields(c, iface, T)
		if len(base) == 0 {
			continue
		}
		var names []string
		ms := c.P.MethodsOf(T, iface)
		for mn := range ms {
			names = append(names, mn)
		}
		sort.Strings(names)
		for _, mn := range names {
			f := ms[mn]
			if f == nil || f.Blocks == nil {
				continue
			}
			bad := ""
			var pos token.Pos
			calls := 0
			for _, ci := range Calls(f) {
				if ci.Method == nil || ci.Kind != "call" {
					continue
				}
				if _, isIface := iface.Complete().Underlying().(*types.Interface); !isIface {
					continue
				}
				if obj, _, _ := types.LookupFieldOrMethod(iface, false, ci.Method.Pkg(), ci.Method.Name()); obj == nil {
					continue
				}
				for _, a := range ci.Common.Args {
					if !isStringy(a.Type()) {
						continue
					}
					calls++
					for _, o := range Origins(a, FlowOpts{Interproc: 2}) {
						fromTable := o.Kind == "call" && strings.Contains(o.Name, "sync.(Map).Load")
						for _, st := range o.Path {
							if st == "lookup" {
								fromTable = true
							}
						}
						if fromTable && !tablePrivateToView(c, st0, base, o) {
							bad, pos = "the path handed to "+ci.Method.Name()+" of the filespace below is taken from a table ("+o.String()+")", ci.Pos()
						}
					}
				}
			}
			if calls == 0 {
				continue
			}
			n++
			c.Check(bad == "", rule, fmt.Sprintf("%s.%s computes the path it forwards", implName(T), mn), orPos(pos, f.Pos()), "base + reduced argument, computed in this call",
				bad+" instead of being computed from this view's base and the argument — a view derived from this one inherits the table and is answered with locations under the other view's base (outside its own root)")
		}
	}
	return n
}

// tablePrivateToView: the table behind origin o is a field of the view struct st, and no view value
// ever carries it together with a base other than the one its entries were computed for: every store
// to a base field of st is made on an object under construction (a composite literal) that is not a
// copy of an existing view, and every store to the table field stores a freshly made table.  Then a
// memo keyed by the argument is a pure function of the argument for the life of the view.
func tablePrivateToView(c *Ctx, st *types.Struct, base map[int]bool, o Origin) bool {
	// which field is the table?
	var tv ssa.Value
	switch x := o.Val.(type) {
	case *ssa.Call:
		if len(x.Call.Args) > 0 {
			tv = x.Call.Args[0]
		}
	default:
		tv = o.Val
	}
	for i := 0; i < 4 && tv != nil; i++ {
		if u, ok := tv.(*ssa.UnOp); ok && u.Op == token.MUL {
			tv = u.X
			continue
		}
		if l, ok := tv.(*ssa.Lookup); ok {
			tv = l.X
			continue
		}
		break
	}
	tfa, ok := tv.(*ssa.FieldAddr)
	if !ok || structOf(tfa.X.Type()) != st {
		return false
	}
	tfi := tfa.Field
	fresh := func(v ssa.Value) bool {
		switch y := unwrapChange(resolve(v)).(type) {
		case *ssa.Alloc, *ssa.MakeMap:
			_ = y
			return true
		}
		return false
	}
	private := true
	for _, f := range c.P.AllModuleFuncs() {
		eachInstr(f, func(_ *ssa.BasicBlock, _ int, in ssa.Instruction) {
			s, ok := in.(*ssa.Store)
			if !ok {
				return
			}
			fa, ok := s.Addr.(*ssa.FieldAddr)
			if !ok || structOf(fa.X.Type()) != st {
				return
			}
			switch {
			case fa.Field == tfi:
				if !fresh(s.Val) {
					private = false // the table of another view (or anything else) is installed
				}
			case base[fa.Field]:
				a, isA := fa.X.(*ssa.Alloc)
				if !isA {
					private = false // the base of an existing view changes under its table
					return
				}
				for _, r := range *a.Referrers() {
					if ws, isS := r.(*ssa.Store); isS && ws.Addr == ssa.Value(a) {
						private = false // the object is a copy of an existing view: it keeps that view's table
					}
				}
			}
		})
	}
	return private
}
