package main

// eng_flow.go — E-FLOW: backward value-origin analysis over SSA def-use
// chains.  Field-sensitive for struct fields (a load of x.f is a leaf
// "field"), flow-insensitive for spilled locals (a load of a local Alloc has
// the union of the origins of everything stored into it).

import (
	"fmt"
	"go/token"
	"go/types"
	"sort"
	"strings"

	"golang.org/x/tools/go/ssa"
)

type Origin struct {
	Kind string      // param | const | field | alloc | call | global | freevar | nil | unknown | custom kinds
	Name string      // parameter name, field name "T.f", callee qualified name, ...
	Val  ssa.Value   // the leaf value
	Path []string    // transparent steps crossed on the way (outermost first)
	Via  []*ssa.Call // the transparent / inlined calls crossed on the way (outermost first)
}

func (o Origin) String() string {
	s := o.Kind
	if o.Name != "" {
		s += ":" + o.Name
	}
	return s
}

type FlowOpts struct {
	// Stop classifies v as a leaf before any default handling.
	Stop func(v ssa.Value) (Origin, bool)
	// Transparent: for a call, the argument values whose origins the result
	// inherits (nil = the call is a leaf of kind "call").
	Transparent func(ci *CallInfo) []ssa.Value
	MaxDepth    int
	// Alias: follow only what can share a backing store (append aliases its
	// first argument only; string<->[]byte conversions copy).
	Alias bool
	// LiftParams: a parameter of an unexported, non-escaping function is
	// replaced by the union of the origins of the matching argument at all
	// its static call sites (this many levels up).
	LiftParams int
	// Interproc: follow results of static calls to module functions into the
	// callee (this many levels); parameter leaves of the callee are mapped
	// back to the call's arguments.
	Interproc int
}

// pure string/path helpers through which "derived from the argument" flows.
var freshConcat = map[string]bool{
	"bytes.Join": true, "strings.Join": true, "bytes.Repeat": true, "bytes.Clone": true, "slices.Concat": true, "slices.Clone": true,
}

var pureStringFuncs = map[string][]int{
	"path.Clean":                                   {0},
	"path/filepath.Clean":                          {0},
	"path/filepath.ToSlash":                        {0},
	"path/filepath.FromSlash":                      {0},
	"strings.TrimPrefix":                           {0},
	"strings.TrimSuffix":                           {0},
	"strings.TrimLeft":                             {0},
	"strings.TrimRight":                            {0},
	"strings.Trim":                                 {0},
	"strings.TrimSpace":                            {0},
	"strings.ToLower":                              {0},
	"strings.ToUpper":                              {0},
	"strings.Replace":                              {0, 2},
	"strings.ReplaceAll":                           {0, 2},
	"path.Join":                                    {-1},
	"path/filepath.Join":                           {-1},
	"path.Dir":                                     {0},
	"path/filepath.Dir":                            {0},
	"path.Base":                                    {0},
	"path/filepath.Base":                           {0},
	"fmt.Sprintf":                                  {-1},
	"fmt.Sprint":                                   {-1},
	modPath + "/varutil.CleanPath":                 {0},
	modPath + "/varutil.FixDirPath":                {0},
	modPath + "/varutil.FixURL":                    {0},
	modPath + "/varutil.FullPath":                  {-1},
	modPath + "/varutil.GOPath":                    {-1},
	modPath + "/filesystem/fshelper.cleanbasepath": {0},
}

func defaultTransparent(ci *CallInfo) []ssa.Value {
	if b, ok := ci.Common.Value.(*ssa.Builtin); ok {
		switch b.Name() {
		case "append":
			return ci.Common.Args
		}
		return nil
	}
	if ci.Static == nil {
		return nil
	}
	idx, ok := pureStringFuncs[qualName(ci.Static)]
	if !ok {
		return nil
	}
	var out []ssa.Value
	for _, i := range idx {
		if i == -1 {
			return ci.Common.Args
		}
		if a := ci.Arg(i); a != nil {
			out = append(out, a)
		}
	}
	return out
}

// Origins returns the leaves v is computed from.
func Origins(v ssa.Value, opt FlowOpts) []Origin {
	if opt.MaxDepth == 0 {
		opt.MaxDepth = 40
	}
	if opt.Transparent == nil {
		opt.Transparent = defaultTransparent
	}
	seen := map[ssa.Value]bool{}
	var out []Origin
	var rec func(v ssa.Value, path []string, d int)
	var via []*ssa.Call
	leaf := func(o Origin, path []string) {
		o.Path = append([]string{}, path...)
		o.Via = append(append([]*ssa.Call{}, via...), o.Via...)
		out = append(out, o)
	}
	leafRaw := func(o Origin) {
		o.Via = append(append([]*ssa.Call{}, via...), o.Via...)
		out = append(out, o)
	}
	pushVia := func(c *ssa.Call) { via = append(via, c) }
	popVia := func() { via = via[:len(via)-1] }
	rec = func(v ssa.Value, path []string, d int) {
		if v == nil {
			return
		}
		if seen[v] {
			return
		}
		seen[v] = true
		if d > opt.MaxDepth {
			leaf(Origin{Kind: "unknown", Name: "depth", Val: v}, path)
			return
		}
		if opt.Stop != nil {
			if o, ok := opt.Stop(v); ok {
				o.Val = v
				leaf(o, path)
				return
			}
		}
		switch x := v.(type) {
		case *ssa.Parameter:
			if opt.LiftParams > 0 {
				if sites := liftSites(x); len(sites) > 0 {
					sub := opt
					sub.LiftParams--
					for _, a := range sites {
						for _, o := range Origins(a, sub) {
							o.Path = append(append([]string{}, path...), o.Path...)
							leafRaw(o)
						}
					}
					return
				}
			}
			leaf(Origin{Kind: "param", Name: x.Name(), Val: x}, path)
		case *ssa.FreeVar:
			leaf(Origin{Kind: "freevar", Name: x.Name(), Val: x}, path)
		case *ssa.Const:
			if x.Value == nil {
				leaf(Origin{Kind: "nil", Val: x}, path)
			} else {
				leaf(Origin{Kind: "const", Name: x.Value.ExactString(), Val: x}, path)
			}
		case *ssa.Global:
			leaf(Origin{Kind: "global", Name: x.Name(), Val: x}, path)
		case *ssa.Function:
			leaf(Origin{Kind: "func", Name: x.Name(), Val: x}, path)
		case *ssa.Phi:
			for _, e := range x.Edges {
				rec(e, path, d+1)
			}
		case *ssa.BinOp:
			if x.Op == token.ADD {
				rec(x.X, append(path, "+"), d+1)
				rec(x.Y, append(path, "+"), d+1)
			} else {
				leaf(Origin{Kind: "binop", Name: x.Op.String(), Val: x}, path)
			}
		case *ssa.Convert:
			if opt.Alias && isStringy(x.X.Type()) != isStringy(x.Type()) {
				leaf(Origin{Kind: "alloc", Name: "conversion copies", Val: x}, path)
				return
			}
			rec(x.X, append(path, "convert"), d+1)
		case *ssa.ChangeType:
			rec(x.X, path, d+1)
		case *ssa.ChangeInterface:
			rec(x.X, path, d+1)
		case *ssa.MakeInterface:
			rec(x.X, path, d+1)
		case *ssa.TypeAssert:
			rec(x.X, path, d+1)
		case *ssa.Slice:
			if a, isAlloc := x.X.(*ssa.Alloc); isAlloc && opt.Alias {
				leaf(Origin{Kind: "alloc", Name: "literal", Val: a}, path)
				return
			}
			if elems := arrayElems(x.X); len(elems) > 0 {
				for _, e := range elems {
					rec(e, path, d+1)
				}
				return
			}
			rec(x.X, append(path, "slice"), d+1)
		case *ssa.Extract:
			// result i of a call
			if c, ok := x.Tuple.(*ssa.Call); ok {
				recCall(c, x.Index, path, d, opt, rec, leaf, leafRaw, pushVia, popVia)
			} else {
				rec(x.Tuple, path, d+1)
			}
		case *ssa.Call:
			recCall(x, 0, path, d, opt, rec, leaf, leafRaw, pushVia, popVia)
		case *ssa.Alloc:
			leaf(Origin{Kind: "alloc", Name: typeString(x.Type()), Val: x}, path)
		case *ssa.MakeSlice:
			leaf(Origin{Kind: "alloc", Name: "make", Val: x}, path)
		case *ssa.MakeMap:
			leaf(Origin{Kind: "alloc", Name: "makemap", Val: x}, path)
		case *ssa.MakeChan:
			leaf(Origin{Kind: "alloc", Name: "makechan", Val: x}, path)
		case *ssa.MakeClosure:
			leaf(Origin{Kind: "closure", Name: x.Fn.Name(), Val: x}, path)
		case *ssa.UnOp:
			if x.Op != token.MUL {
				leaf(Origin{Kind: "unop", Name: x.Op.String(), Val: x}, path)
				return
			}
			switch a := x.X.(type) {
			case *ssa.Alloc:
				// flow-sensitive when the reaching store is unambiguous
				if sv := reachingStore(x, a); sv != nil {
					rec(sv, path, d+1)
					return
				}
				// union of stores into the local
				n := 0
				for _, r := range *a.Referrers() {
					if s, ok := r.(*ssa.Store); ok && s.Addr == ssa.Value(a) {
						rec(s.Val, path, d+1)
						n++
					}
				}
				if n == 0 {
					leaf(Origin{Kind: "zero", Val: x}, path)
				}
			case *ssa.FieldAddr:
				// field of a locally allocated struct: follow stores
				if base, ok := a.X.(*ssa.Alloc); ok {
					n := 0
					for _, r := range *base.Referrers() {
						if fa, ok := r.(*ssa.FieldAddr); ok && fa.Field == a.Field {
							for _, rr := range *fa.Referrers() {
								if s, ok := rr.(*ssa.Store); ok && s.Addr == ssa.Value(fa) {
									rec(s.Val, path, d+1)
									n++
								}
							}
						}
					}
					if n > 0 {
						return
					}
				}
				leaf(Origin{Kind: "field", Name: fieldName(a), Val: x}, path)
			case *ssa.FreeVar:
				// captured variable: look at the stores in the enclosing function
				leaf(Origin{Kind: "freevar", Name: a.Name(), Val: x}, path)
			case *ssa.IndexAddr:
				rec(a.X, append(path, "index"), d+1)
			case *ssa.Global:
				leaf(Origin{Kind: "global", Name: a.Name(), Val: x}, path)
			default:
				rec(x.X, append(path, "deref"), d+1)
			}
		case *ssa.FieldAddr:
			leaf(Origin{Kind: "fieldaddr", Name: fieldName(x), Val: x}, path)
		case *ssa.Field:
			leaf(Origin{Kind: "field", Name: fieldNameV(x), Val: x}, path)
		case *ssa.IndexAddr:
			rec(x.X, append(path, "index"), d+1)
		case *ssa.Index:
			rec(x.X, append(path, "index"), d+1)
		case *ssa.Lookup:
			rec(x.X, append(path, "lookup"), d+1)
		case *ssa.Next:
			rec(x.Iter, append(path, "next"), d+1)
		case *ssa.Range:
			rec(x.X, append(path, "range"), d+1)
		default:
			leaf(Origin{Kind: "unknown", Name: fmt.Sprintf("%T", v), Val: v}, path)
		}
	}
	rec(v, nil, 0)
	return out
}

// arrayElems: v is a freshly allocated array (the backing store of a variadic
// call or a composite literal); returns the values stored into its elements in
// index order, or nil.
func arrayElems(v ssa.Value) []ssa.Value {
	a, ok := v.(*ssa.Alloc)
	if !ok {
		return nil
	}
	pt, ok := a.Type().(*types.Pointer)
	if !ok {
		return nil
	}
	if _, ok := pt.Elem().Underlying().(*types.Array); !ok {
		return nil
	}
	type el struct {
		idx int64
		v   ssa.Value
	}
	var els []el
	for _, r := range *a.Referrers() {
		ia, ok := r.(*ssa.IndexAddr)
		if !ok {
			continue
		}
		idx, ok := constInt(ia.Index)
		if !ok {
			idx = 1 << 30
		}
		for _, rr := range *ia.Referrers() {
			if st, ok := rr.(*ssa.Store); ok && st.Addr == ssa.Value(ia) {
				els = append(els, el{idx, st.Val})
			}
		}
	}
	sort.SliceStable(els, func(i, j int) bool { return els[i].idx < els[j].idx })
	out := make([]ssa.Value, 0, len(els))
	for _, e := range els {
		out = append(out, e.v)
	}
	return out
}

func recCall(c *ssa.Call, resultIdx int, path []string, d int, opt FlowOpts,
	rec func(ssa.Value, []string, int), leaf func(Origin, []string), leafRaw func(Origin), pushVia func(*ssa.Call), popVia func()) {
	ci := callInfo(c, c.Block(), -1)
	if opt.Alias {
		if b, ok := c.Call.Value.(*ssa.Builtin); ok && b.Name() == "append" && len(c.Call.Args) > 0 {
			rec(c.Call.Args[0], append(path, "append"), d+1)
			return
		}
	}
	// standard-library concatenators: the result is a newly allocated slice/string whose content
	// is taken from every element of the arguments (bytes.Join copies even a single element)
	if ci.Static != nil && freshConcat[qualName(ci.Static)] {
		if opt.Alias {
			leaf(Origin{Kind: "alloc", Name: lastSeg(qualName(ci.Static)), Val: c}, path)
			return
		}
		pushVia(c)
		for _, a := range c.Call.Args {
			// a literal [][]byte{x, y, z}: its elements
			if sl, ok := a.(*ssa.Slice); ok {
				if els := arrayElems(sl.X); els != nil {
					for _, e := range els {
						rec(e, append(path, ci.Static.Name()), d+1)
					}
					continue
				}
			}
			rec(a, append(path, ci.Static.Name()), d+1)
		}
		popVia()
		return
	}
	if acc := accumulatorResult(ci); acc != nil {
		if opt.Alias {
			leaf(Origin{Kind: "alloc", Name: "accumulator", Val: c}, path)
			return
		}
		pushVia(c)
		n := 0
		for _, w := range accumulatorWrites(c.Parent(), acc) {
			rec(w, append(path, "accumulate"), d+1)
			n++
		}
		popVia()
		if n == 0 {
			leaf(Origin{Kind: "const", Name: "\"\"", Val: c}, path)
		}
		return
	}
	if tr := opt.Transparent(ci); tr != nil {
		nm := ci.Name()
		if b, ok := c.Call.Value.(*ssa.Builtin); ok {
			nm = b.Name()
		}
		pushVia(c)
		for _, a := range tr {
			short := nm
			if i := strings.LastIndex(short, "."); i >= 0 {
				short = short[i+1:]
			}
			rec(a, append(path, short), d+1)
		}
		popVia()
		return
	}
	if opt.Interproc > 0 && ci.Static != nil && inModule(ci.Static) && ci.Static.Blocks != nil {
		callee := ci.Static
		sub := opt
		sub.Interproc--
		args := c.Call.Args
		pushVia(c)
		defer popVia()
		for _, r := range returnsOf(callee) {
			if resultIdx >= len(r.Results) {
				continue
			}
			for _, o := range Origins(r.Results[resultIdx], sub) {
				if o.Kind == "param" {
					mapped := false
					for i, p := range callee.Params {
						if p == o.Val && i < len(args) {
							for _, vc := range o.Via {
								pushVia(vc)
							}
							rec(args[i], append(append(path, lastSeg(ci.Name())), o.Path...), d+1)
							for range o.Via {
								popVia()
							}
							mapped = true
						}
					}
					if mapped {
						continue
					}
				}
				o.Path = append(append(append([]string{}, path...), lastSeg(ci.Name())), o.Path...)
				leafRaw(o)
			}
		}
		return
	}
	name := ci.Name()
	if name == "" {
		if b, ok := c.Call.Value.(*ssa.Builtin); ok {
			name = "builtin." + b.Name()
		} else {
			name = "dynamic"
		}
	}
	leaf(Origin{Kind: "call", Name: fmt.Sprintf("%s#%d", name, resultIdx), Val: c}, path)
}

func fieldName(fa *ssa.FieldAddr) string {
	pt, ok := fa.X.Type().Underlying().(*types.Pointer)
	if !ok {
		return "?"
	}
	st, ok := pt.Elem().Underlying().(*types.Struct)
	if !ok {
		return "?"
	}
	tn := lastSeg(typeString(pt.Elem()))
	return tn + "." + refFieldName(tn, st.Field(fa.Field).Name())
}

func fieldNameV(f *ssa.Field) string {
	st, ok := f.X.Type().Underlying().(*types.Struct)
	if !ok {
		return "?"
	}
	tn := lastSeg(typeString(f.X.Type()))
	return tn + "." + refFieldName(tn, st.Field(f.Field).Name())
}

func originsString(os []Origin) string {
	m := map[string]bool{}
	for _, o := range os {
		m[o.String()] = true
	}
	var ks []string
	for k := range m {
		ks = append(ks, k)
	}
	sort.Strings(ks)
	return strings.Join(ks, ", ")
}

// hasOrigin: some leaf satisfies pred.
func hasOrigin(os []Origin, pred func(Origin) bool) bool {
	for _, o := range os {
		if pred(o) {
			return true
		}
	}
	return false
}

func allOrigins(os []Origin, pred func(Origin) bool) bool {
	for _, o := range os {
		if !pred(o) {
			return false
		}
	}
	return len(os) > 0
}

// accumulatorResult: ci reads the content of a strings.Builder / bytes.Buffer
// (String, Bytes); returns the accumulator object (the receiver address).
func accumulatorResult(ci *CallInfo) ssa.Value {
	if ci.Static == nil {
		return nil
	}
	switch qualName(ci.Static) {
	case "strings.(Builder).String", "bytes.(Buffer).String", "bytes.(Buffer).Bytes":
		return ci.Recv()
	}
	return nil
}

// accumulatorWrites: the values written into accumulator acc anywhere in f, in
// program order (block index, then instruction index).
func accumulatorWrites(f *ssa.Function, acc ssa.Value) []ssa.Value {
	var out []ssa.Value
	if f == nil {
		return nil
	}
	for _, b := range f.Blocks {
		for _, in := range b.Instrs {
			ci := callInfo(in, nil, 0)
			if ci == nil || ci.Static == nil || ci.Kind != "call" {
				continue
			}
			q := qualName(ci.Static)
			if !(strings.HasPrefix(q, "strings.(Builder).Write") || strings.HasPrefix(q, "bytes.(Buffer).Write")) {
				continue
			}
			if r := ci.Recv(); r == nil || !(r == acc || keyP(r) == keyP(acc)) {
				continue
			}
			if a := ci.Arg(0); a != nil {
				out = append(out, a)
			}
		}
	}
	return out
}

var (
	liftIndexProg *ssa.Program
	liftIndex     map[*ssa.Function][]*ssa.CallCommon
	liftEscapes   map[*ssa.Function]bool
)

// liftSites: the arguments bound to parameter p at every static call site of
// its function, when that function is unexported and never used as a value.
func liftSites(p *ssa.Parameter) []ssa.Value {
	f := p.Parent()
	if f == nil || f.Parent() != nil || f.Object() == nil || f.Object().Exported() || f.Pkg == nil {
		return nil
	}
	if liftIndexProg != f.Prog {
		liftIndexProg = f.Prog
		liftIndex = map[*ssa.Function][]*ssa.CallCommon{}
		liftEscapes = map[*ssa.Function]bool{}
		for _, pkg := range f.Prog.AllPackages() {
			if !strings.HasPrefix(pkg.Pkg.Path(), modPath) {
				continue
			}
			var fns []*ssa.Function
			for _, m := range pkg.Members {
				if fn, ok := m.(*ssa.Function); ok {
					fns = append(fns, withClosures(fn)...)
				}
				if t, ok := m.(*ssa.Type); ok {
					for _, tt := range []types.Type{t.Type(), types.NewPointer(t.Type())} {
						ms := f.Prog.MethodSets.MethodSet(tt)
						for i := 0; i < ms.Len(); i++ {
							if fo, ok := ms.At(i).Obj().(*types.Func); ok && fo.Pkg() == pkg.Pkg {
								if fn := f.Prog.FuncValue(fo); fn != nil {
									fns = append(fns, withClosures(fn)...)
								}
							}
						}
					}
				}
			}
			seen := map[*ssa.Function]bool{}
			for _, fn := range fns {
				if seen[fn] || fn.Blocks == nil {
					continue
				}
				seen[fn] = true
				for _, b := range fn.Blocks {
					for _, in := range b.Instrs {
						var cc *ssa.CallCommon
						if ci, ok := in.(ssa.CallInstruction); ok {
							cc = ci.Common()
							if g := cc.StaticCallee(); g != nil {
								liftIndex[g] = append(liftIndex[g], cc)
							}
						}
						for _, op := range in.Operands(nil) {
							if op == nil || *op == nil {
								continue
							}
							if g, ok := (*op).(*ssa.Function); ok && !(cc != nil && cc.Value == ssa.Value(g)) {
								liftEscapes[g] = true
							}
						}
					}
				}
			}
		}
	}
	if liftEscapes[f] {
		return nil
	}
	idx := -1
	for i, q := range f.Params {
		if q == p {
			idx = i
		}
	}
	var out []ssa.Value
	for _, cc := range liftIndex[f] {
		if idx >= 0 && idx < len(cc.Args) {
			out = append(out, cc.Args[idx])
		}
	}
	return out
}
