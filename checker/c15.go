package main

import (
	"fmt"
	"go/constant"
	"go/token"
	"go/types"
	"strings"

	"golang.org/x/tools/go/ssa"
)

const mutexPkg = "app/modules/commonm/commservices/mutex"
const commPkg = "app/modules/commonm/commservices"
const runnerPkg = "app/modules/pipelinem/pipservices/runner"
const pipcPkg = "app/modules/pipelinem/pipcommands/pipc"

func init() {
	register(&PropDef{ID: "C15", Title: "Named resource locks: writers exclude everyone, readers share, no deadlock", Rules: rulesC15,
		Explanation: "Decided (structural necessary conditions): R1 the acquisition loop of SharedMutex.Lock walks, in ascending order, a slice on which a sort dominates the loop with no element write in between, and the sort's comparator reads nothing but the resource name (one global order, independent of the access mode); R2 the per-name mutex is inserted only on the miss edge of a lookup made under the same write hold of the table lock (one mutex per name); R3 a row marked read (LockR) is acquired with RLock and released with RUnlock, a row marked write with Lock/Unlock — constants read from the source; R4 the pipeline runner acquires the task's lock map after it finished waiting for prerequisite tasks (no hold-and-wait), before the body, and releases it on every path; R5 pip:run passes the read list with LockR and the write list with LockRW, and the key stored for a '@'-global name does not depend on the namespace while a local name does. " +
			"Added in round 2: R4 also requires that the scope Wait following the body lies inside the locked section (the lock map is not released before the work the body registered on its scope has ended); R5 also requires that pip:run applies the write list after the read list into the same map (a name in both lists ends up write-locked). " +
			"Added in round 4: R2 also covers a sync.Map registry: only Load/LoadOrStore/Range are applied to it (an entry is never replaced or dropped) and get returns what Load/LoadOrStore returned, never its own candidate; R5 follows keys that are first collected in a local slice and stored afterwards. " +
			"NOT decided: fairness/starvation of sync.RWMutex, and the actual run-time exclusion (that follows from R2+R3 and sync's contract).",
	})
}

func boolConstOf(p *Prog, relPkg, name string) (bool, bool) {
	pk := p.ByPath[modPath+"/"+relPkg]
	if pk == nil || pk.Types == nil {
		return false, false
	}
	cn, ok := pk.Types.Scope().Lookup(name).(*types.Const)
	if !ok || cn.Val().Kind() != constant.Bool {
		return false, false
	}
	return constant.BoolVal(cn.Val()), true
}

// knownFieldBool: facts at block b determine the value of a load of field
// `field` (any base): returns (value, true) if known.
func knownFieldBool(fa *Facts, b *ssa.BasicBlock, field string) (bool, bool) {
	for k := range fa.At(b) {
		// direct: the bool itself
		if n := loadedFieldName(k.v); n == field {
			return k.pol, true
		}
		if bo, ok := k.v.(*ssa.BinOp); ok && (bo.Op == token.EQL || bo.Op == token.NEQ) {
			var other ssa.Value
			var cb bool
			if c, ok := constBool(bo.Y); ok {
				other, cb = bo.X, c
			} else if c, ok := constBool(bo.X); ok {
				other, cb = bo.Y, c
			} else {
				continue
			}
			if loadedFieldName(other) != field {
				continue
			}
			val := cb
			if (bo.Op == token.EQL) != k.pol {
				val = !cb
			}
			return val, true
		}
	}
	return false, false
}

// loadedFieldName: v is a load of a struct field (through FieldAddr) or a Field
// extraction; returns the field name.
func loadedFieldName(v ssa.Value) string {
	if n, _ := fieldLoadName(v); n != "" {
		return n
	}
	if f, ok := v.(*ssa.Field); ok {
		if n := fieldNameV(f); n != "?" {
			return n[strings.LastIndex(n, ".")+1:]
		}
	}
	return ""
}

// muSite: a place in f where a per-resource mutex (a result of get) is locked or
// released - directly, or by a private helper the mutex is handed to.
type muSite struct {
	ci     *CallInfo // the call in f
	get    *ssa.Call // get(name)
	helper *ssa.Function
	ops    []*CallInfo // the sync operations (in f, or in the helper on its parameter)
	rowArg ssa.Value   // helper form: the row handed to (or receiving) the helper, if any
}

func mutexSites(f, getF *ssa.Function) []muSite {
	var out []muSite
	for _, ci := range Calls(f) {
		if ci.Kind != "call" || ci.Static == nil {
			continue
		}
		if op := syncOp(ci); op != nil {
			if call, ok := resolve(ci.Recv()).(*ssa.Call); ok && call.Call.StaticCallee() == getF {
				out = append(out, muSite{ci: ci, get: call, ops: []*CallInfo{ci}})
			}
			continue
		}
		h := ci.Static
		if h == getF || h.Pkg != f.Pkg || h.Blocks == nil {
			continue
		}
		for i, a := range ci.Common.Args {
			call, ok := resolve(a).(*ssa.Call)
			if !ok || call.Call.StaticCallee() != getF || i >= len(h.Params) {
				continue
			}
			p := h.Params[i]
			var ops []*CallInfo
			for _, hc := range Calls(h) {
				if op := syncOp(hc); op != nil && hc.Kind == "call" && hc.Recv() == ssa.Value(p) {
					ops = append(ops, hc)
				}
			}
			if len(ops) == 0 {
				continue
			}
			site := muSite{ci: ci, get: call, helper: h, ops: ops}
			for j, b := range ci.Common.Args {
				if j != i && structOf(b.Type()) != nil {
					site.rowArg = b
				}
			}
			out = append(out, site)
		}
	}
	return out
}

// sameElement: both values are read from the same slice element.
func sameElement(a, b ssa.Value) bool {
	ea, eb := elementSource(a), elementSource(b)
	if ea == nil || eb == nil {
		return false
	}
	return ea == eb || (ea.X == eb.X && ea.Index == eb.Index) || (keyP(ea.X) == keyP(eb.X) && ea.Index == eb.Index)
}

func rulesC15(c *Ctx) {
	sm := c.P.Named(mutexPkg, "SharedMutex")
	lockF := c.P.Func(mutexPkg, "SharedMutex", "Lock")
	getF := c.P.Func(mutexPkg, "SharedMutex", "get")
	unlockF := c.P.Func(mutexPkg, "unlockHandler", "Unlock")
	lockR, ok1 := boolConstOf(c.P, commPkg, "LockR")
	lockRW, ok2 := boolConstOf(c.P, commPkg, "LockRW")
	if sm == nil || lockF == nil || getF == nil || unlockF == nil || !ok1 || !ok2 || lockR == lockRW {
		c.Bad("anchor", "mutex.SharedMutex Lock/get, unlockHandler.Unlock, commservices.LockR/LockRW", 0, "anchor not found; cannot certify")
		return
	}
	c.Note("LockR=%v LockRW=%v (read from source)", lockR, lockRW)

	// ---- R1 sorted acquisition ---------------------------------------------------
	var sortCall *CallInfo
	for _, ci := range Calls(lockF) {
		if ci.Static != nil && ci.Static.Pkg != nil && ci.Static.Pkg.Pkg.Path() == "sort" {
			switch ci.Static.Name() {
			case "SliceStable", "Slice", "Sort", "Stable", "Strings":
				sortCall = ci
			}
		}
	}
	// the rows may be built and sorted by a private helper that returns them
	var sortedHere ssa.Value
	var sortAt ssa.Instruction
	helperWhy := ""
	if sortCall == nil {
		for _, ci := range Calls(lockF) {
			h := ci.Static
			if h == nil || h.Pkg != lockF.Pkg || h.Blocks == nil || ci.Kind != "call" || h.Signature.Results().Len() != 1 {
				continue
			}
			if _, isSlice := h.Signature.Results().At(0).Type().Underlying().(*types.Slice); !isSlice {
				continue
			}
			var hs *CallInfo
			for _, hc := range Calls(h) {
				if hc.Static != nil && hc.Static.Pkg != nil && hc.Static.Pkg.Pkg.Path() == "sort" {
					switch hc.Static.Name() {
					case "SliceStable", "Slice", "Sort", "Stable", "Strings":
						hs = hc
					}
				}
			}
			if hs == nil {
				continue
			}
			hsorted := hs.Arg(0)
			if mi, ok := hsorted.(*ssa.MakeInterface); ok {
				hsorted = mi.X
			}
			for _, r := range returnsOf(h) {
				rv := resolve(r.Results[0])
				if !(rv == resolve(hsorted) || keyP(rv) == keyP(hsorted)) {
					helperWhy = "the helper " + fname(h) + " does not return the slice it sorted"
				}
				if !dominates(hs.Instr, r) {
					helperWhy = "the helper " + fname(h) + " can return without sorting"
				}
			}
			eachInstr(h, func(_ *ssa.BasicBlock, _ int, in ssa.Instruction) {
				if st, ok := in.(*ssa.Store); ok {
					if ia := elementAddr(st.Addr); ia != nil && (ia.X == hsorted || keyP(ia.X) == keyP(hsorted)) && reachableFrom(hs.Instr, st) {
						helperWhy = "the helper " + fname(h) + " writes a row after the sort"
					}
				}
			})
			sortCall = hs
			sortedHere = ci.Instr.(ssa.Value)
			sortAt = ci.Instr
		}
	}
	var acq []muSite
	for _, site := range mutexSites(lockF, getF) {
		for _, op := range site.ops {
			if so := syncOp(op); so != nil && so.Acquire {
				acq = append(acq, site)
				break
			}
		}
	}
	if sortCall == nil {
		c.Bad("R1", "acquisition order in mutex.(*SharedMutex).Lock", lockF.Pos(), "no sort of the rows before the acquisition loop — holders of {a,b} and {b,a} deadlock")
	} else if len(acq) == 0 {
		c.Bad("R1", "acquisition order in mutex.(*SharedMutex).Lock", lockF.Pos(), "no acquisition found; cannot certify")
	} else {
		okR1 := true
		why := ""
		// the sorted slice
		sorted := sortCall.Arg(0)
		if mi, ok := sorted.(*ssa.MakeInterface); ok {
			sorted = mi.X
		}
		if sortedHere != nil {
			sorted = sortedHere
			if helperWhy != "" {
				okR1, why = false, helperWhy
			}
		} else {
			sortAt = sortCall.Instr
		}
		// every lock operation on a resource mutex in Lock is one of the recognised sites
		for _, ci := range Calls(lockF) {
			if op := syncOp(ci); op != nil && op.Acquire && ci.Kind == "call" {
				if call, ok := resolve(ci.Recv()).(*ssa.Call); !ok || call.Call.StaticCallee() != getF {
					okR1, why = false, "the acquired mutex is not the result of get(name)"
				}
			}
		}
		for _, a := range acq {
			if !dominates(sortAt, a.ci.Instr) && (sortedHere != nil || !sortSkippedOnlyWhenTrivial(lockF, sortCall, sorted, a.ci.Instr)) {
				okR1, why = false, "an acquisition is not dominated by the sort"
			}
			// the mutex comes from get(row.Name) with row an element of the sorted slice at an ascending index
			call := a.get
			nameArg := call.Call.Args[len(call.Call.Args)-1]
			from := elementSource(nameArg)
			if from == nil {
				okR1, why = false, "the acquired name is not read from a slice element"
				continue
			}
			if keyP(from.X) != keyP(sorted) && from.X != sorted && !builtInOrderFrom(lockF, from.X, sorted) {
				okR1, why = false, "the acquisition loop walks a different sequence than the sorted one (e.g. ranges over the map)"
			}
			if !ascendingIndex(from.Index) {
				okR1, why = false, "the acquisition loop does not walk the sorted slice in ascending order"
			}
		}
		// no element writes between sort and acquisitions
		eachInstr(lockF, func(_ *ssa.BasicBlock, _ int, in ssa.Instruction) {
			st, ok := in.(*ssa.Store)
			if !ok {
				return
			}
			if ia := elementAddr(st.Addr); ia != nil && (ia.X == sorted || keyP(ia.X) == keyP(sorted)) {
				if reachableFrom(sortAt, st) {
					okR1, why = false, "a row is written after the sort"
				}
			}
		})
		// comparator reads only the name
		if mc := closureArg(sortCall); mc != nil {
			fields := map[string]bool{}
			eachInstr(mc, func(_ *ssa.BasicBlock, _ int, in ssa.Instruction) {
				switch x := in.(type) {
				case *ssa.FieldAddr:
					fields[fieldName(x)] = true
				case *ssa.Field:
					fields[fieldNameV(x)] = true
				}
			})
			for f := range fields {
				if !strings.HasSuffix(f, ".Name") {
					okR1, why = false, "the sort comparator also depends on "+f+": the acquisition order of two names differs between lock maps"
				}
			}
			if len(fields) == 0 {
				okR1, why = false, "the sort comparator does not compare resource names"
			}
		} else if sortCall.Static.Name() != "Strings" {
			okR1, why = false, "cannot find the sort comparator"
		}
		c.Check(okR1, "R1", "acquisition order in mutex.(*SharedMutex).Lock", sortCall.Pos(), "ascending walk of a slice sorted by resource name only", why+" — two holders can wait for each other forever")
	}

	// ---- R2 one mutex per name --------------------------------------------------------
	le := NewLockEngine(c.P)
	if n2s, isSyncMap := ruleSyncMapRegistry(c, "R2", sm, getF); isSyncMap {
		c.Floor("R2", n2s, 1)
	} else {
		n2 := checkThenInsert(c, le, "R2", c.P.PkgFuncs(mutexPkg), sm, "mutexes", "mutexesMU")
		c.Floor("R2", n2, 1)
		guardedAccessRule(c, le, "R2", c.P.PkgFuncs(mutexPkg), sm, "mutexes", "mutexesMU", nil)
	}

	// ---- R3 mode mapping and symmetry -----------------------------------------------------
	n3 := 0
	for _, f := range []*ssa.Function{lockF, unlockF} {
		for _, site := range mutexSites(f, getF) {
			// only the per-resource mutexes (results of get), not the table lock
			inF := f
			if site.helper != nil {
				inF = site.helper
			}
			facts := factsFor(inF)
			for _, ci := range site.ops {
				op := syncOp(ci)
				n3++
				con := fmt.Sprintf("%s of a resource mutex in %s", ci.Static.Name(), fname(inF))
				if site.helper != nil {
					con += " (called from " + fname(f) + ")"
					// the row whose mode the helper tests is the row whose name selected the mutex
					if site.rowArg == nil || !sameElement(site.rowArg, site.get.Call.Args[len(site.get.Call.Args)-1]) {
						c.Bad("R3", con, site.ci.Pos(), "the helper is not handed the row whose name selected the mutex — the mode of another row decides how this mutex is taken")
						continue
					}
					if (f == lockF) != op.Acquire {
						c.Bad("R3", con, ci.Pos(), "the helper called here "+map[bool]string{true: "releases", false: "acquires"}[f == lockF]+" the mutex")
						continue
					}
				}
				val, known := knownFieldBool(facts, ci.Block, "Value")
				if !known {
					c.Bad("R3", con, ci.Pos(), "the requested mode of the row is not established at this call")
					continue
				}
				wantRead := val == lockR
				isRead := op.Mode == 'R'
				c.Check(wantRead == isRead, "R3", con, ci.Pos(), fmt.Sprintf("row mode %v (%s) -> %s", val, map[bool]string{true: "LockR", false: "LockRW"}[wantRead], ci.Static.Name()),
					fmt.Sprintf("a row marked %s is handled with %s — writers do not exclude readers (or a read lock is released as a write lock: fatal error)", map[bool]string{true: "read (LockR)", false: "write (LockRW)"}[wantRead], ci.Static.Name()))
			}
		}
	}
	c.Floor("R3", n3, 4)

	// ---- R4 runner holds the map around the body, after waiting ----------------------------
	runGo := c.P.Func(runnerPkg, "Runner", "runGo")
	if runGo == nil {
		c.Bad("R4", "runner.(*Runner).runGo", 0, "anchor not found")
	} else {
		// the lock/body section may live in a private helper called from runGo
		find := func(g *ssa.Function) (lockC, runC, waitC *CallInfo) {
			for _, ci := range Calls(g) {
				switch {
				case ci.Method != nil && ci.Method.Name() == "Lock" && strings.HasSuffix(qualObj(ci.Method), "(SharedMutex).Lock"):
					lockC = ci
				case ci.Method != nil && ci.Method.Name() == "Run" && strings.HasSuffix(qualObj(ci.Method), "(Sandbox).Run"):
					runC = ci
				case ci.Static != nil && ci.Static.Name() == "waitForTasks":
					waitC = ci
				}
			}
			return
		}
		lockC, runC, waitC := find(runGo)
		lockFn := runGo
		var helperSite *CallInfo
		if lockC == nil {
			for _, ci := range Calls(runGo) {
				if ci.Static != nil && ci.Static.Pkg == runGo.Pkg && ci.Kind == "call" {
					if l, r, _ := find(ci.Static); l != nil && r != nil {
						lockC, runC, lockFn, helperSite = l, r, ci.Static, ci
					}
				}
			}
		}
		if lockC == nil || runC == nil || waitC == nil {
			c.Bad("R4", "runner.(*Runner).runGo lock scope", runGo.Pos(), "cannot find SharedMutex.Lock / Sandbox.Run / waitForTasks in runGo (or a private helper it calls); cannot certify")
		} else {
			ok := true
			why := ""
			if !dominates(lockC.Instr, runC.Instr) {
				ok, why = false, "the body runs without the task's lock map being held"
			}
			if os := Origins(lockC.Arg(0), FlowOpts{}); !hasOrigin(os, func(o Origin) bool { return o.Kind == "call" && strings.Contains(o.Name, ".LockMap#") }) {
				ok, why = false, "the acquired map is not the task's lock map"
			}
			lockPoint := lockC.Instr
			if helperSite != nil {
				lockPoint = helperSite.Instr
			}
			if !dominates(waitC.Instr, lockPoint) || reachableFrom(lockPoint, waitC.Instr) {
				ok, why = false, "the lock map is taken before (or while) waiting for prerequisite tasks: a task can hold resources its prerequisite needs — hold-and-wait deadlock"
			}
			lv := lockC.Value()
			bad := MustPass(lockFn, lockC.Instr, func(in ssa.Instruction) bool {
				ci := callInfo(in, nil, 0)
				return ci != nil && ci.Method != nil && ci.Method.Name() == "Unlock" && resolve(ci.Recv()) == lv
			})
			if len(bad) > 0 {
				ok, why = false, "a return is reachable without Unlock of the handler"
			}
			// the resources stay locked until the work the body registered on its scope has ended:
			// the scope Wait that follows the body lies inside the locked section
			isScopeWait := func(ci *CallInfo) bool {
				return ci.Method != nil && ci.Method.Name() == "Wait" && strings.HasSuffix(qualObj(ci.Method), "(Scope).Wait")
			}
			var wIn, wOut *CallInfo
			for _, ci := range Calls(lockFn) {
				if isScopeWait(ci) && reachableFrom(runC.Instr, ci.Instr) {
					wIn = ci
				}
			}
			if lockFn != runGo && helperSite != nil {
				for _, ci := range Calls(runGo) {
					if isScopeWait(ci) && reachableFrom(helperSite.Instr, ci.Instr) {
						wOut = ci
					}
				}
			}
			if wIn == nil && wOut != nil {
				ok, why = false, "the task's scope is waited for ("+c.pos(wOut.Pos())+") after the helper that holds the lock map has returned and unlocked: work the body registered on its scope still runs while the next holder of the same resource starts"
			}
			if wIn != nil {
				for _, ci := range Calls(lockFn) {
					if ci.Kind == "call" && ci.Method != nil && ci.Method.Name() == "Unlock" && resolve(ci.Recv()) == lv && reachableFrom(ci.Instr, wIn.Instr) {
						ok, why = false, "the lock map is released before the task's scope has been waited for"
					}
				}
			}
			c.Check(ok, "R4", "runner.(*Runner).runGo lock scope", lockC.Pos(), "waitForTasks -> Lock(task.LockMap()) -> body -> Unlock on every path", why)
		}
	}

	// ---- R5 lock lists keep their mode / namespace -----------------------------------------------
	runCmd := c.P.Func(pipcPkg, "", "Run")
	mark := c.P.Func(pipcPkg, "", "markBoolMapForNamespace")
	if runCmd == nil || mark == nil {
		c.Bad("R5", "pipc.Run / markBoolMapForNamespace", 0, "anchor not found")
		return
	}
	n5 := 0
	// (list, mode) pairs handed to the marker: direct calls in Run or in a private helper of it, also
	// when the two lists sit in a small table that a loop walks
	type lockPair struct {
		list string
		mode ssa.Value
		pos  token.Pos
		ord  int // position in program/table order
		ci   *CallInfo
	}
	var pairs []lockPair
	listOf := func(v ssa.Value) string {
		for _, o := range Origins(v, FlowOpts{LiftParams: 2}) {
			if o.Kind == "field" && (strings.HasSuffix(o.Name, ".RLock") || strings.HasSuffix(o.Name, ".RWLock")) {
				return o.Name[strings.LastIndex(o.Name, ".")+1:]
			}
		}
		return ""
	}
	tableElem := func(v ssa.Value) (*ssa.IndexAddr, int) {
		// lockList.keys where lockList is the element copied out by `for _, lockList := range table`
		if fv, isF := v.(*ssa.Field); isF {
			if ld, isLd := fv.X.(*ssa.UnOp); isLd {
				if ia, isIA := ld.X.(*ssa.IndexAddr); isIA {
					return ia, fv.Field
				}
			}
		}
		ld, ok := v.(*ssa.UnOp)
		if !ok {
			return nil, -1
		}
		fa, ok := ld.X.(*ssa.FieldAddr)
		if !ok {
			return nil, -1
		}
		ia, ok := fa.X.(*ssa.IndexAddr)
		if !ok {
			// the element was copied into a local variable first (for _, row := range table)
			if loc, isLoc := fa.X.(*ssa.Alloc); isLoc {
				var st *ssa.Store
				nst := 0
				for _, r := range *loc.Referrers() {
					if x, isSt := r.(*ssa.Store); isSt && x.Addr == ssa.Value(loc) {
						st = x
						nst++
					}
				}
				if st != nil && nst == 1 {
					if eld, isLd := st.Val.(*ssa.UnOp); isLd {
						if ia2, isIA := eld.X.(*ssa.IndexAddr); isIA {
							return ia2, fa.Field
						}
					}
				}
			}
			return nil, -1
		}
		return ia, fa.Field
	}
	seenFn := map[*ssa.Function]bool{}
	for _, g := range append([]*ssa.Function{runCmd}, reachableSamePkg(runCmd, 2)...) {
		if seenFn[g] {
			continue
		}
		seenFn[g] = true
		for _, ci := range CallsTo(g, qualName(mark)) {
			if l := listOf(ci.Arg(0)); l != "" {
				pairs = append(pairs, lockPair{l, ci.Arg(2), ci.Pos(), len(pairs), ci})
				continue
			}
			ia0, f0 := tableElem(ci.Arg(0))
			ia2, f2 := tableElem(ci.Arg(2))
			if ia0 == nil || ia2 == nil || ia0.X != ia2.X {
				continue
			}
			// rows of the table: constant-index stores into the two fields
			type row struct{ keys, mode ssa.Value }
			rows := map[int64]*row{}
			tbase := ia0.X
			if sl, isSl := tbase.(*ssa.Slice); isSl {
				tbase = sl.X // a slice literal: the rows are stored into its backing array
			}
			for _, r := range *tbase.Referrers() {
				ia, ok := r.(*ssa.IndexAddr)
				if !ok {
					continue
				}
				k, isC := constInt(ia.Index)
				if !isC {
					continue
				}
				for _, rr := range *ia.Referrers() {
					fa, ok := rr.(*ssa.FieldAddr)
					if !ok {
						continue
					}
					for _, r3 := range *fa.Referrers() {
						if st, ok := r3.(*ssa.Store); ok && st.Addr == ssa.Value(fa) {
							if rows[k] == nil {
								rows[k] = &row{}
							}
							if fa.Field == f0 {
								rows[k].keys = st.Val
							}
							if fa.Field == f2 {
								rows[k].mode = st.Val
							}
						}
					}
				}
			}
			for k, rw := range rows {
				if rw.keys == nil || rw.mode == nil {
					continue
				}
				if l := listOf(rw.keys); l != "" {
					pairs = append(pairs, lockPair{l, rw.mode, ci.Pos(), int(k), ci})
				}
			}
		}
	}
	for _, pr := range pairs {
		n5++
		v, isC := constBool(pr.mode)
		want := lockR
		if pr.list == "RWLock" {
			want = lockRW
		}
		c.Check(isC && v == want, "R5", "pip:run "+pr.list+" list mode", pr.pos, fmt.Sprintf("passed with %v", want), "the "+pr.list+" list is marked with the wrong access mode — readers exclude each other or writers share")
	}
	c.Floor("R5", n5, 2)
	// a name given in both lists must end up write-locked: the read list is applied first, the
	// write list last (the marker overwrites), i.e. no read marking is reachable after a write marking
	{
		bad := ""
		for _, w := range pairs {
			for _, r := range pairs {
				if w.list != "RWLock" || r.list != "RLock" {
					continue
				}
				if w.ci.Instr == r.ci.Instr {
					// rows of one table walked by one loop: the write row must come later
					if w.ord < r.ord {
						bad = c.pos(r.pos)
					}
					continue
				}
				if w.ci.Instr.Parent() == r.ci.Instr.Parent() && reachableFrom(w.ci.Instr, r.ci.Instr) && Origins(w.ci.Arg(3), FlowOpts{})[0].Val == Origins(r.ci.Arg(3), FlowOpts{})[0].Val {
					bad = c.pos(r.pos)
				}
			}
		}
		if len(pairs) >= 2 {
			c.Check(bad == "", "R5", "pip:run applies the write list after the read list", pairs[0].pos, "write marking is last",
				"the read list is marked at "+bad+" after the write list into the same map — a resource named in both lists ends up read-locked, so two tasks that asked to write it hold it together")
		}
	}
	// key of the map update
	facts := factsFor(mark)
	nsParam := mark.Params[1]
	valParam := mark.Params[2]
	k5 := 0
	eachInstr(mark, func(b *ssa.BasicBlock, _ int, in ssa.Instruction) {
		mu, ok := in.(*ssa.MapUpdate)
		if !ok {
			return
		}
		k5++
		okv := resolve(mu.Value) == ssa.Value(valParam)
		c.Check(okv, "R5", "markBoolMapForNamespace stores the requested mode", mu.Pos(), "value parameter stored", "the stored mode is not the requested one")
		// per-edge key analysis
		type edge struct {
			v  ssa.Value
			fs factSet
		}
		var edges []edge
		nsOf := ssa.Value(nsParam)
		helperEdges := func(hcall *ssa.Call) {
			// the key is the result of a private resolver h(key, namespace): judge each of its successful returns
			h := hcall.Call.StaticCallee()
			hf := factsFor(h)
			for ai, a := range hcall.Call.Args {
				if resolve(a) == ssa.Value(nsParam) && ai < len(h.Params) {
					nsOf = h.Params[ai]
				}
			}
			ei := errResultIndex(h.Signature)
			for _, r := range returnsOf(h) {
				if ei >= 0 && hf.HoldsOnAllEdges(r.Block(), func(fs factSet) bool { return knownNilIn(fs, r.Results[ei], false) }) {
					continue
				}
				edges = append(edges, edge{r.Results[0], hf.At(r.Block())})
			}
		}
		if p, ok := mu.Key.(*ssa.Phi); ok {
			for i, e := range p.Edges {
				edges = append(edges, edge{e, factsOnEdge(facts, p.Block().Preds[i], p.Block())})
			}
		} else if hcall := keyHelperCall(mu.Key, mark); hcall != nil {
			helperEdges(hcall)
		} else if elems := appendedElems(mu.Key); len(elems) > 0 {
			// the keys were first collected in a local slice (store only if the whole list is valid):
			// judge every value appended to it, where it was appended
			for _, el := range elems {
				if p, ok := el.v.(*ssa.Phi); ok {
					for i, e := range p.Edges {
						edges = append(edges, edge{e, factsOnEdge(facts, p.Block().Preds[i], p.Block())})
					}
				} else if hcall := keyHelperCall(el.v, mark); hcall != nil {
					helperEdges(hcall)
				} else {
					edges = append(edges, edge{el.v, facts.At(el.at.Block())})
				}
			}
		} else {
			edges = append(edges, edge{mu.Key, facts.At(b)})
		}
		okk := true
		why := ""
		sawGlobal, sawLocal := false, false
		for _, e := range edges {
			usesNS := hasOrigin(Origins(e.v, FlowOpts{}), func(o Origin) bool { return o.Val == nsOf })
			isGlobal, known := false, false
			for k := range e.fs {
				if call, ok := k.v.(*ssa.Call); ok {
					if cf := call.Call.StaticCallee(); cf != nil && qualName(cf) == "strings.HasPrefix" {
						if s, ok := constString(call.Call.Args[1]); ok && s == "@" {
							isGlobal, known = k.pol, true
						}
					}
				}
			}
			if !known {
				// the same key on both kinds of names
				okk, why = false, "the key is built the same way for '@'-global and for local names"
				continue
			}
			if isGlobal {
				sawGlobal = true
				if usesNS {
					okk, why = false, "the key of a '@'-global name depends on the lock namespace: two namespaces get different mutexes for one global resource"
				}
			} else {
				sawLocal = true
				if !usesNS {
					okk, why = false, "the key of a local name does not carry the lock namespace: unrelated namespaces serialise on each other"
				}
			}
		}
		if okk && !(sawGlobal && sawLocal) {
			okk, why = false, "cannot see both the global and the local form of the key"
		}
		c.Check(okk, "R5", "markBoolMapForNamespace key per name kind", mu.Pos(), "global names verbatim, local names prefixed with the namespace", why)
	})
	c.Floor("R5", n5+k5, 3)
}

// elementSource: v is (a field of) an element of a slice/array: returns the IndexAddr.
func elementSource(v ssa.Value) *ssa.IndexAddr {
	for d := 0; d < 10; d++ {
		switch x := v.(type) {
		case *ssa.UnOp:
			if x.Op == token.MUL {
				v = x.X
				continue
			}
			return nil
		case *ssa.FieldAddr:
			v = x.X
			continue
		case *ssa.Field:
			v = x.X
			continue
		case *ssa.IndexAddr:
			return x
		case *ssa.Alloc:
			// a local copy of the element (`for _, row := range list`)
			var src ssa.Value
			for _, r := range *x.Referrers() {
				if st, ok := r.(*ssa.Store); ok && st.Addr == ssa.Value(x) {
					if src != nil {
						return nil
					}
					src = st.Val
				}
			}
			if src == nil {
				return nil
			}
			v = src
			continue
		default:
			return nil
		}
	}
	return nil
}

func elementAddr(v ssa.Value) *ssa.IndexAddr {
	for d := 0; d < 4; d++ {
		switch x := v.(type) {
		case *ssa.FieldAddr:
			v = x.X
			continue
		case *ssa.IndexAddr:
			return x
		default:
			return nil
		}
	}
	return nil
}

// ascendingIndex: the index is the counter of a `for range` over a slice
// (phi(-1)+1) or of an ascending i=0;i<n;i++ loop.
func ascendingIndex(ix ssa.Value) bool {
	if bo, ok := ix.(*ssa.BinOp); ok && bo.Op == token.ADD {
		if p, ok := bo.X.(*ssa.Phi); ok {
			if k, ok := constInt(bo.Y); ok && k == 1 {
				for _, e := range p.Edges {
					if k0, ok := constInt(e); ok && k0 == -1 {
						return true
					}
				}
			}
		}
	}
	if p, ok := ix.(*ssa.Phi); ok {
		zero, inc := false, false
		for _, e := range p.Edges {
			if k0, ok := constInt(e); ok && k0 == 0 {
				zero = true
			}
			if bo, ok := e.(*ssa.BinOp); ok && bo.Op == token.ADD && bo.X == ssa.Value(p) {
				if k, ok := constInt(bo.Y); ok && k == 1 {
					inc = true
				}
			}
		}
		return zero && inc
	}
	return false
}

// closureArg: the function literal passed to a call (any argument).
func closureArg(ci *CallInfo) *ssa.Function {
	for _, a := range ci.Common.Args {
		if mc, ok := a.(*ssa.MakeClosure); ok {
			if fn, ok := mc.Fn.(*ssa.Function); ok {
				return fn
			}
		}
		if fn, ok := a.(*ssa.Function); ok {
			return fn
		}
	}
	return nil
}

// builtInOrderFrom: slice `walked` is filled only by append calls that run
// inside an ascending walk over `sorted`, each appended element being built
// from the element of `sorted` visited in that iteration (so `walked` inherits
// the order of `sorted`).
func builtInOrderFrom(f *ssa.Function, walked, sorted ssa.Value) bool {
	var appends []*ssa.Call
	eachInstr(f, func(_ *ssa.BasicBlock, _ int, in ssa.Instruction) {
		call, ok := in.(*ssa.Call)
		if !ok {
			return
		}
		if b, isB := call.Call.Value.(*ssa.Builtin); !isB || b.Name() != "append" {
			return
		}
		if !types.Identical(call.Type(), walked.Type()) {
			return
		}
		// does this append feed the walked slice?
		if derivesFrom(walked, call, 0) || feedsPhiOf(call, walked) {
			appends = append(appends, call)
		}
	})
	if len(appends) == 0 {
		return false
	}
	for _, a := range appends {
		if len(a.Call.Args) != 2 {
			return false
		}
		sl, ok := a.Call.Args[1].(*ssa.Slice)
		if !ok {
			return false
		}
		okElem := false
		for _, e := range arrayElems(sl.X) {
			// the element (a struct built in a local) carries a value read from sorted[ascending]
			var vals []ssa.Value
			vals = append(vals, e)
			if ld, isLd := e.(*ssa.UnOp); isLd {
				if al, isA := ld.X.(*ssa.Alloc); isA {
					for _, r := range *al.Referrers() {
						if fa, isFA := r.(*ssa.FieldAddr); isFA {
							for _, rr := range *fa.Referrers() {
								if st, isSt := rr.(*ssa.Store); isSt && st.Addr == ssa.Value(fa) {
									vals = append(vals, st.Val)
								}
							}
						}
					}
				}
			}
			for _, v := range vals {
				if ia := elementSource(v); ia != nil && (ia.X == sorted || keyP(ia.X) == keyP(sorted)) && ascendingIndex(ia.Index) {
					okElem = true
				}
			}
		}
		if !okElem {
			return false
		}
	}
	// no direct element writes into walked
	bad := false
	eachInstr(f, func(_ *ssa.BasicBlock, _ int, in ssa.Instruction) {
		if st, ok := in.(*ssa.Store); ok {
			if ia := elementAddr(st.Addr); ia != nil && (ia.X == walked || keyP(ia.X) == keyP(walked)) {
				bad = true
			}
		}
	})
	return !bad
}

// feedsPhiOf: call result reaches v through phi nodes.
func feedsPhiOf(call *ssa.Call, v ssa.Value) bool {
	seen := map[ssa.Value]bool{}
	var rec func(x ssa.Value, d int) bool
	rec = func(x ssa.Value, d int) bool {
		if x == nil || seen[x] || d > 6 {
			return false
		}
		seen[x] = true
		if x == ssa.Value(call) {
			return true
		}
		if p, ok := x.(*ssa.Phi); ok {
			for _, e := range p.Edges {
				if rec(e, d+1) {
					return true
				}
			}
		}
		if u, ok := x.(*ssa.UnOp); ok {
			if a, ok := u.X.(*ssa.Alloc); ok {
				for _, r := range *a.Referrers() {
					if st, ok := r.(*ssa.Store); ok && st.Addr == ssa.Value(a) && rec(st.Val, d+1) {
						return true
					}
				}
			}
		}
		return false
	}
	return rec(v, 0)
}

// sortSkippedOnlyWhenTrivial: the acquisition can be reached without the sort
// only through the branch that skips it because the slice has at most one
// element (if len(list) > 1 { sort }).
func sortSkippedOnlyWhenTrivial(f *ssa.Function, sortCall *CallInfo, sorted ssa.Value, acq ssa.Instruction) bool {
	sb := sortCall.Block
	// the branch that guards the sort block
	var guard *ssa.BasicBlock
	var bypass *ssa.BasicBlock
	for _, p := range sb.Preds {
		if len(p.Instrs) == 0 {
			continue
		}
		iff, ok := p.Instrs[len(p.Instrs)-1].(*ssa.If)
		if !ok || len(p.Succs) != 2 {
			continue
		}
		bo, ok := iff.Cond.(*ssa.BinOp)
		if !ok {
			continue
		}
		lc, ok := bo.X.(*ssa.Call)
		if !ok {
			continue
		}
		if b, ok := lc.Call.Value.(*ssa.Builtin); !ok || b.Name() != "len" || (lc.Call.Args[0] != sorted && keyP(lc.Call.Args[0]) != keyP(sorted) && !sameValue(lc.Call.Args[0], sorted)) {
			continue
		}
		k, isC := constInt(bo.Y)
		if !isC {
			continue
		}
		// which successor means "more than one element"?
		toSortWhenTrue := (bo.Op == token.GTR && k <= 1) || (bo.Op == token.GEQ && k <= 2) || (bo.Op == token.NEQ && false)
		toSortWhenFalse := (bo.Op == token.LEQ && k <= 1) || (bo.Op == token.LSS && k <= 2)
		switch {
		case toSortWhenTrue && p.Succs[0] == sb:
			guard, bypass = p, p.Succs[1]
		case toSortWhenFalse && p.Succs[1] == sb:
			guard, bypass = p, p.Succs[0]
		}
	}
	if guard == nil {
		return false
	}
	// without the bypass edge, can the acquisition still be reached while avoiding the sort block?
	seen := map[*ssa.BasicBlock]bool{}
	work := []*ssa.BasicBlock{f.Blocks[0]}
	for len(work) > 0 {
		b := work[len(work)-1]
		work = work[:len(work)-1]
		if seen[b] || b == sb {
			continue
		}
		seen[b] = true
		for _, sc := range b.Succs {
			if b == guard && sc == bypass {
				continue
			}
			work = append(work, sc)
		}
	}
	return !seen[acq.Block()]
}

// keyHelperCall: key is result 0 of a call to an unexported function of f's package.
func keyHelperCall(key ssa.Value, f *ssa.Function) *ssa.Call {
	v := resolve(key)
	var call *ssa.Call
	switch x := v.(type) {
	case *ssa.Call:
		call = x
	case *ssa.Extract:
		if x.Index == 0 {
			call, _ = x.Tuple.(*ssa.Call)
		}
	}
	if call == nil {
		return nil
	}
	h := call.Call.StaticCallee()
	if h == nil || h.Pkg != f.Pkg || h.Blocks == nil || (h.Object() != nil && h.Object().Exported()) {
		return nil
	}
	return call
}

// ruleSyncMapRegistry: the name -> mutex registry kept in a sync.Map.  One mutex per name
// then needs: entries are only ever added by LoadOrStore (never Store/Swap/Delete...: an
// entry is never replaced or dropped), and get hands out what LoadOrStore (or Load) returned,
// never its own freshly made candidate.
func ruleSyncMapRegistry(c *Ctx, rule string, sm *types.Named, getF *ssa.Function) (int, bool) {
	st, ok := sm.Underlying().(*types.Struct)
	if !ok {
		return 0, false
	}
	reg := -1
	for i := 0; i < st.NumFields(); i++ {
		if st.Field(i).Type().String() == "sync.Map" {
			reg = i
		}
		if _, isMap := st.Field(i).Type().Underlying().(*types.Map); isMap {
			return 0, false // a plain map registry: the lock rules apply
		}
	}
	if reg < 0 {
		return 0, false
	}
	n := 0
	var los []*ssa.Call
	for _, f := range c.P.PkgFuncs(mutexPkg) {
		for _, ci := range Calls(f) {
			if ci.Static == nil || !strings.HasPrefix(qualName(ci.Static), "sync.(Map).") {
				continue
			}
			fa, isFA := ci.Recv().(*ssa.FieldAddr)
			if !isFA || fa.Field != reg || structOf(fa.X.Type()) != st {
				continue
			}
			n++
			m := ci.Static.Name()
			okM := m == "Load" || m == "LoadOrStore" || m == "Range"
			c.Check(okM, rule, fmt.Sprintf("registry operation %s in %s", m, fname(f)), ci.Pos(), "entries are only added, atomically (Load / LoadOrStore / Range)",
				"the registry is changed with "+m+": an entry can be replaced or dropped while a holder still owns the old mutex — two holders of one name no longer exclude each other")
			if m == "LoadOrStore" {
				if call, isCall := ci.Instr.(*ssa.Call); isCall {
					los = append(los, call)
				}
			}
		}
	}
	// what get returns comes out of the registry
	okRet := len(los) > 0
	why := "get never adds a missing name with LoadOrStore"
	for _, r := range returnsOf(getF) {
		for _, o := range Origins(r.Results[0], FlowOpts{}) {
			if o.Kind == "alloc" || o.Kind == "new" {
				okRet, why = false, "get can return the mutex it has just made instead of the one the registry holds"
			}
		}
	}
	for _, lo := range los {
		if len(resultN(lo, 0)) == 0 {
			okRet, why = false, "the value LoadOrStore returned is dropped"
		}
	}
	n++
	c.Check(okRet, rule, "get hands out the registry's mutex", getF.Pos(), "every result comes from Load / LoadOrStore", why+" — two callers racing for a new name get different mutexes")
	return n, true
}

// appendedElems: v is read from an element of a local slice that is only built by
// append(s, x...) calls in the same function: the appended values and where.
type appendedElem struct {
	v  ssa.Value
	at ssa.Instruction
}

func appendedElems(v ssa.Value) []appendedElem {
	ia := elementSource(v)
	if ia == nil {
		return nil
	}
	var out []appendedElem
	seen := map[ssa.Value]bool{}
	ok := true
	var walk func(s ssa.Value, d int)
	walk = func(s ssa.Value, d int) {
		if s == nil || seen[s] || d > 12 {
			return
		}
		seen[s] = true
		switch x := s.(type) {
		case *ssa.Phi:
			for _, e := range x.Edges {
				walk(e, d+1)
			}
		case *ssa.Call:
			b, isB := x.Call.Value.(*ssa.Builtin)
			if !isB || b.Name() != "append" || len(x.Call.Args) != 2 {
				ok = false
				return
			}
			walk(x.Call.Args[0], d+1)
			sl, isSl := x.Call.Args[1].(*ssa.Slice)
			if !isSl {
				ok = false
				return
			}
			arr, isA := sl.X.(*ssa.Alloc)
			if !isA {
				ok = false
				return
			}
			for _, r := range *arr.Referrers() {
				if ea, isIA := r.(*ssa.IndexAddr); isIA {
					for _, r2 := range *ea.Referrers() {
						if st, isSt := r2.(*ssa.Store); isSt && st.Addr == ssa.Value(ea) {
							out = append(out, appendedElem{st.Val, x})
						}
					}
				}
			}
		case *ssa.MakeSlice, *ssa.Const:
			// empty start
		case *ssa.Slice:
			walk(x.X, d+1)
		default:
			ok = false
		}
	}
	walk(ia.X, 0)
	if !ok {
		return nil
	}
	return out
}

// appendedElemsOfCall: the element values of one append(s, x, y...) call.
func appendedElemsOfCall(app *ssa.Call) []ssa.Value {
	var out []ssa.Value
	sl, ok := app.Call.Args[1].(*ssa.Slice)
	if !ok {
		return nil
	}
	arr, ok := sl.X.(*ssa.Alloc)
	if !ok {
		return nil
	}
	for _, r := range *arr.Referrers() {
		if ea, isIA := r.(*ssa.IndexAddr); isIA {
			for _, r2 := range *ea.Referrers() {
				if st, isSt := r2.(*ssa.Store); isSt && st.Addr == ssa.Value(ea) {
					out = append(out, st.Val)
				}
			}
		}
	}
	return out
}
