package main

// goatverif — static checker for the goatcore properties C01..C20.
//
//   goatverif check -p C03 [-tier quick|thorough] [-repo /repo] [-verif /verif]
//   goatverif list
//
// Exit status: 0 = every obligation of the property discharged (or listed as a
// known finding); 1 = an unlisted violation, or the analysis could not be
// completed (load failure, unresolved anchor, instance floor).

import (
	"bytes"
	"flag"
	"fmt"
	"os"
	"os/exec"
	"path/filepath"
	"runtime/debug"
	"sort"
	"strconv"
	"strings"
	"time"
)

// PropDef: one property = a set of rules run on the loaded program.
type PropDef struct {
	ID          string
	Title       string
	Rules       func(c *Ctx)
	Explanation string   // what is decided and what is not (goes into evidence)
	Assumptions []string // soundness envelope specific to this property
}

var registry = map[string]*PropDef{}

func register(p *PropDef) { registry[p.ID] = p }

var commonAssumptions = []string{
	"verdicts are computed from /repo's current working tree (type-checked source + SSA); nothing in /repo is executed",
	"unexported fields are reachable only from their own package (language guarantee); no unsafe/cgo/linkname reaches the analysed state (checked: rule env.no-unsafe)",
	"interface calls are resolved over the module; implementations supplied by users of the library are outside the analysed program",
	"quick tier analyses the default build configuration (linux/amd64, no tags); thorough adds GOOS=windows, GOOS=darwin, GOARCH=386 and -tags verif",
	"_test.go files are excluded",
	"trusted base: go/types, x/tools go/ssa (builder, dominator tree), documented contracts of sync, crypto/cipher, sort, filepath.Walk, and this checker's engines",
}

func main() {
	if len(os.Args) < 2 {
		usage()
	}
	switch os.Args[1] {
	case "check":
		if os.Getenv("GOATVERIF_CHILD") == "" && os.Getenv("GOATVERIF_DEBUG") == "" {
			os.Exit(supervise(os.Args[2:]))
		}
		debug.SetMaxStack(512 << 20)
		if os.Getenv("GOATVERIF_TEST_CRASH") != "" {
			crashForTest(0) // self-test of the supervisor
		}
		os.Exit(cmdCheck(os.Args[2:]))
	case "ssa":
		// debug: goatverif ssa <repo> <relpkg> <funcname-substring>
		if len(os.Args) < 5 {
			usage()
		}
		p, err := Load(LoadOpts{Repo: os.Args[2]})
		if err != nil {
			fmt.Println(err)
			os.Exit(1)
		}
		for _, f := range p.PkgFuncs(os.Args[3]) {
			if strings.Contains(fname(f), os.Args[4]) {
				f.WriteTo(os.Stdout)
			}
		}
	case "layout":
		p, err := Load(LoadOpts{Repo: os.Args[2]})
		if err != nil {
			fmt.Println(err)
			os.Exit(1)
		}
		dumpLayout(p)
	case "anchors":
		p, err := Load(LoadOpts{Repo: os.Args[2]})
		if err != nil {
			fmt.Println(err)
			os.Exit(1)
		}
		dumpAnchorSigs(p)
	case "list":
		var ids []string
		for id := range registry {
			ids = append(ids, id)
		}
		sort.Strings(ids)
		for _, id := range ids {
			fmt.Printf("%s\t%s\n", id, registry[id].Title)
		}
	default:
		usage()
	}
}

func usage() {
	fmt.Fprintln(os.Stderr, "usage: goatverif check -p Cnn [-tier quick|thorough] [-repo DIR] [-verif DIR] | goatverif list")
	os.Exit(2)
}

type runResult struct {
	ctx        *Ctx
	violations []Obligation
	known      []Obligation
	err        error
	config     string
}

// runOnce loads the program under one build configuration and runs the rules.
func runOnce(def *PropDef, lo LoadOpts, known map[string]KFEntry) *runResult {
	rr := &runResult{}
	p, err := Load(lo)
	if err != nil {
		rr.err = err
		return rr
	}
	rr.config = p.Config
	c := NewCtx(p, def.ID)
	func() {
		defer func() {
			if r := recover(); r != nil {
				c.Bad("engine", "panic", 0, fmt.Sprintf("checker panicked: %v — cannot decide", r))
				if os.Getenv("GOATVERIF_DEBUG") != "" {
					panic(r)
				}
			}
		}()
		envRules(c)
		def.Rules(c)
	}()
	rr.ctx = c
	for i := range c.Obs {
		o := &c.Obs[i]
		if o.Status != "violated" {
			continue
		}
		if _, ok := known[o.Key()]; ok {
			o.Status = "known"
			rr.known = append(rr.known, *o)
		} else {
			rr.violations = append(rr.violations, *o)
		}
	}
	return rr
}

func crashForTest(n int) int { return crashForTest(n+1) + 1 }

// supervise runs the check in a child process, so that a crash of the analysis
// that cannot be recovered in-process (stack exhaustion, out of memory, a signal)
// is reported as "cannot decide" - a violation - instead of an unexplained exit.
func supervise(args []string) int {
	self, err := os.Executable()
	if err != nil {
		return cmdCheck(args)
	}
	cmd := exec.Command(self, append([]string{"check"}, args...)...)
	cmd.Env = append(os.Environ(), "GOATVERIF_CHILD=1")
	cmd.Stdout = os.Stdout
	var errBuf bytes.Buffer
	cmd.Stderr = &errBuf
	runErr := cmd.Run()
	code := 0
	if runErr != nil {
		code = -1
		if ee, ok := runErr.(*exec.ExitError); ok {
			code = ee.ExitCode()
		}
	}
	if code == 0 || code == 1 || code == 3 {
		os.Stderr.Write(errBuf.Bytes())
		return code
	}
	// crashed
	fs := flag.NewFlagSet("check", flag.ContinueOnError)
	fs.SetOutput(new(bytes.Buffer))
	prop := fs.String("p", "", "")
	tier := fs.String("tier", envOr("VERIF_TIER", "quick"), "")
	repo := fs.String("repo", "/repo", "")
	verif := fs.String("verif", "/verif", "")
	fs.String("overlay", "", "")
	noEvidence := fs.Bool("no-evidence", false, "")
	fs.Bool("v", false, "")
	fs.Parse(args)
	lines := strings.Split(errBuf.String(), "\n")
	if len(lines) > 25 {
		lines = lines[:25]
	}
	fmt.Fprintln(os.Stderr, strings.Join(lines, "\n"))
	first := ""
	for _, l := range lines {
		if strings.TrimSpace(l) != "" {
			first = strings.TrimSpace(l)
			if strings.HasPrefix(first, "fatal error") || strings.HasPrefix(first, "panic") {
				break
			}
		}
	}
	ob := Obligation{Property: *prop, Rule: *prop + ".engine", Construct: "analysis process", Status: "violated",
		Detail: fmt.Sprintf("the checker crashed (exit %d: %s) — cannot decide; nothing is certified", code, first)}
	fmt.Printf("  violated: %s @ %s %s — %s\n", ob.Rule, ob.Construct, ob.Pos, ob.Detail)
	reportPath := filepath.Join(*verif, "reports", fmt.Sprintf("%s-%s.json", *prop, *tier))
	if def := registry[*prop]; def != nil && !*noEvidence {
		writeJSON(reportPath, Report{Property: *prop, Tier: *tier, When: nowStamp(), Violations: []Obligation{ob}})
		seed, _ := strconv.Atoi(os.Getenv("VERIF_SEED"))
		ev := buildEvidence(def, *tier, seed, []*runResult{{err: fmt.Errorf("analysis process crashed (exit %d)", code)}}, []Obligation{ob}, nil, nil, 0, *repo)
		writeJSON(filepath.Join(*verif, "evidence", *prop+".json"), ev)
	}
	fmt.Printf("VIOLATION property=%s replay=%s\n", *prop, reportPath)
	return 1
}

func cmdCheck(args []string) int {
	fs := flag.NewFlagSet("check", flag.ExitOnError)
	prop := fs.String("p", "", "property id")
	tier := fs.String("tier", envOr("VERIF_TIER", "quick"), "quick|thorough")
	repo := fs.String("repo", "/repo", "repository root")
	verif := fs.String("verif", "/verif", "verif root")
	overlay := fs.String("overlay", "", "file=replacement[,file=replacement] (used by positive controls)")
	noEvidence := fs.Bool("no-evidence", false, "do not write evidence/report files (controls)")
	listObs := fs.Bool("v", false, "print every obligation")
	fs.Parse(args)
	def := registry[*prop]
	if def == nil {
		fmt.Fprintf(os.Stderr, "unknown property %q\n", *prop)
		return 3
	}
	if *tier != "quick" && *tier != "thorough" {
		*tier = "quick"
	}
	seed, _ := strconv.Atoi(os.Getenv("VERIF_SEED"))
	t0 := time.Now()
	known, err := loadKnown(filepath.Join(*verif, "known_findings.json"))
	if err != nil {
		fmt.Printf("cannot read known_findings.json: %v\n", err)
		known = map[string]KFEntry{}
	}
	lo := LoadOpts{Repo: *repo}
	if *overlay != "" {
		lo.Overlay = map[string][]byte{}
		for _, kv := range strings.Split(*overlay, ",") {
			parts := strings.SplitN(kv, "=", 2)
			if len(parts) != 2 {
				continue
			}
			b, err := os.ReadFile(parts[1])
			if err != nil {
				fmt.Printf("overlay: %v\n", err)
				return 3
			}
			lo.Overlay[parts[0]] = b
		}
	}

	reportPath := filepath.Join(*verif, "reports", fmt.Sprintf("%s-%s.json", def.ID, *tier))
	main := runOnce(def, lo, known)
	results := []*runResult{main}
	var extra map[string]interface{}
	if *tier == "thorough" && main.err == nil && *overlay == "" {
		// build-configuration sweep
		for _, cfg := range []LoadOpts{
			{Repo: *repo, Env: []string{"GOOS=windows", "GOARCH=amd64"}},
			{Repo: *repo, Env: []string{"GOOS=darwin", "GOARCH=arm64"}},
			{Repo: *repo, Env: []string{"GOOS=linux", "GOARCH=386"}},
			{Repo: *repo, Tags: "verif"},
		} {
			results = append(results, runOnce(def, cfg, known))
		}
		extra = thoroughExtras(def, *repo, *verif, main)
	}

	// collect
	var violations, knownHits []Obligation
	seenV := map[string]bool{}
	loadFailed := false
	for _, rr := range results {
		if rr.err != nil {
			loadFailed = true
			violations = append(violations, Obligation{Property: def.ID, Rule: def.ID + ".load", Construct: "load[" + strings.Join(rr.cfgEnv(), " ") + "]", Status: "violated",
				Detail: "cannot decide: " + rr.err.Error()})
			continue
		}
		for _, v := range rr.violations {
			if !seenV[v.Key()] {
				seenV[v.Key()] = true
				violations = append(violations, v)
			}
		}
		for _, k := range rr.known {
			if !seenV["k"+k.Key()] {
				seenV["k"+k.Key()] = true
				knownHits = append(knownHits, k)
			}
		}
	}
	_ = loadFailed
	if extra != nil {
		if cv, ok := extra["control_violations"].([]Obligation); ok {
			violations = append(violations, cv...)
			delete(extra, "control_violations")
		}
	}

	// print
	if main.ctx != nil {
		c := main.ctx
		nd, ne := 0, 0
		for _, o := range c.Obs {
			switch o.Status {
			case "discharged":
				nd++
			case "exempt":
				ne++
			}
			if *listObs {
				fmt.Printf("  [%s] %s @ %s %s — %s\n", o.Status, o.Rule, o.Construct, o.Pos, o.Detail)
			}
		}
		fmt.Printf("ANALYSED property=%s tier=%s config=%q files=%d functions=%d obligations=%d discharged=%d known=%d exempt=%d violated=%d\n",
			def.ID, *tier, main.config, c.P.NFiles, c.P.NFuncs, len(c.Obs), nd, len(main.known), ne, len(main.violations))
	}
	for _, k := range knownHits {
		e := known[k.Key()]
		fmt.Printf("KNOWN-FINDING: property=%s %s @ %s — %s\n", def.ID, k.Rule, k.Construct, e.What)
	}
	for _, v := range violations {
		fmt.Printf("  violated: %s @ %s %s — %s\n", v.Rule, v.Construct, v.Pos, v.Detail)
	}

	if !*noEvidence {
		rep := Report{Property: def.ID, Tier: *tier, Config: main.config, When: nowStamp(), Violations: violations, Known: knownHits}
		if main.ctx != nil {
			rep.Obligations = main.ctx.Obs
			rep.Notes = main.ctx.Notes
		}
		if err := writeJSON(reportPath, rep); err != nil {
			fmt.Printf("cannot write report: %v\n", err)
		}
		ev := buildEvidence(def, *tier, seed, results, violations, knownHits, extra, time.Since(t0).Seconds(), *repo)
		if err := writeJSON(filepath.Join(*verif, "evidence", def.ID+".json"), ev); err != nil {
			fmt.Printf("cannot write evidence: %v\n", err)
			return 1
		}
	}
	if len(violations) > 0 {
		fmt.Printf("VIOLATION property=%s replay=%s\n", def.ID, reportPath)
		return 1
	}
	fmt.Printf("OK property=%s tier=%s wall=%.1fs\n", def.ID, *tier, time.Since(t0).Seconds())
	return 0
}

func (rr *runResult) cfgEnv() []string {
	if rr.config != "" {
		return []string{rr.config}
	}
	return []string{"?"}
}

func envOr(k, d string) string {
	if v := os.Getenv(k); v != "" {
		return v
	}
	return d
}

func buildEvidence(def *PropDef, tier string, seed int, results []*runResult, violations, known []Obligation,
	extra map[string]interface{}, wall float64, repo string) *Evidence {
	cov := map[string]interface{}{}
	total, discharged, exempt := 0, 0, 0
	constructs := map[string]bool{}
	var samples []interface{}
	ruleCount := map[string]int{}
	var configs []string
	main := results[0]
	for _, rr := range results {
		if rr.ctx == nil {
			configs = append(configs, "LOAD FAILED: "+fmt.Sprint(rr.err))
			continue
		}
		configs = append(configs, rr.config)
	}
	if main.ctx != nil {
		for _, o := range main.ctx.Obs {
			total++
			ruleCount[o.Rule]++
			switch o.Status {
			case "discharged":
				discharged++
			case "exempt":
				exempt++
			}
			if o.Status != "exempt" {
				constructs[o.Rule+"|"+o.Construct] = true
			}
		}
		// samples: first obligation of each rule + all non-discharged
		seenRule := map[string]int{}
		for _, o := range main.ctx.Obs {
			if seenRule[o.Rule] < 2 || o.Status == "violated" || o.Status == "known" {
				seenRule[o.Rule]++
				if len(samples) < 60 {
					samples = append(samples, o)
				}
			}
		}
		cov["files_analysed"] = main.ctx.P.NFiles
		cov["functions_in_module"] = main.ctx.P.NFuncs
		cov["stats"] = main.ctx.Stats
		if len(main.ctx.Notes) > 0 {
			cov["notes"] = main.ctx.Notes
		}
	}
	cov["explanation"] = def.Explanation
	cov["obligations"] = total
	cov["discharged"] = discharged + exempt
	cov["exempt_with_reason"] = exempt
	cov["known_findings"] = len(known)
	cov["evaluations"] = total * len(results)
	cov["distinct_nontrivial"] = len(constructs)
	cov["rule"] = "an obligation is one (rule, construct) instance evaluated on the SSA/CFG of the current tree; distinct_nontrivial counts distinct (rule, construct) pairs that are not exemptions; evaluations = obligations × build configurations analysed"
	cov["samples"] = samples
	cov["per_rule_instances"] = ruleCount
	cov["build_configurations"] = configs
	cov["checker_cmd"] = fmt.Sprintf("/verif/bin/goatverif check -p %s -tier %s -repo %s", def.ID, tier, repo)
	cov["trusted_base"] = []string{"go/types", "golang.org/x/tools v0.29.0 go/packages+go/ssa", "Go standard library contracts (sync, crypto/cipher, sort, path/filepath)", "goatverif engines (E-LOCK, E-PATH, E-DOM, E-FLOW, E-CALL, E-TABLE, E-SHAPE, E-ABS)"}
	cov["exhaustive"] = false
	for k, v := range extra {
		cov[k] = v
	}
	ass := append([]string{}, commonAssumptions...)
	ass = append(ass, def.Assumptions...)
	return &Evidence{PropertyID: def.ID, Tier: tier, Seed: seed, Level: "other", Coverage: cov, Assumptions: ass, WallS: wall, Violations: len(violations)}
}

// envRules: the soundness envelope checked on every run.
func envRules(c *Ctx) {
	// no unsafe / cgo in the module
	bad := 0
	for path, pk := range c.P.ByPath {
		if !strings.HasPrefix(path, modPath) || pk.Types == nil {
			continue
		}
		for _, imp := range pk.Types.Imports() {
			if imp.Path() == "unsafe" || imp.Path() == "C" {
				c.Bad("env.no-unsafe", shortPkg(path), 0, "package imports "+imp.Path()+": guarded state may be reached behind the analysis; cannot decide")
				bad++
			}
		}
	}
	if bad == 0 {
		c.OK("env.no-unsafe", "module", 0, "no package of the module imports unsafe or cgo")
	}
}
