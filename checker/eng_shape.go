package main

// eng_shape.go — E-SHAPE: small typed shapes.  Delegation: a method forwards
// to the same-named method of an inner object with its parameters in order.

import (
	"fmt"
	"go/types"

	"golang.org/x/tools/go/ssa"
)

type DelegationOpts struct {
	// Iface whose methods count as "inner" calls (invoke mode).
	Iface *types.Interface
	// Extra callee names accepted as the delegate for method name (e.g. the
	// wrapper's Filespace -> NewFilespaceWrapper).
	AltCallee map[string]string
}

// checkDelegation verifies the relabelling shape of one method:
//   - exactly one call of an inner interface method (or the alternative
//     callee), and it has the same name as the method;
//   - the k-th argument derives from the k-th parameter and from no other
//     parameter (strings may be prefixed / normalised, other types must be
//     passed on unchanged);
//   - every return reached after that call returns the call's results in
//     order (error paths before the call may return anything).
//
// Returns "" when the shape holds, else the reason.
func checkDelegation(f *ssa.Function, opt DelegationOpts) (string, *CallInfo) {
	if f == nil || f.Blocks == nil {
		return "no body", nil
	}
	name := f.Name()
	var inner []*CallInfo
	for _, ci := range Calls(f) {
		if ci.Method != nil && opt.Iface != nil {
			// a method of the interface?
			for i := 0; i < opt.Iface.NumMethods(); i++ {
				if opt.Iface.Method(i) == ci.Method {
					inner = append(inner, ci)
				}
			}
			// embedded/identical-signature interfaces: compare by name when receiver type implements Iface
			continue
		}
		if alt, ok := opt.AltCallee[name]; ok && ci.Static != nil && qualName(ci.Static) == alt {
			inner = append(inner, ci)
		}
	}
	if len(inner) != 1 {
		return fmt.Sprintf("expected exactly one delegated call, found %d", len(inner)), nil
	}
	ci := inner[0]
	if ci.Method != nil && ci.Method.Name() != name {
		return fmt.Sprintf("delegates to %s, not to the same-named operation", ci.Method.Name()), ci
	}
	// parameters (without receiver)
	params := f.Params
	if f.Signature.Recv() != nil {
		params = params[1:]
	}
	var args []ssa.Value
	for i := 0; ; i++ {
		a := ci.Arg(i)
		if a == nil {
			break
		}
		args = append(args, a)
	}
	// the alternative callee may take the inner object first: align on the tail
	off := len(args) - len(params)
	if off < 0 {
		return fmt.Sprintf("delegate takes %d arguments for %d parameters", len(args), len(params)), ci
	}
	for k, p := range params {
		a := args[k+off]
		os := Origins(a, FlowOpts{Transparent: pathTransparent, Interproc: 2})
		fromP, fromOther := false, ""
		for _, o := range os {
			if o.Kind == "param" {
				if o.Val == ssa.Value(p) {
					fromP = true
				} else if q, ok := o.Val.(*ssa.Parameter); ok && !(f.Signature.Recv() != nil && q == f.Params[0]) {
					fromOther = q.Name()
				}
			}
		}
		if !fromP {
			return fmt.Sprintf("argument %d of the delegated call does not derive from parameter %s (derives from %s)", k+off, p.Name(), originsString(os)), ci
		}
		if fromOther != "" {
			return fmt.Sprintf("argument %d of the delegated call mixes in parameter %s", k+off, fromOther), ci
		}
		if !isStringy(p.Type()) && resolve(a) != ssa.Value(p) {
			if _, isParam := resolve(a).(*ssa.Parameter); !isParam {
				return fmt.Sprintf("non-string parameter %s is not forwarded unchanged", p.Name()), ci
			}
		}
	}
	// results
	call, _ := ci.Instr.(*ssa.Call)
	if call == nil {
		return "delegated call is deferred or spawned", ci
	}
	nres := f.Signature.Results().Len()
	for _, r := range returnsOf(f) {
		if !(call.Block().Dominates(r.Block())) {
			continue
		}
		for i := 0; i < nres && i < len(r.Results); i++ {
			v := resolve(r.Results[i])
			ok := false
			if nres == 1 && v == ssa.Value(call) {
				ok = true
			}
			if ex, isEx := v.(*ssa.Extract); isEx && ex.Tuple == ssa.Value(call) && ex.Index == i {
				ok = true
			}
			// the alternative callee may return (obj, err) for (iface, err): allow a conversion
			if mi, isMI := v.(*ssa.MakeInterface); isMI {
				if ex, isEx := mi.X.(*ssa.Extract); isEx && ex.Tuple == ssa.Value(call) && ex.Index == i {
					ok = true
				}
				if mi.X == ssa.Value(call) {
					ok = true
				}
			}
			if !ok {
				// a return guarded by the call's error being non-nil may return zero values + err
				if fa := factsFor(f); callErrKnownNonNil(fa, call, r.Block()) {
					continue
				}
				return fmt.Sprintf("result %d returned after the delegated call is not the call's result %d", i, i), ci
			}
		}
	}
	return "", ci
}

var factsCache = map[*ssa.Function]*Facts{}

func factsFor(f *ssa.Function) *Facts {
	if fa, ok := factsCache[f]; ok {
		return fa
	}
	fa := ComputeFacts(f)
	factsCache[f] = fa
	return fa
}

func callErrKnownNonNil(fa *Facts, call *ssa.Call, b *ssa.BasicBlock) bool {
	idx := errResultIndex(call.Call.Signature())
	if idx < 0 {
		return false
	}
	for _, e := range resultN(call, idx) {
		if fa.KnownNil(b, e, false) {
			return true
		}
	}
	return false
}

func callErrKnownNil(fa *Facts, call *ssa.Call, b *ssa.BasicBlock) bool {
	idx := errResultIndex(call.Call.Signature())
	if idx < 0 {
		return false
	}
	for _, e := range resultN(call, idx) {
		if fa.KnownNil(b, e, true) {
			return true
		}
	}
	return false
}

// expandReducer: replace leaves that are results of ReduceAbsPath by the
// origins of its argument.
func expandReducer(os []Origin) []Origin {
	var out []Origin
	for _, o := range os {
		if o.Kind == "call" {
			var call *ssa.Call
			switch x := o.Val.(type) {
			case *ssa.Call:
				call = x
			}
			if call != nil {
				if cf := call.Call.StaticCallee(); cf != nil && qualName(cf) == reduceFn && len(call.Call.Args) > 0 {
					out = append(out, expandReducer(Origins(call.Call.Args[0], FlowOpts{}))...)
					continue
				}
			}
		}
		out = append(out, o)
	}
	return out
}
