package main

// Walker completeness (second seeding round); shared by C04, C08, C19, C20:
// the tree walkers of package fsloop feed the tree copy, the template loaders
// and the translation loader.  A walker that drops entries makes all of them
// silently incomplete while still returning nil.

import (
	"fmt"
	"go/token"
	"go/types"
	"golang.org/x/tools/go/ssa"
	"sort"
	"strings"
)

func isFileInfo(t types.Type) bool {
	n, ok := types.Unalias(t).(*types.Named)
	if !ok || n.Obj().Pkg() == nil {
		return false
	}
	return (n.Obj().Pkg().Path() == "os" || n.Obj().Pkg().Path() == "io/fs") && n.Obj().Name() == "FileInfo"
}

var namePredicates = map[string]bool{
	"strings.HasPrefix": true, "strings.HasSuffix": true, "strings.Contains": true, "strings.ContainsAny": true, "strings.ContainsRune": true,
	"strings.EqualFold": true, "strings.Index": true, "strings.IndexByte": true, "strings.IndexAny": true, "strings.IndexRune": true, "strings.LastIndex": true,
	"strings.Compare": true, "strings.Count": true, "path.Match": true, "path/filepath.Match": true, "path.Ext": true, "path/filepath.Ext": true,
	"(*regexp.Regexp).MatchString": true, "regexp.MatchString": true, "regexp.(Regexp).MatchString": true,
}

// ruleWalkersVisitAll:
//
//	(a) a walker looks at an entry's name only to recognise "." and ".." (and to
//	    build the entry's path): any other test on the name selects entries by
//	    name and drops the rest;
//	(b) inside a listing loop of a walker that reports errors, a return leaves the
//	    walk early only with an error known to be non-nil.
func ruleWalkersVisitAll(c *Ctx, rule string) int {
	n := 0
	for _, f := range c.P.PkgFuncs("filesystem/fsloop") {
		for _, g := range withClosures(f) {
			if g.Blocks == nil {
				continue
			}
			// (a)
			nameCalls := 0
			bad := ""
			var pos token.Pos
			for _, ci := range Calls(g) {
				if ci.Method == nil || ci.Method.Name() != "Name" || ci.Recv() == nil || !isFileInfo(ci.Recv().Type()) {
					continue
				}
				nameCalls++
				v := ci.Value()
				if v == nil || v.Referrers() == nil {
					continue
				}
				for _, r := range *v.Referrers() {
					switch x := r.(type) {
					case *ssa.BinOp:
						switch x.Op {
						case token.ADD:
						case token.EQL, token.NEQ:
							other := x.Y
							if other == v {
								other = x.X
							}
							if s, ok := constString(other); !ok || (s != "." && s != "..") {
								bad, pos = fmt.Sprintf("the entry name is compared with %s", vdesc(other)), x.Pos()
							}
						default:
							// ordering comparisons (sorting a listing) select nothing
						}
					case *ssa.Call:
						if cf := x.Call.StaticCallee(); cf != nil && namePredicates[qualName(cf)] {
							bad, pos = "the entry name is tested with "+lastSeg(qualName(cf)), x.Pos()
						}
						if b, ok := x.Call.Value.(*ssa.Builtin); ok && b.Name() == "len" {
							bad, pos = "the length of the entry name is tested", x.Pos()
						}
					case *ssa.Slice, *ssa.Index, *ssa.Lookup:
						bad, pos = "part of the entry name is inspected", r.Pos()
					}
				}
			}
			if nameCalls > 0 {
				n++
				c.Check(bad == "", rule, "entry selection in "+fname(g), orPos(pos, g.Pos()), "names are only compared with \".\" and \"..\"",
					bad+" — entries are dropped by name (e.g. \".htaccess\", \".keep\") while the walk still reports success")
			}
			// (b)
			ei := errResultIndex(g.Signature)
			if ei < 0 {
				continue
			}
			facts := factsFor(g)
			for _, e := range loopBackEdges(g) {
				header := e[1]
				// does the loop handle listing entries?
				handles := false
				for _, b := range g.Blocks {
					if !inSameLoop(g, header, b) {
						continue
					}
					for _, in := range b.Instrs {
						if ci := callInfo(in, b, 0); ci != nil && ci.Method != nil && ci.Recv() != nil && isFileInfo(ci.Recv().Type()) {
							handles = true
						}
					}
				}
				if !handles {
					continue
				}
				// returns reachable from the body without passing the header
				seen := map[*ssa.BasicBlock]bool{header: true}
				var work []*ssa.BasicBlock
				for _, s := range header.Succs {
					if inSameLoop(g, header, s) {
						work = append(work, s)
					}
				}
				for len(work) > 0 {
					b := work[len(work)-1]
					work = work[:len(work)-1]
					if seen[b] {
						continue
					}
					seen[b] = true
					if len(b.Instrs) > 0 {
						if r, ok := b.Instrs[len(b.Instrs)-1].(*ssa.Return); ok && ei < len(r.Results) {
							n++
							ev := r.Results[ei]
							ok := facts.HoldsOnAllEdges(b, func(fs factSet) bool { return knownNilIn(fs, ev, false) })
							c.Check(ok, rule, fmt.Sprintf("early return in the listing loop of %s", fname(g)), r.Pos(), "leaves the walk only with a non-nil error",
								"the walk can return from inside its listing loop with a nil error — the remaining entries of the directory are never visited and the caller is told everything went well")
						}
					}
					work = append(work, b.Succs...)
				}
			}
		}
	}
	return n
}

// ---------------------------------------------------------------------------
// C08.R9: the filters gate what the producers queue and enter.

// anyFieldName: v is a load of a struct field (through a pointer or of a struct value); its name.
func anyFieldName(v ssa.Value) string {
	v = resolve(v)
	if n, _ := fieldLoadName(v); n != "" {
		return n
	}
	if fv, ok := v.(*ssa.Field); ok {
		if s := fieldNameV(fv); s != "?" {
			return s[strings.LastIndex(s, ".")+1:]
		}
	}
	return ""
}

// filterPassedIn: the facts say that the filter stored in `field` is not set, or
// that it was asked and accepted.
func filterPassedIn(fs factSet, field string, pkg *ssa.Package, depth int) bool {
	for k := range fs {
		switch x := k.v.(type) {
		case *ssa.BinOp:
			if x.Op != token.EQL && x.Op != token.NEQ {
				continue
			}
			var other ssa.Value
			if isNilConst(x.Y) {
				other = x.X
			} else if isNilConst(x.X) {
				other = x.Y
			} else {
				continue
			}
			if anyFieldName(other) == field && ((x.Op == token.EQL) == k.pol) {
				return true
			}
		case *ssa.Call:
			if h := x.Call.StaticCallee(); h != nil {
				if h.Pkg == pkg && h.Blocks != nil && depth < 3 && boolImpliesFilter(h, k.pol, field, depth+1) {
					return true
				}
				continue
			}
			if k.pol && !x.Call.IsInvoke() && anyFieldName(x.Call.Value) == field {
				return true
			}
		}
	}
	return false
}

// boolImpliesFilter: whenever the bool function h returns `want`, the filter in
// `field` was not set or accepted.
func boolImpliesFilter(h *ssa.Function, want bool, field string, depth int) bool {
	res := h.Signature.Results()
	if res.Len() != 1 || !isBoolType(res.At(0).Type()) {
		return false
	}
	facts := factsFor(h)
	var impl func(v ssa.Value, want bool, fs factSet, seen map[ssa.Value]bool) bool
	impl = func(v ssa.Value, want bool, fs factSet, seen map[ssa.Value]bool) bool {
		if filterPassedIn(fs, field, h.Pkg, depth) {
			return true
		}
		v = resolve(v)
		if b, ok := constBool(v); ok {
			return b != want
		}
		switch x := v.(type) {
		case *ssa.UnOp:
			if x.Op == token.NOT {
				return impl(x.X, !want, fs, seen)
			}
		case *ssa.BinOp:
			if x.Op == token.EQL || x.Op == token.NEQ {
				var other ssa.Value
				if isNilConst(x.Y) {
					other = x.X
				} else if isNilConst(x.X) {
					other = x.Y
				}
				if other != nil && anyFieldName(other) == field {
					return (x.Op == token.EQL) == want
				}
			}
		case *ssa.Call:
			if g := x.Call.StaticCallee(); g != nil {
				return g.Pkg == h.Pkg && g.Blocks != nil && g != h && depth < 3 && boolImpliesFilter(g, want, field, depth+1)
			}
			return want && !x.Call.IsInvoke() && anyFieldName(x.Call.Value) == field
		case *ssa.Phi:
			if seen[v] {
				return true
			}
			seen[v] = true
			for i, e := range x.Edges {
				if !impl(e, want, factsOnEdge(facts, x.Block().Preds[i], x.Block()), seen) {
					return false
				}
			}
			return true
		}
		return false
	}
	rets := returnsOf(h)
	if len(rets) == 0 {
		return false
	}
	for _, r := range rets {
		ok := facts.HoldsOnAllEdges(r.Block(), func(fs factSet) bool { return filterPassedIn(fs, field, h.Pkg, depth) })
		if !ok && !impl(r.Results[0], want, facts.At(r.Block()), map[ssa.Value]bool{}) {
			return false
		}
	}
	return true
}

func isBoolType(t types.Type) bool {
	b, ok := t.Underlying().(*types.Basic)
	return ok && b.Kind() == types.Bool
}

// ruleFiltersGate: inside the producers every send on the directory queue, every
// listing of a sub-directory and every producer started for one happens only where
// DirFilter is unset or accepted the directory; every send on the file queue only
// where FileFilter is unset or accepted the file.  A site in a helper that does not
// establish this itself is judged at the helper's call sites.
func ruleFiltersGate(c *Ctx, rule string, prodLoop *ssa.Function) int {
	pkg := prodLoop.Pkg
	group := map[*ssa.Function]bool{}
	var walk func(f *ssa.Function)
	walk = func(f *ssa.Function) {
		if f == nil || group[f] || f.Pkg != pkg || f.Blocks == nil {
			return
		}
		group[f] = true
		for _, ci := range Calls(f) {
			if ci.Static != nil {
				walk(ci.Static)
			}
		}
		for _, an := range f.AnonFuncs {
			walk(an)
		}
	}
	walk(prodLoop)
	callers := map[*ssa.Function][]*CallInfo{}
	callerFn := map[*CallInfo]*ssa.Function{}
	for f := range group {
		for _, ci := range Calls(f) {
			if ci.Static != nil && group[ci.Static] {
				callers[ci.Static] = append(callers[ci.Static], ci)
				callerFn[ci] = f
			}
		}
	}
	var gated func(f *ssa.Function, b *ssa.BasicBlock, field string, onPath map[*ssa.Function]bool) (bool, string)
	gated = func(f *ssa.Function, b *ssa.BasicBlock, field string, onPath map[*ssa.Function]bool) (bool, string) {
		if factsFor(f).HoldsOnAllEdges(b, func(fs factSet) bool { return filterPassedIn(fs, field, pkg, 0) }) {
			return true, ""
		}
		// no callers left, or back in a function already on the way up: a call chain without the test
		if onPath[f] || len(callers[f]) == 0 || len(onPath) > 3 {
			return false, fname(f)
		}
		onPath[f] = true
		defer delete(onPath, f)
		for _, ci := range callers[f] {
			if ok, where := gated(callerFn[ci], ci.Block, field, onPath); !ok {
				return false, where
			}
		}
		return true, ""
	}
	n := 0
	ord := map[string]int{}
	judge := func(f *ssa.Function, b *ssa.BasicBlock, pos token.Pos, what, field string) {
		n++
		ord[what+fname(f)]++
		if k := ord[what+fname(f)]; k > 1 {
			what = fmt.Sprintf("%s (#%d)", what, k)
		}
		ok, where := gated(f, b, field, map[*ssa.Function]bool{})
		c.Check(ok, rule, what+" in "+fname(f), pos, "only where "+field+" is unset or accepted the node",
			"reachable (through "+where+") on a path on which "+field+" is set and was not asked, or rejected the node — a rejected node is queued for its callback, or a rejected directory is entered and everything below it is visited")
	}
	var fns []*ssa.Function
	for f := range group {
		fns = append(fns, f)
	}
	sort.Slice(fns, func(i, j int) bool { return fns[i].Pos() < fns[j].Pos() })
	for _, f := range fns {
		f := f
		eachInstr(f, func(b *ssa.BasicBlock, _ int, in ssa.Instruction) {
			for _, qs := range queueSendsIn(f) {
				if qs.in != in {
					continue
				}
				switch qs.name {
				case "dirChan":
					judge(f, b, in.Pos(), "send on dirChan", "DirFilter")
				case "fileChan":
					judge(f, b, in.Pos(), "send on fileChan", "FileFilter")
				}
			}
			switch x := in.(type) {
			case *ssa.Go:
				if x.Call.StaticCallee() == prodLoop {
					judge(f, b, x.Pos(), "producer started for a sub-directory", "DirFilter")
				}
			case *ssa.Call:
				if x.Call.IsInvoke() && x.Call.Method.Name() == "ReadDir" {
					// the producer's own directory was judged where the producer was started
					own := true
					for _, o := range Origins(x.Call.Args[0], FlowOpts{Transparent: pathTransparent}) {
						if o.Kind != "field" && o.Kind != "const" {
							own = false
						}
					}
					if own && f == prodLoop {
						return
					}
					judge(f, b, x.Pos(), "listing of a sub-directory", "DirFilter")
				}
			}
		})
	}
	return n
}

// queueSend: a place where a path is put on one of the loop's queues.
type queueSend struct {
	in    ssa.Instruction
	block *ssa.BasicBlock
	name  string // dirChan | fileChan
}

// queueSendsIn: sends on a queue field in f - a send statement, the send case of a select, or a
// call of a function of the package that sends on a channel parameter for which f passes a queue field.
func queueSendsIn(f *ssa.Function) []queueSend {
	var out []queueSend
	chanName := func(v ssa.Value) string {
		n, _ := fieldLoadName(v)
		if n == "dirChan" || n == "fileChan" {
			return n
		}
		return ""
	}
	sendsOnParam := func(g *ssa.Function) map[int]bool {
		res := map[int]bool{}
		if g == nil || g.Blocks == nil {
			return res
		}
		idx := map[ssa.Value]int{}
		for i, p := range g.Params {
			idx[p] = i
		}
		eachInstr(g, func(_ *ssa.BasicBlock, _ int, in ssa.Instruction) {
			switch x := in.(type) {
			case *ssa.Send:
				if i, ok := idx[x.Chan]; ok {
					res[i] = true
				}
			case *ssa.Select:
				for _, st := range x.States {
					if st.Dir == types.SendOnly {
						if i, ok := idx[st.Chan]; ok {
							res[i] = true
						}
					}
				}
			}
		})
		return res
	}
	eachInstr(f, func(b *ssa.BasicBlock, _ int, in ssa.Instruction) {
		switch x := in.(type) {
		case *ssa.Send:
			if n := chanName(x.Chan); n != "" {
				out = append(out, queueSend{in, b, n})
			}
		case *ssa.Select:
			for _, st := range x.States {
				if st.Dir == types.SendOnly {
					if n := chanName(st.Chan); n != "" {
						out = append(out, queueSend{in, b, n})
					}
				}
			}
		case *ssa.Call:
			g := x.Call.StaticCallee()
			if g == nil || g.Pkg != f.Pkg || g == f {
				return
			}
			for i := range sendsOnParam(g) {
				if i < len(x.Call.Args) {
					if n := chanName(x.Call.Args[i]); n != "" {
						out = append(out, queueSend{in, b, n})
					}
				}
			}
		}
	})
	return out
}
