package main

// Walker completeness (second seeding round); shared by C04, C08, C19, C20:
// the tree walkers of package fsloop feed the tree copy, the template loaders
// and the translation loader.  A walker that drops entries makes all of them
// silently incomplete while still returning nil.

import (
	"fmt"
	"go/token"
	"go/types"

	"golang.org/x/tools/go/ssa"
)

func isFileInfo(t types.Type) bool {
	n, ok := types.Unalias(t).(*types.Named)
	if !ok || n.Obj().Pkg() == nil {
		return false
	}
	return (n.Obj().Pkg().Path() == "os" || n.Obj().Pkg().Path() == "io/fs") && n.Obj().Name() == "FileInfo"
}

var namePredicates = map[string]bool{
	"strings.HasPrefix": true, "strings.HasSuffix": true, "strings.Contains": true, "strings.ContainsAny": true, "strings.ContainsRune": true,
	"strings.EqualFold": true, "strings.Index": true, "strings.IndexByte": true, "strings.IndexAny": true, "strings.IndexRune": true, "strings.LastIndex": true,
	"strings.Compare": true, "strings.Count": true, "path.Match": true, "path/filepath.Match": true, "path.Ext": true, "path/filepath.Ext": true,
	"(*regexp.Regexp).MatchString": true, "regexp.MatchString": true, "regexp.(Regexp).MatchString": true,
}

// ruleWalkersVisitAll:
//
//	(a) a walker looks at an entry's name only to recognise "." and ".." (and to
//	    build the entry's path): any other test on the name selects entries by
//	    name and drops the rest;
//	(b) inside a listing loop of a walker that reports errors, a return leaves the
//	    walk early only with an error known to be non-nil.
func ruleWalkersVisitAll(c *Ctx, rule string) int {
	n := 0
	for _, f := range c.P.PkgFuncs("filesystem/fsloop") {
		for _, g := range withClosures(f) {
			if g.Blocks == nil {
				continue
			}
			// (a)
			nameCalls := 0
			bad := ""
			var pos token.Pos
			for _, ci := range Calls(g) {
				if ci.Method == nil || ci.Method.Name() != "Name" || ci.Recv() == nil || !isFileInfo(ci.Recv().Type()) {
					continue
				}
				nameCalls++
				v := ci.Value()
				if v == nil || v.Referrers() == nil {
					continue
				}
				for _, r := range *v.Referrers() {
					switch x := r.(type) {
					case *ssa.BinOp:
						switch x.Op {
						case token.ADD:
						case token.EQL, token.NEQ:
							other := x.Y
							if other == v {
								other = x.X
							}
							if s, ok := constString(other); !ok || (s != "." && s != "..") {
								bad, pos = fmt.Sprintf("the entry name is compared with %s", vdesc(other)), x.Pos()
							}
						default:
							// ordering comparisons (sorting a listing) select nothing
						}
					case *ssa.Call:
						if cf := x.Call.StaticCallee(); cf != nil && namePredicates[qualName(cf)] {
							bad, pos = "the entry name is tested with "+lastSeg(qualName(cf)), x.Pos()
						}
						if b, ok := x.Call.Value.(*ssa.Builtin); ok && b.Name() == "len" {
							bad, pos = "the length of the entry name is tested", x.Pos()
						}
					case *ssa.Slice, *ssa.Index, *ssa.Lookup:
						bad, pos = "part of the entry name is inspected", r.Pos()
					}
				}
			}
			if nameCalls > 0 {
				n++
				c.Check(bad == "", rule, "entry selection in "+fname(g), orPos(pos, g.Pos()), "names are only compared with \".\" and \"..\"",
					bad+" — entries are dropped by name (e.g. \".htaccess\", \".keep\") while the walk still reports success")
			}
			// (b)
			ei := errResultIndex(g.Signature)
			if ei < 0 {
				continue
			}
			facts := factsFor(g)
			for _, e := range loopBackEdges(g) {
				header := e[1]
				// does the loop handle listing entries?
				handles := false
				for _, b := range g.Blocks {
					if !inSameLoop(g, header, b) {
						continue
					}
					for _, in := range b.Instrs {
						if ci := callInfo(in, b, 0); ci != nil && ci.Method != nil && ci.Recv() != nil && isFileInfo(ci.Recv().Type()) {
							handles = true
						}
					}
				}
				if !handles {
					continue
				}
				// returns reachable from the body without passing the header
				seen := map[*ssa.BasicBlock]bool{header: true}
				var work []*ssa.BasicBlock
				for _, s := range header.Succs {
					if inSameLoop(g, header, s) {
						work = append(work, s)
					}
				}
				for len(work) > 0 {
					b := work[len(work)-1]
					work = work[:len(work)-1]
					if seen[b] {
						continue
					}
					seen[b] = true
					if len(b.Instrs) > 0 {
						if r, ok := b.Instrs[len(b.Instrs)-1].(*ssa.Return); ok && ei < len(r.Results) {
							n++
							ev := r.Results[ei]
							ok := facts.HoldsOnAllEdges(b, func(fs factSet) bool { return knownNilIn(fs, ev, false) })
							c.Check(ok, rule, fmt.Sprintf("early return in the listing loop of %s", fname(g)), r.Pos(), "leaves the walk only with a non-nil error",
								"the walk can return from inside its listing loop with a nil error — the remaining entries of the directory are never visited and the caller is told everything went well")
						}
					}
					work = append(work, b.Succs...)
				}
			}
		}
	}
	return n
}
