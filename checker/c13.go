package main

import (
	"fmt"
	"go/token"
	"go/types"
	"strings"

	"golang.org/x/tools/go/ssa"
)

const dataPkg = "app/scope/datascope"

func init() {
	register(&PropDef{ID: "C13", Title: "Data scope: child overlays parent, locked sections are atomic", Rules: rulesC13,
		Explanation: "Decided (structural necessary conditions): R1 the three value maps (DataScope.Data — exported, searched module-wide —, DataChildScope.data, DataLocker.data) are read and written only under their mutex; R2 every LockData returns, on all paths, holding the scope's mutex in WRITE mode and hands the locker the Unlock method value of that very mutex; R3 DataLocker.Commit calls the stored unlock exactly once on every path; R4 a child's/locker's Value returns its own entry on the hit edge and parent.Value(same key) on the miss edge, read-type methods never write a map, and child/locker use their parent only through read-only methods (so SetValue on a child cannot change the parent and a read cannot freeze a stale copy); R5 every get-or-create in the module (SetValue(k, fresh) guarded by a nil result of Value(k)) does both calls on the locker obtained from LockData() in that function and reaches Commit() on every path. " +
			"Added in round 4: R3 exempts only the failing edge of a once-guard `atomic.CompareAndSwap(&locker.flag, 0, non-zero)` on a field that is written nowhere else (a second Commit returns an error instead of unlocking twice); R5 accepts Commit in a deferred function literal that commits on every path. " +
			"Added in round 5: R6 Value and Keys of every scope type write nothing into a scope object (a child that remembers what it read through its parent keeps answering the old value). " +
			"Added in round 7: R5 also covers package datascope itself (a GetOrCreate(scope, key, factory) helper is judged like the services that used to spell the idiom out). " +
			"NOT decided: atomicity as observed under arbitrary interleavings beyond this lock discipline; values stored by users.",
	})
}

func rulesC13(c *Ctx) {
	le := NewLockEngine(c.P)
	ds := c.P.Named(dataPkg, "DataScope")
	ch := c.P.Named(dataPkg, "DataChildScope")
	lk := c.P.Named(dataPkg, "DataLocker")
	if ds == nil || ch == nil || lk == nil {
		c.Bad("anchor", "datascope types", 0, "DataScope/DataChildScope/DataLocker not found; cannot certify")
		return
	}
	pkgFns := c.P.PkgFuncs(dataPkg)
	allFns := c.P.AllModuleFuncs()

	// ---- R1 guarded-by ------------------------------------------------------
	n1 := guardedAccessRule(c, le, "R1", allFns, ds, "Data", "mu", nil)
	n1 += guardedAccessRule(c, le, "R1", pkgFns, ch, "data", "mu", nil)
	n1 += guardedAccessRule(c, le, "R1", pkgFns, lk, "data", "mu", func(v GuardVerdict) string {
		if strings.HasSuffix(fname(v.Acc.Fn), "(*DataLocker).Commit") && v.Acc.Kind == "write" {
			return "Commit ends the locker's life: the locker is owned by the goroutine inside its locked section (named exemption: DataLocker.Commit)"
		}
		return ""
	})
	c.Floor("R1", n1, 9)

	// ---- R2 LockData hands over a held write lock ------------------------------
	n2 := 0
	// the locker's unlock slot: its func-typed field
	unlockField := ""
	if lst, ok := lk.Underlying().(*types.Struct); ok {
		for i := 0; i < lst.NumFields(); i++ {
			if _, isFn := lst.Field(i).Type().Underlying().(*types.Signature); isFn {
				unlockField = refFieldName(lastSeg(typeString(lk)), lst.Field(i).Name())
			}
		}
	}
	storesUnlock := func(g *ssa.Function, v ssa.Value) bool {
		// g stores v into the locker's unlock slot
		found := false
		eachInstr(g, func(_ *ssa.BasicBlock, _ int, in ssa.Instruction) {
			if st, ok := in.(*ssa.Store); ok {
				if fa, ok := st.Addr.(*ssa.FieldAddr); ok && strings.HasSuffix(fieldName(fa), ".DataLocker."+unlockField) {
					if unwrapChange(resolve(st.Val)) == v || resolve(st.Val) == v {
						found = true
					}
				}
			}
		})
		return found
	}
	for _, T := range []*types.Named{ds, ch, lk} {
		f := c.P.Func(dataPkg, T.Obj().Name(), "LockData")
		con := "datascope.(" + T.Obj().Name() + ").LockData"
		if f == nil || unlockField == "" {
			c.Bad("R2", con, 0, "anchor not found")
			continue
		}
		n2++
		sum := le.summary(f, 0)
		// the mutex of the receiver held in W mode at every return
		want := ""
		tst := T.Underlying().(*types.Struct)
		for k, m := range sum.HeldAtExit {
			for i := 0; i < tst.NumFields(); i++ {
				ts := tst.Field(i).Type().String()
				if (ts == "sync.Mutex" || ts == "sync.RWMutex") && k == fmt.Sprintf("param:%s.&f%d", f.Params[0].Name(), i) {
					if m == 'W' {
						want = k
					}
				}
			}
		}
		okHeld := want != ""
		// the unlock handed to the locker: a bound Unlock of that very mutex, stored into the locker
		okCB := false
		cbWhy := "no unlock callback is handed to the locker"
		eachInstr(f, func(_ *ssa.BasicBlock, _ int, in ssa.Instruction) {
			mc, ok := in.(*ssa.MakeClosure)
			if !ok {
				return
			}
			fn, ok := mc.Fn.(*ssa.Function)
			if !ok || fn.Object() == nil || len(mc.Bindings) != 1 {
				return
			}
			q := qualObj(fn.Object().(*types.Func))
			if !strings.HasPrefix(q, "sync.(") {
				return
			}
			// where does it go?
			reaches := storesUnlock(f, mc)
			for _, ci := range Calls(f) {
				if ci.Static != nil && ci.Static.Pkg == f.Pkg {
					for ai, a := range ci.Common.Args {
						if unwrapChange(resolve(a)) == ssa.Value(mc) && ai < len(ci.Static.Params) && storesUnlock(ci.Static, ci.Static.Params[ai]) {
							reaches = true
						}
					}
				}
			}
			if !reaches {
				return
			}
			switch {
			case (q == "sync.(RWMutex).Unlock" || q == "sync.(Mutex).Unlock") && keyP(mc.Bindings[0]) == want:
				okCB = true
			case strings.HasSuffix(q, "RUnlock"):
				cbWhy = "the callback releases a READ lock"
			default:
				cbWhy = "the unlock callback is not the Unlock method value of the scope's own mutex"
			}
		})
		// the callback may be produced by a private helper of the same receiver that locks and
		// returns the Unlock method value (acquire() func())
		if !okCB {
			for _, hc := range Calls(f) {
				h := hc.Static
				if h == nil || h.Pkg != f.Pkg || h.Blocks == nil || len(hc.Common.Args) == 0 || hc.Common.Args[0] != ssa.Value(f.Params[0]) || len(h.Params) == 0 {
					continue
				}
				hv := hc.Value()
				if hv == nil {
					continue
				}
				// every return of h is the Unlock method value of a mutex of its receiver
				good, kind := true, ""
				for _, r := range returnsOf(h) {
					if len(r.Results) != 1 {
						good = false
						continue
					}
					mc, ok := unwrapChange(resolve(r.Results[0])).(*ssa.MakeClosure)
					if !ok || len(mc.Bindings) != 1 {
						good = false
						continue
					}
					fn, ok := mc.Fn.(*ssa.Function)
					if !ok || fn.Object() == nil {
						good = false
						continue
					}
					q := qualObj(fn.Object().(*types.Func))
					translated := strings.Replace(keyP(mc.Bindings[0]), "param:"+h.Params[0].Name(), "param:"+f.Params[0].Name(), 1)
					if translated != want {
						good = false
					}
					kind = q
				}
				if !good || kind == "" {
					continue
				}
				reaches := storesUnlock(f, hv)
				for _, ci := range Calls(f) {
					if ci.Static != nil && ci.Static.Pkg == f.Pkg {
						for ai, a := range ci.Common.Args {
							if (unwrapChange(resolve(a)) == hv || resolve(a) == hv) && ai < len(ci.Static.Params) && storesUnlock(ci.Static, ci.Static.Params[ai]) {
								reaches = true
							}
						}
					}
				}
				if !reaches {
					continue
				}
				switch {
				case kind == "sync.(RWMutex).Unlock" || kind == "sync.(Mutex).Unlock":
					okCB = true
				case strings.HasSuffix(kind, "RUnlock"):
					cbWhy = "the callback releases a READ lock"
				}
			}
		}
		why := ""
		if !okHeld {
			why = "LockData does not return holding the scope's mutex in write mode on every path (held: " + fmtLockset(sum.HeldAtExit) + ")"
		} else if !okCB {
			why = cbWhy
		}
		c.Check(okHeld && okCB, "R2", con, f.Pos(), "returns holding "+want+" in W mode and hands over its Unlock",
			why+" — two holders can be inside their locked sections at once (lost read-modify-write)")
	}
	c.Floor("R2", n2, 3)

	// ---- R3 Commit releases exactly once -------------------------------------------
	commit := c.P.Func(dataPkg, "DataLocker", "Commit")
	if commit == nil {
		c.Bad("R3", "datascope.(*DataLocker).Commit", 0, "anchor not found")
	} else {
		isUnlockCall := func(in ssa.Instruction) bool {
			call, ok := in.(*ssa.Call)
			if !ok || call.Call.IsInvoke() || call.Call.StaticCallee() != nil {
				return false
			}
			n, _ := fieldLoadName(resolve(call.Call.Value))
			return n != "" && n == unlockField
		}
		// a once-guard: `if !atomic.CompareAndSwapT(&locker.flag, 0, 1) { return err }` - the failing edge is
		// taken only by a Commit that follows one which passed the guard (and released the lock)
		cfacts := factsFor(commit)
		onceCAS := func(v ssa.Value) bool {
			call, ok := v.(*ssa.Call)
			if !ok {
				return false
			}
			cal := call.Call.StaticCallee()
			if cal == nil || cal.Pkg == nil || cal.Pkg.Pkg.Path() != "sync/atomic" || !strings.HasPrefix(cal.Name(), "CompareAndSwap") || len(call.Call.Args) != 3 {
				return false
			}
			fa, ok := call.Call.Args[0].(*ssa.FieldAddr)
			if !ok || fa.X != ssa.Value(commit.Params[0]) {
				return false
			}
			if o, ok := constInt(call.Call.Args[1]); !ok || o != 0 {
				return false
			}
			if nw, ok := constInt(call.Call.Args[2]); !ok || nw == 0 {
				return false
			}
			// the flag is written nowhere else
			fld := fieldName(fa)
			sole := true
			for _, g := range pkgFns {
				eachInstr(g, func(_ *ssa.BasicBlock, _ int, in ssa.Instruction) {
					if in == ssa.Instruction(call) {
						return
					}
					for _, op := range in.Operands(nil) {
						if op == nil || *op == nil {
							continue
						}
						if fa2, ok := (*op).(*ssa.FieldAddr); ok && fieldName(fa2) == fld && fa2 != fa {
							// any other use of the flag's address but an atomic load
							if c2, isC := in.(*ssa.Call); isC && c2.Call.StaticCallee() != nil && c2.Call.StaticCallee().Pkg != nil &&
								c2.Call.StaticCallee().Pkg.Pkg.Path() == "sync/atomic" && strings.HasPrefix(c2.Call.StaticCallee().Name(), "Load") {
								continue
							}
							sole = false
						}
					}
				})
			}
			return sole
		}
		feasible := func(_ int, pred, succ *ssa.BasicBlock) bool {
			for k := range factsOnEdge(cfacts, pred, succ) {
				if !k.pol && onceCAS(k.v) {
					return false
				}
				// the stored unlock is nil (an earlier Commit took it out): there is nothing to call
				if bo, ok := k.v.(*ssa.BinOp); ok && (bo.Op == token.EQL || bo.Op == token.NEQ) && isNilConst(bo.Y) && (bo.Op == token.EQL) == k.pol {
					if n, _ := fieldLoadName(resolve(bo.X)); n != "" && n == unlockField {
						return false
					}
				}
			}
			return true
		}
		exits := RunPaths(commit, nil, 0, func(st int, in ssa.Instruction, deferred bool) int {
			hit := isUnlockCall(in)
			if d, ok := in.(*ssa.Defer); ok && deferred {
				if n, _ := fieldLoadName(d.Call.Value); n != "" && n == unlockField {
					hit = true
				}
			}
			if hit && st < 2 {
				return st + 1
			}
			return st
		}, false, feasible)
		ok := len(exits) > 0
		for _, e := range exits {
			if e.State != 1 {
				ok = false
			}
		}
		c.Check(ok, "R3", "datascope.(*DataLocker).Commit", commit.Pos(), "the stored unlock is called exactly once on every path", "Commit does not call the stored unlock exactly once on every path — the scope stays locked (or is unlocked twice: panic)")
	}

	// ---- R6 reads remember nothing: Value/Keys do not write the scope object -----------------------
	// (a child that memoises what it read through its parent keeps answering the old value after the
	// parent replaced or cleared the key)
	{
		n6 := 0
		for _, f := range pkgFns {
			if f.Signature.Recv() == nil || (f.Name() != "Value" && f.Name() != "Keys") || f.Parent() != nil {
				continue
			}
			n6++
			bad, pos := writesOwnPackageState(f, dataPkg)
			c.Check(bad == "", "R6", fname(f)+" keeps no memo", orPos(pos, f.Pos()), "the read writes nothing into a scope object",
				bad+" during a read — a value remembered from the parent is not the parent's current value once the parent changes it")
		}
		c.Floor("R6", n6, 4)
	}

	// ---- R4 overlay direction ---------------------------------------------------------
	n4 := 0
	readOnly := map[string]bool{"Value": true, "Keys": true}
	for _, T := range []*types.Named{ch, lk} {
		tn := "datascope.(" + T.Obj().Name() + ")"
		// parent only through read-only methods
		bad := ""
		uses := 0
		for _, f := range pkgFns {
			if f.Signature.Recv() == nil {
				continue
			}
			rt := f.Signature.Recv().Type()
			if pt, ok := rt.(*types.Pointer); ok {
				rt = pt.Elem()
			}
			if !types.Identical(rt, T) {
				continue
			}
			for _, ci := range Calls(f) {
				if ci.Method == nil {
					continue
				}
				if n, _ := fieldLoadName(ci.Recv()); n != "parent" {
					continue
				}
				uses++
				if !readOnly[ci.Method.Name()] {
					bad = fname(f) + " calls parent." + ci.Method.Name()
				}
			}
		}
		n4++
		c.Check(bad == "" && uses > 0, "R4", tn+" uses its parent read-only", T.Obj().Pos(), fmt.Sprintf("%d call(s) on the parent, all Value/Keys", uses), bad+" — writing through a child changes the parent")
		// Value: hit -> own entry, miss -> parent.Value(key)
		vf := c.P.Func(dataPkg, T.Obj().Name(), "Value")
		if vf == nil {
			c.Bad("R4", tn+".Value overlay", 0, "anchor not found")
			continue
		}
		n4++
		ok, why := valueOverlays(vf)
		c.Check(ok, "R4", tn+".Value overlay", vf.Pos(), "own entry on the hit edge, parent.Value(key) on the miss edge", why+" — the child does not overlay the parent")
	}
	// read-type methods never write
	for _, T := range []*types.Named{ds, ch, lk} {
		for _, mn := range []string{"Value", "Keys"} {
			f := c.P.Func(dataPkg, T.Obj().Name(), mn)
			if f == nil {
				continue
			}
			n4++
			w := ""
			eachInstr(f, func(_ *ssa.BasicBlock, _ int, in ssa.Instruction) {
				switch x := in.(type) {
				case *ssa.MapUpdate:
					if n, _ := fieldLoadName(x.Map); n != "" {
						w = "updates map field " + n
					}
				case *ssa.Call:
					if b, ok := x.Call.Value.(*ssa.Builtin); ok && b.Name() == "delete" {
						w = "deletes from a map"
					}
					if x.Call.Method != nil && x.Call.Method.Name() == "SetValue" {
						w = "calls SetValue"
					}
				}
			})
			c.Check(w == "", "R4", "datascope.("+T.Obj().Name()+")."+mn+" is a pure read", f.Pos(), "no map write", mn+" "+w+" — a read freezes a copy of the parent's value in the child (later parent changes are invisible) and adds keys")
		}
	}
	c.Floor("R4", n4, 10)

	// ---- R5 get-or-create goes through the locker -----------------------------------------
	ruleGetOrCreate(c, allFns)
}

func isDataMethod(ci *CallInfo, name string) bool {
	if ci.Method != nil && ci.Method.Name() == name {
		p := ci.Method.Pkg()
		return p != nil && p.Path() == modPath+"/app"
	}
	if ci.Static != nil && ci.Static.Name() == name && ci.Static.Pkg != nil && strings.HasPrefix(ci.Static.Pkg.Pkg.Path(), modPath+"/"+dataPkg) {
		return true
	}
	return false
}

func ruleGetOrCreate(c *Ctx, fns []*ssa.Function) {
	n := 0
	for _, f := range fns {
		var sets, gets, locks []*CallInfo
		for _, ci := range Calls(f) {
			switch {
			case isDataMethod(ci, "SetValue"):
				sets = append(sets, ci)
			case isDataMethod(ci, "Value"):
				gets = append(gets, ci)
			case isDataMethod(ci, "LockData"):
				locks = append(locks, ci)
			}
		}
		if len(sets) == 0 || len(gets) == 0 {
			continue
		}
		facts := factsFor(f)
		for _, s := range sets {
			// is this SetValue guarded by "Value(same key) == nil"?
			var guard *CallInfo
			for _, g := range gets {
				gv := g.Value()
				if gv == nil || !sameValue(g.Arg(0), s.Arg(0)) {
					continue
				}
				if facts.KnownNil(s.Block, gv, true) {
					guard = g
				}
			}
			if guard == nil {
				continue // plain set, not a get-or-create
			}
			n++
			con := "get-or-create in " + fname(f)
			var lock *CallInfo
			for _, l := range locks {
				if lv := l.Value(); lv != nil && resolve(s.Recv()) == lv {
					lock = l
				}
			}
			switch {
			case lock == nil:
				c.Bad("R5", con, s.Pos(), "the value is created and stored without the scope's data lock (SetValue is not called on a locker obtained from LockData in this function) — two callers each create their own instance")
			case resolve(guard.Recv()) != lock.Value():
				c.Bad("R5", con, guard.Pos(), "the emptiness test that decides the creation reads the scope outside the locked section (Value is not called on the locker) — two callers both see 'missing' and each create an instance")
			default:
				lv := lock.Value()
				isCommit := func(in ssa.Instruction) bool {
					ci := callInfo(in, nil, 0)
					if ci == nil || !isDataMethod(ci, "Commit") {
						return false
					}
					rv := resolve(ci.Recv())
					if rv == lv {
						return true
					}
					// inside a function literal: the captured variable that holds the locker
					if u, isU := rv.(*ssa.UnOp); isU && u.Op == token.MUL {
						if fv, isFV := u.X.(*ssa.FreeVar); isFV {
							if a, isA := bindingOf(fv).(*ssa.Alloc); isA {
								if st := uniqueStore(a); st != nil && resolve(st.Val) == lv {
									return true
								}
							}
						}
					}
					return false
				}
				bad := MustPass(f, lock.Instr, func(in ssa.Instruction) bool {
					if isCommit(in) {
						return true
					}
					// defer func() { ... locker.Commit() ... }(): the literal commits on every path
					if d, isD := in.(*ssa.Defer); isD {
						if mc, isMC := d.Call.Value.(*ssa.MakeClosure); isMC {
							if fn, isFn := mc.Fn.(*ssa.Function); isFn && fn.Blocks != nil {
								return len(MustPass(fn, nil, isCommit)) == 0
							}
						}
					}
					return false
				})
				c.Check(len(bad) == 0, "R5", con, s.Pos(), "test and store on the locker from LockData(); Commit() on every path",
					"a return is reachable without Commit(): the scope's data stays locked")
			}
		}
	}
	c.Floor("R5", n, 1)
}

// ownLookup: where a function reads the scope's own entry for a key.
type ownLookup struct {
	vals []ssa.Value // values that are the own entry
	oks  []ssa.Value // booleans that are true iff the own entry exists
}

func isOwnMap(v ssa.Value, recv ssa.Value) bool {
	u, ok := v.(*ssa.UnOp)
	if !ok {
		return false
	}
	fa, ok := u.X.(*ssa.FieldAddr)
	if !ok || fa.X != recv {
		return false
	}
	_, isMap := u.Type().Underlying().(*types.Map)
	return isMap
}

// ownLookupsIn: lookups of `key` in a map field of the receiver, directly or
// through a private helper of the same type that returns (entry, present) or a
// small struct holding the two.
func ownLookupsIn(f *ssa.Function, key ssa.Value, depth int) ownLookup {
	var out ownLookup
	if len(f.Params) == 0 {
		return out
	}
	recv := ssa.Value(f.Params[0])
	eachInstr(f, func(_ *ssa.BasicBlock, _ int, in ssa.Instruction) {
		switch x := in.(type) {
		case *ssa.Lookup:
			if x.Index != key || !isOwnMap(x.X, recv) {
				return
			}
			if x.CommaOk {
				out.vals = append(out.vals, resultN(x, 0)...)
				out.oks = append(out.oks, resultN(x, 1)...)
			} else {
				out.vals = append(out.vals, x)
			}
		case *ssa.Call:
			h := x.Call.StaticCallee()
			if h == nil || h.Pkg != f.Pkg || h.Blocks == nil || depth >= 2 || len(h.Params) < 2 || len(x.Call.Args) < 2 || x.Call.Args[0] != recv {
				return
			}
			ki := -1
			for i, a := range x.Call.Args {
				if a == key {
					ki = i
				}
			}
			if ki < 0 {
				return
			}
			inner := ownLookupsIn(h, h.Params[ki], depth+1)
			if len(inner.vals) == 0 {
				return
			}
			isVal := func(v ssa.Value) bool {
				for _, w := range inner.vals {
					if resolve(v) == w {
						return true
					}
				}
				return false
			}
			isOk := func(v ssa.Value) bool {
				for _, w := range inner.oks {
					if resolve(v) == w {
						return true
					}
				}
				return false
			}
			res := h.Signature.Results()
			switch {
			case res.Len() == 2:
				good := true
				for _, r := range returnsOf(h) {
					if !isVal(r.Results[0]) || !isOk(r.Results[1]) {
						good = false
					}
				}
				if good {
					out.vals = append(out.vals, resultN(x, 0)...)
					out.oks = append(out.oks, resultN(x, 1)...)
				}
			case res.Len() == 1:
				st, isStruct := res.At(0).Type().Underlying().(*types.Struct)
				if !isStruct {
					// a helper returning the entry only
					good := true
					for _, r := range returnsOf(h) {
						if !isVal(r.Results[0]) {
							good = false
						}
					}
					if good {
						out.vals = append(out.vals, x)
					}
					return
				}
				// which field holds the entry, which the presence flag
				vi, oi := -1, -1
				eachInstr(h, func(_ *ssa.BasicBlock, _ int, in2 ssa.Instruction) {
					if s2, ok := in2.(*ssa.Store); ok {
						if fa, ok := s2.Addr.(*ssa.FieldAddr); ok && fa.Field < st.NumFields() {
							if isVal(s2.Val) {
								vi = fa.Field
							}
							if isOk(s2.Val) {
								oi = fa.Field
							}
						}
					}
				})
				if vi < 0 || oi < 0 || x.Referrers() == nil {
					return
				}
				for _, r := range *x.Referrers() {
					if fld, ok := r.(*ssa.Field); ok {
						if fld.Field == vi {
							out.vals = append(out.vals, fld)
						}
						if fld.Field == oi {
							out.oks = append(out.oks, fld)
						}
					}
				}
				// the result may be spilled to a local first
				for _, r := range *x.Referrers() {
					if s3, ok := r.(*ssa.Store); ok {
						if a, ok := s3.Addr.(*ssa.Alloc); ok {
							for _, ar := range *a.Referrers() {
								if fa, ok := ar.(*ssa.FieldAddr); ok {
									for _, lr := range *fa.Referrers() {
										if ld, ok := lr.(*ssa.UnOp); ok {
											if fa.Field == vi {
												out.vals = append(out.vals, ld)
											}
											if fa.Field == oi {
												out.oks = append(out.oks, ld)
											}
										}
									}
								}
							}
						}
					}
				}
			}
		}
	})
	return out
}

// valueOverlays: every return of Value is the own entry where it is known to
// exist (or there is no parent), nil, or parent.Value(key) where the own entry is
// known to be missing (its presence flag is false, or the own map is empty).
func valueOverlays(vf *ssa.Function) (bool, string) {
	if len(vf.Params) < 2 {
		return false, "unexpected signature"
	}
	facts := factsFor(vf)
	key := ssa.Value(vf.Params[1])
	recv := ssa.Value(vf.Params[0])
	ol := ownLookupsIn(vf, key, 0)
	if len(ol.vals) == 0 {
		return false, "no lookup of the key in the scope's own map"
	}
	isVal := func(v ssa.Value) bool {
		for _, w := range ol.vals {
			if v == w || resolve(v) == w {
				return true
			}
		}
		return false
	}
	onAll := func(b *ssa.BasicBlock, pred func(fs factSet) bool) bool { return facts.HoldsOnAllEdges(b, pred) }
	known := func(fs factSet, want bool) bool {
		for _, o := range ol.oks {
			ro := resolve(o)
			for k := range fs {
				if (k.v == o || resolve(k.v) == ro || sameValue(resolve(k.v), ro)) && k.pol == want {
					return true
				}
			}
		}
		return false
	}
	ownEmpty := func(fs factSet) bool {
		for k := range fs {
			bo, ok := k.v.(*ssa.BinOp)
			if !ok {
				continue
			}
			if lenZeroField(bo, k.pol) != "" {
				if lc, ok := bo.X.(*ssa.Call); ok && len(lc.Call.Args) == 1 && isOwnMap(lc.Call.Args[0], recv) {
					return true
				}
			}
		}
		return false
	}
	parentNil := func(fs factSet) bool {
		for k := range fs {
			bo, ok := k.v.(*ssa.BinOp)
			if !ok || (bo.Op != token.EQL && bo.Op != token.NEQ) {
				continue
			}
			other := bo.X
			if isNilConst(bo.X) {
				other = bo.Y
			} else if !isNilConst(bo.Y) {
				continue
			}
			if n, _ := fieldLoadName(other); n == "parent" && ((bo.Op == token.EQL) == k.pol) {
				return true
			}
		}
		return false
	}
	ok, why := true, ""
	for _, r := range returnsOf(vf) {
		v := resolve(r.Results[0])
		alts := []struct {
			v  ssa.Value
			fs func(pred func(fs factSet) bool) bool
		}{}
		if p, isPhi := v.(*ssa.Phi); isPhi {
			for i, e := range p.Edges {
				pb, sb := p.Block().Preds[i], p.Block()
				alts = append(alts, struct {
					v  ssa.Value
					fs func(pred func(fs factSet) bool) bool
				}{resolve(e), func(pred func(fs factSet) bool) bool { return pred(factsOnEdge(facts, pb, sb)) }})
			}
		} else {
			b := r.Block()
			alts = append(alts, struct {
				v  ssa.Value
				fs func(pred func(fs factSet) bool) bool
			}{v, func(pred func(fs factSet) bool) bool { return onAll(b, pred) }})
		}
		for _, a := range alts {
			switch {
			case isVal(a.v):
				if !a.fs(func(fs factSet) bool { return known(fs, true) || parentNil(fs) }) {
					ok, why = false, "the own entry is returned without the hit being established"
				}
			case isNilConst(a.v):
			default:
				call, isCall := a.v.(*ssa.Call)
				if !isCall || call.Call.Method == nil || call.Call.Method.Name() != "Value" || len(call.Call.Args) != 1 || call.Call.Args[0] != key {
					ok, why = false, "a return is neither the own entry nor parent.Value(key)"
					continue
				}
				if n, _ := fieldLoadName(call.Call.Value); n != "parent" {
					ok, why = false, "the fallback does not ask the parent"
				}
				if !facts.HoldsOnAllEdges(call.Block(), func(fs factSet) bool { return known(fs, false) || ownEmpty(fs) }) {
					ok, why = false, "the parent is asked although the own entry was not established missing"
				}
			}
		}
	}
	return ok, why
}
