package main

import (
	"fmt"
	"go/token"
	"go/types"
	"regexp/syntax"
	"strings"

	"golang.org/x/tools/go/ssa"
)

const envsPkg = "app/modules/commonm/commservices/envs"

func init() {
	register(&PropDef{ID: "C18", Title: "Environment values reach sandbox shells verbatim, with no shell interpretation", Rules: rulesC18,
		Explanation: "Decided (structural necessary conditions, both script builders — dcmd.InitSequence and sshsb.(*SSHSandbox).initSequence): R1 the string that carries an environment value is rebuilt from the SSA concatenation as a template of constant pieces and symbolic holes (KEY, TAG, VALUE) and lexed as shell: VALUE must be the whole body of a here-document whose delimiter word is quoted (so the shell performs no expansion in the body), whose delimiter contains TAG, which starts right after the delimiter line and is closed by a line consisting of the same delimiter; VALUE may not appear anywhere else (e.g. inside a format string); R2 TAG derives from varutil.RandString with a constant length >= 8 evaluated inside the builder on every call (not a package-level or cached value), and the opening and closing delimiter are the same value; R3 every store into the environment map is dominated by a nil result of the key validator for that key (Set) or for the whole map being copied (SetAll), the validator errors exactly when the pattern does not match, and the pattern — parsed from the source constant with regexp/syntax — is anchored at both ends with a language included in [A-Za-z_][A-Za-z0-9_]*. " +
			"R2 also: varutil.RandString does not create or seed its generator on every call (no rand.NewSource/Seed/New inside it): a per-call clock seed makes the terminator predictable. " +
			"Added in round 6: R3 accepts a validator that collects every failure (append or a collector call) and returns the aggregate of the list, also in two phases (failing keys collected, then validated again for the messages) when validKey is shown to depend on its argument alone (no writes, no mutable reads, only pure callees). " +
			"Added in round 7: R3 requires that the name valid() hands to the validator and the name SetAll stores are the same form of the ranged map key (the key itself, or one and the same normaliser applied to it - not a trimmed copy validated and the original stored), and accepts a validator that collects the failing names, returns nil only where that list is known empty and otherwise a fresh error or the deterministic validator applied again to a collected name. " +
			"NOT decided: what /bin/sh does with the script beyond the POSIX rule used in R1 (a quoted delimiter disables expansion); values containing a line equal to the random delimiter (probabilistic argument, R2).",
	})
}

type tplPart struct {
	konst string
	hole  string // KEY | VALUE | TAG | ACC | OTHER:<desc>
	val   ssa.Value
}

// holeCtx: when a script piece is built inside a helper, the helper's
// parameters stand for what the builder passes in.
var holeCtx map[ssa.Value]string

// envMapCtx: parameters (of the helper being analysed) that receive Environments.All().
var envMapCtx map[ssa.Value]bool

// envHole classifies a non-constant part of the script concatenation.
func envHole(v ssa.Value) string {
	if h, ok := holeCtx[v]; ok {
		return h
	}
	// KEY / VALUE: extract of Next over Range(All())
	if ex, ok := v.(*ssa.Extract); ok {
		if nx, ok := ex.Tuple.(*ssa.Next); ok {
			if rg, ok := nx.Iter.(*ssa.Range); ok {
				isAllCall := func(x ssa.Value) bool {
					call, ok := resolve(x).(*ssa.Call)
					return ok && call.Call.Method != nil && call.Call.Method.Name() == "All"
				}
				isAll := isAllCall(rg.X)
				// `if envs != nil { all = envs.All() }`: the nil map (no environments) or All()
				if p, isPhi := resolve(rg.X).(*ssa.Phi); isPhi {
					nAll := 0
					isAll = true
					for _, e := range p.Edges {
						switch {
						case isAllCall(e):
							nAll++
						case isNilConst(resolve(e)):
						default:
							isAll = false
						}
					}
					isAll = isAll && nAll > 0
				}
				if isAll || envMapCtx[rg.X] {
					switch ex.Index {
					case 1:
						return "KEY"
					case 2:
						return "VALUE"
					}
				}
			}
		}
	}
	os := Origins(v, FlowOpts{})
	for _, o := range os {
		if o.Kind == "call" && strings.HasPrefix(o.Name, modPath+"/varutil.RandString#") {
			return "TAG"
		}
	}
	// a field of a small script-builder object that only ever holds a random tag
	if ld, ok := v.(*ssa.UnOp); ok {
		if fa, ok := ld.X.(*ssa.FieldAddr); ok && tagFieldProblem(fa, nil) == "" {
			return "TAG"
		}
	}
	return "OTHER:" + originsString(os)
}

// tagFieldProblem: "" when every store into the struct field addressed by fa (anywhere in its
// package) stores "const + RandString(n >= 8)" drawn inside the storing function, and - if builder
// is given - that function (the object's constructor) is called from the builder or one of its
// private helpers, i.e. a new object with a new tag exists per generated script.
func tagFieldProblem(fa *ssa.FieldAddr, builder *ssa.Function) string {
	fn := fieldName(fa)
	par := fa.Parent()
	if par == nil || par.Pkg == nil {
		return "cannot locate the field"
	}
	stores := 0
	var ctors []*ssa.Function
	problem := ""
	for _, m := range par.Pkg.Members {
		var fns []*ssa.Function
		if g, ok := m.(*ssa.Function); ok {
			fns = withClosures(g)
		}
		if t, ok := m.(*ssa.Type); ok {
			for _, tt := range []types.Type{t.Type(), types.NewPointer(t.Type())} {
				ms := par.Prog.MethodSets.MethodSet(tt)
				for i := 0; i < ms.Len(); i++ {
					if g := par.Prog.MethodValue(ms.At(i)); g != nil && g.Synthetic == "" {
						fns = append(fns, withClosures(g)...)
					}
				}
			}
		}
		for _, g := range fns {
			if g.Blocks == nil {
				continue
			}
			eachInstr(g, func(_ *ssa.BasicBlock, _ int, in ssa.Instruction) {
				st, ok := in.(*ssa.Store)
				if !ok {
					return
				}
				fa2, ok := st.Addr.(*ssa.FieldAddr)
				if !ok || fieldName(fa2) != fn {
					return
				}
				stores++
				okDraw := false
				for _, o := range Origins(st.Val, FlowOpts{}) {
					switch {
					case o.Kind == "const":
					case o.Kind == "call" && strings.HasPrefix(o.Name, modPath+"/varutil.RandString#"):
						call := o.Val.(*ssa.Call)
						if n, isC := constInt(call.Call.Args[0]); isC && n >= 8 && call.Parent() == g {
							okDraw = true
						} else {
							problem = "the random part of the terminator is shorter than 8 characters or not drawn where it is stored"
						}
					default:
						problem = "the tag field is also set from " + o.String()
					}
				}
				if !okDraw && problem == "" {
					problem = "the tag field is set without a random draw"
				}
				ctors = append(ctors, g)
			})
		}
	}
	if stores == 0 {
		return "the field is never set"
	}
	if problem != "" {
		return problem
	}
	if builder != nil {
		group := append([]*ssa.Function{builder}, reachableSamePkg(builder, 2)...)
		for _, k := range ctors {
			called := false
			for _, g := range group {
				for _, ci := range Calls(g) {
					if ci.Static == k {
						called = true
					}
				}
			}
			if !called && k != builder {
				return "the object that carries the terminator is not created by the builder on every call"
			}
		}
	}
	return ""
}

func rulesC18(c *Ctx) {
	builders := []*ssa.Function{
		c.P.Func("app/modules/ocm/ocservices/dcmd", "", "InitSequence"),
		c.P.Func("app/modules/pipelinem/pipservices/sandboxes/sshsb", "SSHSandbox", "initSequence"),
	}
	nb := 0
	for i, f := range builders {
		if f == nil {
			c.Bad("anchor", fmt.Sprintf("script builder #%d", i+1), 0, "anchor not found; cannot certify")
			continue
		}
		nb++
		ruleHeredoc(c, f)
	}
	// any other function of the module that puts an Environments.All() value into a string?
	for _, f := range c.P.AllModuleFuncs() {
		known := false
		for _, b := range builders {
			if b == f {
				known = true
			}
		}
		if known {
			continue
		}
		eachInstr(f, func(_ *ssa.BasicBlock, _ int, in ssa.Instruction) {
			if bo, ok := in.(*ssa.BinOp); ok && bo.Op == token.ADD {
				if envHole(bo.X) == "VALUE" || envHole(bo.Y) == "VALUE" {
					c.Bad("R1", "environment value concatenated in "+fname(f), bo.Pos(), "a third place builds a string from an environment value; it is not covered by the heredoc rule — cannot certify")
				}
			}
		})
	}
	c.Floor("R1", nb, 2)
	ruleEnvNames(c)
	ruleRandSource(c)
}

// ruleRandSource (R2): the generator behind the terminator is not re-seeded on
// every call.  A source created per call from the clock makes the terminator a
// function of the time of the call: two scripts generated in the same tick share
// it, and a value that embeds the terminator of a script seen a moment earlier
// closes the quoted here-document early.
func ruleRandSource(c *Ctx) {
	rs := c.P.Func("varutil", "", "RandString")
	if rs == nil {
		c.Bad("R2", "varutil.RandString", 0, "anchor not found")
		return
	}
	bad := ""
	var pos token.Pos = rs.Pos()
	fns := append([]*ssa.Function{rs}, reachableSamePkg(rs, 2)...)
	for _, f := range fns {
		for _, g := range withClosures(f) {
			for _, ci := range Calls(g) {
				if ci.Static == nil {
					continue
				}
				switch qualName(ci.Static) {
				case "math/rand.NewSource", "math/rand.Seed", "math/rand.New", "math/rand/v2.NewPCG", "math/rand/v2.New":
					bad, pos = lastSeg(qualName(ci.Static))+" is called inside "+fname(g)+" on every call", ci.Pos()
				}
			}
		}
	}
	c.Check(bad == "", "R2", "the terminator's generator is not re-seeded per call", pos, "RandString draws from a source that outlives the call",
		bad+" — the terminator becomes a function of the clock value used as seed; scripts generated within the same tick share it and a value can embed it")
}

// scriptTemplates: every piece of script text built in f that contains a hole
// of interest: outermost + chains, and per-block sequences of Write* calls on
// a strings.Builder / bytes.Buffer.
func scriptTemplates(f *ssa.Function) [][]tplPart {
	var out [][]tplPart
	eachInstr(f, func(_ *ssa.BasicBlock, _ int, in ssa.Instruction) {
		bo, ok := in.(*ssa.BinOp)
		if !ok || bo.Op != token.ADD || !isStringy(bo.Type()) {
			return
		}
		for _, r := range *bo.Referrers() {
			if p, ok := r.(*ssa.BinOp); ok && p.Op == token.ADD {
				return
			}
		}
		// a + chain that is itself written to a builder is handled with the builder
		for _, r := range *bo.Referrers() {
			if ci := callInfo(r, nil, 0); ci != nil && ci.Static != nil {
				q := qualName(ci.Static)
				if strings.HasPrefix(q, "strings.(Builder).Write") || strings.HasPrefix(q, "bytes.(Buffer).Write") {
					return
				}
			}
		}
		out = append(out, flattenTemplate(bo))
	})
	// builder sequences: consecutive writes to the same accumulator; a block that only
	// re-enters the loop does not break the sequence of one iteration
	for _, b := range f.Blocks {
		byAcc := map[string][]tplPart{}
		var order []string
		for _, in := range b.Instrs {
			ci := callInfo(in, nil, 0)
			if ci == nil || ci.Static == nil || ci.Kind != "call" {
				continue
			}
			q := qualName(ci.Static)
			if !(strings.HasPrefix(q, "strings.(Builder).Write") || strings.HasPrefix(q, "bytes.(Buffer).Write")) {
				continue
			}
			k := keyP(ci.Recv())
			if _, seen := byAcc[k]; !seen {
				order = append(order, k)
			}
			for _, p := range flattenTemplate(ci.Arg(0)) {
				parts := byAcc[k]
				if p.hole == "" && len(parts) > 0 && parts[len(parts)-1].hole == "" {
					parts[len(parts)-1].konst += p.konst
					byAcc[k] = parts
				} else {
					byAcc[k] = append(parts, p)
				}
			}
		}
		for _, k := range order {
			out = append(out, append([]tplPart{{hole: "ACC"}}, byAcc[k]...))
		}
	}
	return out
}

func ruleHeredoc(c *Ctx, f *ssa.Function) {
	name := fname(f)
	type tmpl struct {
		parts []tplPart
		fn    *ssa.Function
		pos   token.Pos
	}
	var tmpls []tmpl
	holeCtx = nil
	for _, parts := range scriptTemplates(f) {
		tmpls = append(tmpls, tmpl{parts, f, f.Pos()})
	}
	// pieces built by a private helper that is handed the key / value / tag - or the whole
	// environment map, which it ranges over itself (one more level down)
	var collect func(from *ssa.Function, curHole map[ssa.Value]string, curMaps map[ssa.Value]bool, depth int)
	collect = func(from *ssa.Function, curHole map[ssa.Value]string, curMaps map[ssa.Value]bool, depth int) {
		for _, ci := range Calls(from) {
			g := ci.Static
			if g == nil || !inModule(g) || g.Blocks == nil || ci.Kind != "call" || g == from {
				continue
			}
			ctx := map[ssa.Value]string{}
			maps := map[ssa.Value]bool{}
			hasValue := false
			holeCtx, envMapCtx = curHole, curMaps
			for ai, a := range ci.Common.Args {
				if ai >= len(g.Params) {
					break
				}
				h := envHole(a)
				if h == "VALUE" {
					hasValue = true
				}
				if h == "VALUE" || h == "KEY" || h == "TAG" {
					ctx[g.Params[ai]] = h
				}
				if call, ok := resolve(a).(*ssa.Call); ok && call.Call.Method != nil && call.Call.Method.Name() == "All" {
					maps[g.Params[ai]] = true
				}
				if curMaps[a] {
					maps[g.Params[ai]] = true
				}
			}
			holeCtx, envMapCtx = nil, nil
			if !hasValue && len(maps) == 0 {
				continue
			}
			holeCtx, envMapCtx = ctx, maps
			for _, parts := range scriptTemplates(g) {
				tmpls = append(tmpls, tmpl{parts, g, ci.Pos()})
			}
			holeCtx, envMapCtx = nil, nil
			if depth < 2 {
				collect(g, ctx, maps, depth+1)
			}
		}
	}
	collect(f, nil, nil, 0)
	valueSeen := 0
	for _, t := range tmpls {
		parts := t.parts
		hasValue := false
		for _, p := range parts {
			if p.hole == "VALUE" {
				hasValue = true
			}
		}
		if !hasValue {
			continue
		}
		valueSeen++
		tpl := renderTemplate(parts)
		con := "environment value in the script of " + name
		why := lexHeredoc(parts)
		c.Check(why == "", "R1", con, t.pos, "VALUE is the body of a here-document with a quoted, TAG-carrying delimiter: "+tpl,
			why+" [template: "+tpl+"] — a value such as $(cmd), `cmd` or $VAR is interpreted by the sandbox shell")
		// R2 for this template
		var tags []ssa.Value
		for _, p := range parts {
			if p.hole == "TAG" {
				tags = append(tags, p.val)
			}
		}
		okT := len(tags) >= 2
		whyT := "the delimiter does not carry a random tag twice (open and close)"
		if okT {
			for _, tg := range tags[1:] {
				if resolve(tg) != resolve(tags[0]) && !sameValue(tg, tags[0]) {
					okT, whyT = false, "opening and closing delimiter are different values"
				}
			}
			// the tag value as the builder sees it (the helper's parameter stands for the builder's argument)
			tv := tags[0]
			if t.fn != f {
				for _, ci := range Calls(f) {
					if ci.Static == t.fn {
						for ai, p := range t.fn.Params {
							if ssa.Value(p) == tv && ai < len(ci.Common.Args) {
								tv = ci.Common.Args[ai]
							}
						}
					}
				}
			}
			if ld, isLd := tv.(*ssa.UnOp); isLd {
				if fa, isFA := ld.X.(*ssa.FieldAddr); isFA {
					if w := tagFieldProblem(fa, f); w != "" {
						okT, whyT = false, w
					}
					tv = nil
				}
			}
			if tv != nil {
				if w := freshRandomTag(f, tv); w != "" {
					okT, whyT = false, w
				}
			}
		}
		c.Check(okT, "R2", "heredoc terminator in "+name, t.pos, "RandString(const >= 8) evaluated in the builder on every call; same value opens and closes", whyT+" — a value containing the terminator line ends the document early and the rest is executed")
	}
	if valueSeen == 0 {
		used := false
		eachInstr(f, func(_ *ssa.BasicBlock, _ int, in ssa.Instruction) {
			for _, op := range in.Operands(nil) {
				if op != nil && *op != nil && envHole(*op) == "VALUE" {
					used = true
				}
			}
		})
		if used {
			c.Bad("R1", "environment value in the script of "+name, f.Pos(), "the environment value is not placed by plain concatenation (or builder writes) into a here-document (it flows through another construct, e.g. a format string) — cannot certify verbatim transfer")
		} else {
			c.Bad("R1", "environment value in the script of "+name, f.Pos(), "the builder no longer emits environment values; cannot certify")
		}
	}
}

// flattenTemplate: left-to-right parts of a concatenation (+ chains,
// strings.Join, builders); constants merged.
func flattenTemplate(v ssa.Value) []tplPart {
	var out []tplPart
	add := func(p tplPart) {
		if p.hole == "" && len(out) > 0 && out[len(out)-1].hole == "" {
			out[len(out)-1].konst += p.konst
			return
		}
		out = append(out, p)
	}
	for _, pv := range concatParts(v, 0) {
		if s, ok := constString(pv); ok {
			add(tplPart{konst: s})
			continue
		}
		if _, ok := pv.(*ssa.Phi); ok {
			add(tplPart{hole: "ACC", val: pv})
			continue
		}
		add(tplPart{hole: envHole(pv), val: pv})
	}
	return out
}

func renderTemplate(parts []tplPart) string {
	var sb strings.Builder
	for _, p := range parts {
		if p.hole == "" {
			sb.WriteString(strings.ReplaceAll(p.konst, "\n", "\\n"))
		} else {
			h := p.hole
			if strings.HasPrefix(h, "OTHER:") {
				h = "OTHER"
			}
			sb.WriteString("{" + h + "}")
		}
	}
	return sb.String()
}

// lexHeredoc checks the shell shape around every VALUE hole.  Returns "" or the
// reason.
func lexHeredoc(parts []tplPart) string {
	// build a token stream of runes and holes
	type tok struct {
		r    rune
		hole string
	}
	var ts []tok
	for _, p := range parts {
		if p.hole == "" {
			for _, r := range p.konst {
				ts = append(ts, tok{r: r})
			}
		} else {
			h := p.hole
			if strings.HasPrefix(h, "OTHER:") {
				h = "OTHER"
			}
			ts = append(ts, tok{hole: h})
		}
	}
	nv := 0
	for i, t := range ts {
		if t.hole != "VALUE" {
			continue
		}
		nv++
		// must be preceded by: << [-] QUOTE delim QUOTE rest-of-line \n   with delim containing TAG
		j := i - 1
		if j < 0 || ts[j].hole != "" || ts[j].r != '\n' {
			return "the value is not at the start of a line (it must be the whole body of the here-document)"
		}
		// walk back to the start of that line looking for the heredoc operator
		k := j - 1
		lineStart := k
		for lineStart >= 0 && !(ts[lineStart].hole == "" && ts[lineStart].r == '\n') {
			lineStart--
		}
		// find "<<" in (lineStart, j)
		op := -1
		for x := lineStart + 1; x+1 < j; x++ {
			if ts[x].hole == "" && ts[x].r == '<' && ts[x+1].hole == "" && ts[x+1].r == '<' {
				op = x
			}
		}
		if op < 0 {
			return "the value is not in the body of a here-document"
		}
		x := op + 2
		if x < j && ts[x].hole == "" && ts[x].r == '-' {
			x++
		}
		for x < j && ts[x].hole == "" && (ts[x].r == ' ' || ts[x].r == '\t') {
			x++
		}
		if x >= j || ts[x].hole != "" || (ts[x].r != '\'' && ts[x].r != '"') {
			return "the here-document delimiter is not quoted: the shell expands $, ` and \\ in the body"
		}
		q := ts[x].r
		x++
		var delim []tok
		for x < j && !(ts[x].hole == "" && ts[x].r == q) {
			delim = append(delim, ts[x])
			x++
		}
		if x >= j {
			return "the quoted delimiter is not closed on the operator line"
		}
		hasTag := false
		for _, d := range delim {
			if d.hole == "TAG" {
				hasTag = true
			} else if d.hole != "" {
				return "the delimiter contains a non-constant part other than the random tag"
			} else if !(d.r == '_' || d.r >= '0' && d.r <= '9' || d.r >= 'A' && d.r <= 'Z' || d.r >= 'a' && d.r <= 'z') {
				return "the delimiter contains a shell-significant character"
			}
		}
		if !hasTag {
			return "the delimiter does not contain the random tag"
		}
		// nothing non-constant between the closing quote and the newline
		for y := x + 1; y < j; y++ {
			if ts[y].hole != "" {
				return "a non-constant part follows the delimiter on the operator line"
			}
		}
		// after VALUE: \n delim \n
		y := i + 1
		if y >= len(ts) || ts[y].hole != "" || ts[y].r != '\n' {
			return "the value is not followed by a newline and the terminator line"
		}
		y++
		for _, d := range delim {
			if y >= len(ts) || ts[y].hole != d.hole || ts[y].r != d.r {
				return "the line after the value is not the delimiter"
			}
			y++
		}
		if y >= len(ts) || ts[y].hole != "" || ts[y].r != '\n' {
			return "the terminator line carries extra text"
		}
	}
	if nv != 1 {
		return fmt.Sprintf("the value appears %d times in the template", nv)
	}
	return ""
}

// freshRandomTag: tag derives from RandString(n>=8, ...) called in f itself,
// with no package-level variable on the way.
func freshRandomTag(f *ssa.Function, tag ssa.Value) string {
	okCall := false
	for _, o := range Origins(tag, FlowOpts{}) {
		switch o.Kind {
		case "global":
			return "the terminator is kept in a package-level variable (" + o.Name + "): it is the same for every script of the process"
		case "field", "freevar", "param":
			return "the terminator comes from " + o.String() + ", not from a fresh random draw"
		case "call":
			if strings.HasPrefix(o.Name, modPath+"/varutil.RandString#") {
				call := o.Val.(*ssa.Call)
				if call.Parent() != f {
					return "the random draw is not made by the builder"
				}
				if n, ok := constInt(call.Call.Args[0]); !ok || n < 8 {
					return "the random part of the terminator is shorter than 8 characters"
				}
				okCall = true
			}
		}
	}
	if !okCall {
		return "the terminator does not derive from varutil.RandString"
	}
	return ""
}

// ---- R3 names ---------------------------------------------------------------------

func ruleEnvNames(c *Ctx) {
	envT := c.P.Named(envsPkg, "Environments")
	validKey := c.P.Func(envsPkg, "Environments", "validKey")
	if envT == nil || validKey == nil {
		c.Bad("R3", "envs.Environments / validKey", 0, "anchor not found; cannot certify")
		return
	}
	valid := c.P.Func(envsPkg, "Environments", "valid")
	n := 0
	for _, f := range c.P.PkgFuncs(envsPkg) {
		facts := (*Facts)(nil)
		eachInstr(f, func(b *ssa.BasicBlock, _ int, in ssa.Instruction) {
			mu, ok := in.(*ssa.MapUpdate)
			if !ok {
				return
			}
			if nm, base := fieldLoadName(mu.Map); nm != "data" || base == nil || freshBase(base) {
				return
			}
			if strings.HasSuffix(fname(f), ".All") {
				return
			}
			n++
			if facts == nil {
				facts = factsFor(f)
			}
			con := "store into the environment map in " + fname(f)
			ok2 := false
			for _, ci := range Calls(f) {
				call, isCall := ci.Instr.(*ssa.Call)
				if !isCall {
					continue
				}
				if ci.Static == validKey {
					if ex, isEx := mu.Key.(*ssa.Extract); isEx {
						if nx, isNx := ex.Tuple.(*ssa.Next); isNx {
							if rg, isRg := nx.Iter.(*ssa.Range); isRg && loopValidatesAll(f, rg.X, validKey, mu) {
								ok2 = true
							}
						}
					}
				}
				if !facts.KnownNil(b, call, true) {
					continue
				}
				if ci.Static == validKey && sameValue(ci.Arg(0), mu.Key) {
					ok2 = true
				}
				// the whole map was validated key by key in an earlier loop of this function
				if ci.Static == validKey {
					if ex, isEx := mu.Key.(*ssa.Extract); isEx {
						if nx, isNx := ex.Tuple.(*ssa.Next); isNx {
							if rg, isRg := nx.Iter.(*ssa.Range); isRg && loopValidatesAll(f, rg.X, validKey, mu) {
								ok2 = true
							}
						}
					}
				}
				if valid != nil && ci.Static == valid {
					// key ranges over the validated map, and is stored in the form that was validated
					if hk, rx, okT := keyTransformOf(mu.Key); okT && rx == ci.Arg(0) {
						if hv, okV := validTransform(valid, validKey); okV && hv == hk {
							ok2 = true
						}
					}
				}
			}
			// a private store helper that copies a map it is handed: judged at its call sites - the map
			// passed is one that valid() accepted, or a literal whose keys validKey() accepted
			if !ok2 {
				if ex, isEx := mu.Key.(*ssa.Extract); isEx {
					if nx, isNx := ex.Tuple.(*ssa.Next); isNx {
						if rg, isRg := nx.Iter.(*ssa.Range); isRg {
							if pp, isP := rg.X.(*ssa.Parameter); isP {
								pi := -1
								for i, q := range f.Params {
									if q == pp {
										pi = i
									}
								}
								sites, good := 0, true
								for _, g := range c.P.PkgFuncs(envsPkg) {
									gf := factsFor(g)
									for _, cs := range Calls(g) {
										if cs.Static != f || pi < 0 || pi >= len(cs.Common.Args) {
											continue
										}
										sites++
										arg := resolve(cs.Common.Args[pi])
										okSite := false
										for _, vc := range Calls(g) {
											call, isCall := vc.Instr.(*ssa.Call)
											if !isCall || !gf.KnownNil(cs.Block, call, true) {
												continue
											}
											if valid != nil && vc.Static == valid && resolve(vc.Arg(len(vc.Common.Args)-1-0)) == arg {
												okSite = true
											}
										}
										if mm, isMM := arg.(*ssa.MakeMap); isMM {
											all, any := true, false
											for _, r := range *mm.Referrers() {
												u, isU := r.(*ssa.MapUpdate)
												if !isU {
													continue
												}
												any = true
												kOK := false
												for _, vc := range Calls(g) {
													call, isCall := vc.Instr.(*ssa.Call)
													if isCall && vc.Static == validKey && gf.KnownNil(cs.Block, call, true) && sameValue(resolve(vc.Common.Args[len(vc.Common.Args)-1]), resolve(u.Key)) {
														kOK = true
													}
												}
												if !kOK {
													all = false
												}
											}
											if all && any {
												okSite = true
											}
										}
										if !okSite {
											good = false
										}
									}
								}
								if sites > 0 && good {
									ok2 = true
								}
							}
						}
					}
				}
			}
			c.Check(ok2, "R3", con, mu.Pos(), "dominated by a nil result of the name validator for this key (or for the whole map being copied)",
				"a name is stored without having passed the validator — a name like 'A=$(cmd);B' is pasted unquoted into the start-up script")
		})
	}
	c.Floor("R3", n, 1)
	// valid(): every key is checked and a failure returned
	if valid != nil {
		vf := factsFor(valid)
		okv := false
		for _, ci := range CallsTo(valid, qualName(validKey)) {
			call, _ := ci.Instr.(*ssa.Call)
			if call == nil {
				continue
			}
			inLp := inLoop(valid, call.Block())
			retErr := false
			for _, r := range returnsOf(valid) {
				if vf.KnownNil(r.Block(), call, false) && !isNilConst(resolve(r.Results[0])) {
					retErr = true
				}
			}
			okb := true
			for _, e := range loopBackEdges(valid) {
				if !knownNilIn(factsOnEdge(vf, e[0], e[1]), call, true) {
					okb = false
				}
			}
			// the name that is checked is the map's own key, as it will be stored - not a trimmed or
			// otherwise rewritten copy of it
			ownKey := false
			if ex, isEx := resolve(call.Call.Args[len(call.Call.Args)-1]).(*ssa.Extract); isEx && ex.Index == 1 {
				_, ownKey = ex.Tuple.(*ssa.Next)
			}
			if !ownKey {
				// ... or one fixed normalisation of it; the store rule then demands the same
				// normalisation where the name is stored
				if h, _, ok := keyTransformOf(call.Call.Args[len(call.Call.Args)-1]); ok && h != nil {
					ownKey = true
				}
			}
			if !ownKey {
				// ... or an element of a local slice that holds nothing but the map's keys (sorted first)
				els := appendedElems(call.Call.Args[len(call.Call.Args)-1])
				ownKey = len(els) > 0
				for _, el := range els {
					ex, isEx := resolve(el.v).(*ssa.Extract)
					if !isEx || ex.Index != 1 {
						ownKey = false
						continue
					}
					if _, isNext := ex.Tuple.(*ssa.Next); !isNext {
						ownKey = false
					}
				}
			}
			if !ownKey {
				continue
			}
			if inLp && retErr && okb {
				okv = true
			}
			// or: every failure is collected and the aggregate of the list is returned
			if inLp && accumulatedAndReported(valid, call) {
				okv = true
			}
		}
		// or, in two phases: the keys that fail are first collected, then validated again to build the
		// messages - sound if the validator's verdict depends on its argument alone
		if !okv && nilDeterministic(validKey, 0) {
			okv = twoPhaseValidation(valid, validKey)
		}
		c.Check(okv, "R3", "envs.(*Environments).valid checks every key", valid.Pos(), "validKey for each key of the map; first failure returned", "valid does not check every key of the map (or drops the failure)")
	}
	// validKey: error iff the pattern does not match
	vk := factsFor(validKey)
	var match *ssa.Call
	var patGlobal *ssa.Global
	for _, ci := range Calls(validKey) {
		if ci.Static != nil && qualName(ci.Static) == "regexp.(Regexp).MatchString" {
			match, _ = ci.Instr.(*ssa.Call)
			if ld, ok := ci.Recv().(*ssa.UnOp); ok {
				patGlobal, _ = ld.X.(*ssa.Global)
			}
		}
	}
	okk := match != nil && len(validKey.Params) > 0 && match.Call.Args[len(match.Call.Args)-1] == ssa.Value(validKey.Params[len(validKey.Params)-1])
	why := "validKey does not match the name against the pattern"
	if okk {
		for _, r := range returnsOf(validKey) {
			isErr := !isNilConst(resolve(r.Results[0]))
			if isErr && !vk.KnownBool(r.Block(), match, false) {
				// fine: extra refusals are harmless
				continue
			}
			if !isErr && !vk.KnownBool(r.Block(), match, true) {
				okk, why = false, "validKey accepts a name on a path where the pattern did not (provably) match"
			}
		}
	}
	c.Check(okk, "R3", "envs.(*Environments).validKey refuses non-matching names", validKey.Pos(), "nil is returned only on the matching edge", why)
	// the pattern
	if patGlobal == nil {
		c.Bad("R3", "environment name pattern", validKey.Pos(), "cannot find the package-level pattern used by validKey")
		return
	}
	pat, pos := globalRegexpSource(c.P, patGlobal)
	if pat == "" {
		c.Bad("R3", "environment name pattern", patGlobal.Pos(), "the pattern is not compiled from a string constant; cannot certify")
		return
	}
	whyP := identifierLanguage(pat)
	c.Check(whyP == "", "R3", "environment name pattern", pos, fmt.Sprintf("%q is anchored at both ends and matches identifiers only", pat),
		fmt.Sprintf("%q: %s — a name with shell-significant characters is accepted and pasted unquoted into the script", pat, whyP))
}

// globalRegexpSource: the string constant a package-level *regexp.Regexp is
// compiled from (regexp.MustCompile / Compile in the package initialiser).
func globalRegexpSource(p *Prog, g *ssa.Global) (string, token.Pos) {
	init := g.Pkg.Func("init")
	if init == nil {
		return "", token.NoPos
	}
	src := ""
	pos := token.NoPos
	eachInstr(init, func(_ *ssa.BasicBlock, _ int, in ssa.Instruction) {
		st, ok := in.(*ssa.Store)
		if !ok || st.Addr != ssa.Value(g) {
			return
		}
		v := st.Val
		if ex, ok := v.(*ssa.Extract); ok {
			v = ex.Tuple
		}
		if call, ok := v.(*ssa.Call); ok {
			if cf := call.Call.StaticCallee(); cf != nil && (qualName(cf) == "regexp.MustCompile" || qualName(cf) == "regexp.Compile" || qualName(cf) == "regexp.MustCompilePOSIX") {
				if s, ok := constString(call.Call.Args[0]); ok {
					src, pos = s, call.Pos()
				}
			}
		}
	})
	return src, pos
}

// identifierLanguage: "" iff pattern is anchored at both ends and L(pattern) is
// included in [A-Za-z_][A-Za-z0-9_]*.
func identifierLanguage(pat string) string {
	re, err := syntax.Parse(pat, syntax.Perl)
	if err != nil {
		return "does not parse: " + err.Error()
	}
	re = re.Simplify()
	// top level must be a concatenation  ^ ... $
	subs := []*syntax.Regexp{re}
	if re.Op == syntax.OpConcat {
		subs = re.Sub
	}
	if len(subs) < 2 || subs[0].Op != syntax.OpBeginText {
		return "not anchored at the start (^)"
	}
	if subs[len(subs)-1].Op != syntax.OpEndText {
		return "not anchored at the end ($)"
	}
	if subs[len(subs)-1].Flags&syntax.WasDollar != 0 && re.Flags&syntax.OneLine == 0 {
		// `$` in multi-line mode would be OpEndLine, which we reject above; fine
	}
	body := subs[1 : len(subs)-1]
	word := func(r rune, first bool) bool {
		if r == '_' || r >= 'A' && r <= 'Z' || r >= 'a' && r <= 'z' {
			return true
		}
		return !first && r >= '0' && r <= '9'
	}
	var check func(r *syntax.Regexp, first bool) (nullable bool, why string)
	check = func(r *syntax.Regexp, first bool) (bool, string) {
		switch r.Op {
		case syntax.OpEmptyMatch:
			return true, ""
		case syntax.OpLiteral:
			for i, ru := range r.Rune {
				if !word(ru, first && i == 0) {
					return false, fmt.Sprintf("allows the character %q", ru)
				}
				if r.Flags&syntax.FoldCase != 0 {
					// folded ASCII letters stay letters
				}
			}
			return len(r.Rune) == 0, ""
		case syntax.OpCharClass:
			for i := 0; i+1 < len(r.Rune); i += 2 {
				for ru := r.Rune[i]; ru <= r.Rune[i+1]; ru++ {
					if !word(ru, first) {
						return false, fmt.Sprintf("allows the character %q", ru)
					}
					if ru > 0x7f {
						return false, "allows non-ASCII characters"
					}
				}
			}
			return false, ""
		case syntax.OpCapture:
			return check(r.Sub[0], first)
		case syntax.OpStar, syntax.OpQuest:
			_, w := check(r.Sub[0], first)
			return true, w
		case syntax.OpPlus:
			return check(r.Sub[0], first)
		case syntax.OpRepeat:
			n, w := check(r.Sub[0], first)
			return n || r.Min == 0, w
		case syntax.OpConcat:
			nullable := true
			f := first
			for _, s := range r.Sub {
				n, w := check(s, f)
				if w != "" {
					return false, w
				}
				if !n {
					nullable = false
					f = false
				}
			}
			return nullable, ""
		case syntax.OpAlternate:
			nullable := false
			for _, s := range r.Sub {
				n, w := check(s, first)
				if w != "" {
					return false, w
				}
				nullable = nullable || n
			}
			return nullable, ""
		default:
			return false, "uses the construct " + r.Op.String() + " (any character / line anchors / word boundaries are not allowed)"
		}
	}
	nullable := true
	first := true
	for _, s := range body {
		n, w := check(s, first)
		if w != "" {
			return w
		}
		if !n {
			nullable = false
			first = false
		}
	}
	if nullable {
		return "accepts the empty name"
	}
	return ""
}

// loopValidatesAll: before `point`, function f ranges over the map m calling
// validKey on every key, and leaves that loop only by exhaustion (every
// continuing iteration has seen a nil result; a non-nil result returns).
func loopValidatesAll(f *ssa.Function, m ssa.Value, validKey *ssa.Function, point ssa.Instruction) bool {
	facts := factsFor(f)
	ok := false
	for _, ci := range Calls(f) {
		if ci.Static != validKey {
			continue
		}
		call, isCall := ci.Instr.(*ssa.Call)
		if !isCall || !inLoop(f, call.Block()) {
			continue
		}
		// the validated key ranges over the same map
		ex, isEx := ci.Arg(0).(*ssa.Extract)
		if !isEx {
			continue
		}
		nx, isNx := ex.Tuple.(*ssa.Next)
		if !isNx {
			continue
		}
		rg, isRg := nx.Iter.(*ssa.Range)
		if !isRg || !(rg.X == m || sameValue(rg.X, m)) {
			continue
		}
		// the loop of this Range: header = block of Next
		header := nx.Block()
		if !header.Dominates(point.Block()) || inSameLoop(f, header, point.Block()) {
			continue
		}
		good := true
		for _, e := range loopBackEdges(f) {
			if e[1] != header {
				continue
			}
			if !knownNilIn(factsOnEdge(facts, e[0], e[1]), call, true) {
				good = false
			}
		}
		if good && failingEdgeAlwaysReturns(f, call) {
			ok = true
		}
	}
	return ok
}

// inSameLoop: b lies in the natural loop headed by header.
func inSameLoop(f *ssa.Function, header, b *ssa.BasicBlock) bool {
	for _, e := range loopBackEdges(f) {
		if e[1] == header && header.Dominates(b) && reachesBlock(b, e[0]) {
			return true
		}
	}
	return false
}

// nilDeterministic: whether fn returns nil depends only on its (non-receiver) arguments: it writes
// nothing outside itself, reads no mutable state (only parameters, locals and package variables
// that are assigned in init only), and calls nothing but functions of the same kind, error
// constructors and a short list of pure standard-library functions.
var nilDetMemo = map[*ssa.Function]int{}

func nilDeterministic(fn *ssa.Function, depth int) bool {
	if fn == nil || fn.Blocks == nil || depth > 3 {
		return false
	}
	if r, ok := nilDetMemo[fn]; ok {
		return r == 1
	}
	nilDetMemo[fn] = 2
	ok := true
	pureStd := func(q string) bool {
		switch {
		case strings.HasPrefix(q, "strings."), strings.HasPrefix(q, "strconv."), strings.HasPrefix(q, "unicode."), strings.HasPrefix(q, "unicode/utf8."):
			return true
		case strings.HasPrefix(q, "regexp.(Regexp).Match"), strings.HasPrefix(q, "regexp.(Regexp).Find"):
			return true
		case q == "fmt.Sprintf", q == "fmt.Errorf", q == "fmt.Sprint", q == "errors.New":
			return true
		}
		return false
	}
	initOnlyGlobal := func(g *ssa.Global) bool {
		if g.Pkg == nil {
			return false
		}
		okG := true
		for _, m := range g.Pkg.Members {
			f2, isFn := m.(*ssa.Function)
			if !isFn {
				continue
			}
			for _, h := range withClosures(f2) {
				eachInstr(h, func(_ *ssa.BasicBlock, _ int, in ssa.Instruction) {
					if st, isSt := in.(*ssa.Store); isSt && st.Addr == ssa.Value(g) && f2.Name() != "init" {
						okG = false
					}
				})
			}
		}
		return okG
	}
	eachInstr(fn, func(_ *ssa.BasicBlock, _ int, in ssa.Instruction) {
		switch x := in.(type) {
		case *ssa.Store:
			if _, local := x.Addr.(*ssa.Alloc); !local {
				if ia, isIA := x.Addr.(*ssa.IndexAddr); isIA {
					if _, localArr := ia.X.(*ssa.Alloc); localArr {
						return // filling the array of a variadic call
					}
				}
				ok = false
			}
		case *ssa.MapUpdate, *ssa.Send, *ssa.Go, *ssa.Defer:
			ok = false
		case *ssa.UnOp:
			if x.Op == token.MUL {
				switch y := x.X.(type) {
				case *ssa.Global:
					if !initOnlyGlobal(y) {
						ok = false
					}
				case *ssa.FieldAddr:
					ok = false // state of the receiver or of an argument object
				}
			}
			if x.Op == token.ARROW {
				ok = false
			}
		case *ssa.Call:
			if _, isB := x.Call.Value.(*ssa.Builtin); isB {
				return
			}
			cal := x.Call.StaticCallee()
			if cal == nil {
				ok = false
				return
			}
			q := qualName(cal)
			switch {
			case pureStd(q):
			case strings.Contains(q, "/varutil/goaterr."):
			case cal.Pkg == fn.Pkg && nilDeterministic(cal, depth+1):
			default:
				ok = false
			}
		}
	})
	if ok {
		nilDetMemo[fn] = 1
	}
	return ok
}

// twoPhaseValidation: valid() ranges over the map, calls the validator for every key and, where it
// fails, appends the key to a local slice (on every way round the loop: validator nil, or key
// appended); afterwards it ranges over that slice, validates each element again and collects the
// results into the list whose aggregate it returns.
func twoPhaseValidation(valid, validKey *ssa.Function) bool {
	vf := factsFor(valid)
	calls := CallsTo(valid, qualName(validKey))
	if len(calls) < 1 {
		return false
	}
	// phase 1: a call on the map's key whose failing edge appends that key
	var coll *ssa.Call // the append of the key
	for _, ci := range calls {
		c1, _ := ci.Instr.(*ssa.Call)
		if c1 == nil {
			continue
		}
		keyArg := resolve(c1.Call.Args[len(c1.Call.Args)-1])
		ex, isEx := keyArg.(*ssa.Extract)
		if !isEx {
			continue
		}
		if _, isNext := ex.Tuple.(*ssa.Next); !isNext || ex.Index != 1 {
			continue
		}
		eachInstr(valid, func(b *ssa.BasicBlock, _ int, in ssa.Instruction) {
			app, ok := in.(*ssa.Call)
			if !ok {
				return
			}
			if bi, ok := app.Call.Value.(*ssa.Builtin); !ok || bi.Name() != "append" || len(app.Call.Args) != 2 {
				return
			}
			for _, el := range appendedElemsOfCall(app) {
				if resolve(el) == keyArg && vf.KnownNil(b, c1, false) {
					coll = app
				}
			}
		})
		if coll == nil {
			continue
		}
		// every way round the first loop: verdict nil, or the key was collected
		okLoop := true
		for _, e := range loopBackEdges(valid) {
			if !reachesBlock(c1.Block(), e[0]) && c1.Block() != e[0] {
				continue
			}
			if !inSameLoop(valid, e[1], c1.Block()) {
				continue
			}
			if knownNilIn(factsOnEdge(vf, e[0], e[1]), c1, true) {
				continue
			}
			if !(coll.Block() == e[0] || coll.Block().Dominates(e[0])) {
				okLoop = false
			}
		}
		if !okLoop {
			coll = nil
			continue
		}
		break
	}
	if coll == nil {
		return false
	}
	// phase 2b: the list of failing keys decides the verdict: nil is returned only where the list is
	// known to be empty, every other return is an error that cannot be nil (a fresh one, or the
	// deterministic validator applied again to a collected key)
	{
		var fromColl func(s ssa.Value, d int) bool
		fromColl = func(s ssa.Value, d int) bool {
			if s == nil || d > 8 {
				return false
			}
			if s == ssa.Value(coll) {
				return true
			}
			switch x := s.(type) {
			case *ssa.Phi:
				for _, e := range x.Edges {
					if e != ssa.Value(x) && fromColl(e, d+1) {
						return true
					}
				}
			case *ssa.Call:
				if bi, ok := x.Call.Value.(*ssa.Builtin); ok && bi.Name() == "append" {
					return fromColl(x.Call.Args[0], d+1)
				}
			}
			return false
		}
		okAll, nils, errs := true, 0, 0
		for _, r := range returnsOf(valid) {
			v := resolve(r.Results[0])
			switch {
			case isNilConst(v):
				found := false
				for k := range vf.At(r.Block()) {
					bo, ok := k.v.(*ssa.BinOp)
					if !ok {
						continue
					}
					lc, isC := bo.X.(*ssa.Call)
					if !isC {
						continue
					}
					if bi, isB := lc.Call.Value.(*ssa.Builtin); !isB || bi.Name() != "len" || !fromColl(lc.Call.Args[0], 0) {
						continue
					}
					if z, isZ := constInt(bo.Y); !isZ || z != 0 {
						continue
					}
					if (bo.Op == token.EQL && k.pol) || (bo.Op == token.NEQ && !k.pol) {
						found = true
					}
				}
				if !found {
					okAll = false
				}
				nils++
			case isNonNilErrValue(v, 0):
				errs++
			default:
				c2, isC := v.(*ssa.Call)
				good := false
				if isC && c2.Call.StaticCallee() == validKey {
					for _, el := range appendedElems(c2.Call.Args[len(c2.Call.Args)-1]) {
						if el.at == ssa.Instruction(coll) {
							good = true
						}
					}
				}
				if !good {
					okAll = false
				}
				errs++
			}
		}
		if okAll && nils > 0 && errs > 0 {
			return true
		}
	}
	// phase 2: a call on an element of the collected slice whose result is collected and aggregated
	for _, ci := range calls {
		c2, _ := ci.Instr.(*ssa.Call)
		if c2 == nil {
			continue
		}
		arg := c2.Call.Args[len(c2.Call.Args)-1]
		elems := appendedElems(arg)
		fromColl := false
		for _, el := range elems {
			if el.at == ssa.Instruction(coll) {
				fromColl = true
			}
		}
		if fromColl && inLoop(valid, c2.Block()) && accumulatedAndReported(valid, c2) {
			return true
		}
	}
	return false
}

// keyTransformOf: v is the key of a map range, or h(key) for a static string->string function h
// without receiver (a normaliser).  Returns h (nil for the key itself) and the ranged map.
func keyTransformOf(v ssa.Value) (h *ssa.Function, ranged ssa.Value, ok bool) {
	v = resolve(v)
	if call, isC := v.(*ssa.Call); isC {
		f := call.Call.StaticCallee()
		if f == nil || f.Signature.Recv() != nil || len(call.Call.Args) != 1 || f.Signature.Results().Len() != 1 ||
			!isStringy(f.Signature.Results().At(0).Type()) || !isStringy(call.Call.Args[0].Type()) {
			return nil, nil, false
		}
		h = f
		v = resolve(call.Call.Args[0])
	}
	ex, isEx := v.(*ssa.Extract)
	if !isEx || ex.Index != 1 {
		// an element of a local slice that holds nothing but (one form of) the map's keys
		if h != nil {
			return nil, nil, false
		}
		els := appendedElems(v)
		if len(els) == 0 {
			return nil, nil, false
		}
		for i, el := range els {
			if _, isExt := resolve(el.v).(*ssa.Extract); !isExt {
				if _, isCall := resolve(el.v).(*ssa.Call); !isCall {
					return nil, nil, false
				}
			}
			if u, isU := resolve(el.v).(*ssa.UnOp); isU && u == v {
				return nil, nil, false
			}
			hh, rr, okk := keyTransformOf(el.v)
			if !okk || (i > 0 && (hh != h || rr != ranged)) {
				return nil, nil, false
			}
			h, ranged = hh, rr
		}
		return h, ranged, true
	}
	nx, isNx := ex.Tuple.(*ssa.Next)
	if !isNx {
		return nil, nil, false
	}
	rg, isRg := nx.Iter.(*ssa.Range)
	if !isRg {
		return nil, nil, false
	}
	return h, rg.X, true
}

// validTransform: the one form (the key itself, or h(key)) in which valid() hands names to the
// validator; ok is false if the calls disagree or one cannot be read.
func validTransform(valid, validKey *ssa.Function) (h *ssa.Function, ok bool) {
	first := true
	for _, ci := range CallsTo(valid, qualName(validKey)) {
		call, isC := ci.Instr.(*ssa.Call)
		if !isC {
			continue
		}
		hk, _, okT := keyTransformOf(call.Call.Args[len(call.Call.Args)-1])
		if !okT {
			continue // a second phase over collected names: judged by the valid() rule itself
		}
		if !first && hk != h {
			return nil, false
		}
		h, first = hk, false
	}
	return h, !first
}
