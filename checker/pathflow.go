package main

// pathflow.go — how string (path) parameters of a function reach call
// arguments and field stores: raw, cleaned (path.Clean family — keeps a
// leading ".."), or reduced (varutil.ReduceAbsPath, which errors when ".."
// would climb over the root).  Shared by C01.R1 and C03.

import (
	"fmt"
	"go/token"
	"go/types"
	"strings"

	"golang.org/x/tools/go/ssa"
)

var reduceFn = modPath + "/varutil.ReduceAbsPath"

// cleaners keep "..": they normalise but do not confine.
var cleanerNames = map[string]bool{"CleanPath": true, "Clean": true}

type PartLeaf struct {
	Origin   Origin
	Param    *ssa.Parameter // the function parameter this leaf derives from (nil if none)
	State    string         // raw | cleaned | reduced | reduced-unguarded | other
	NonConst bool
}

type SinkUse struct {
	Fn       *ssa.Function
	Call     *CallInfo // nil for a field store
	Store    *ssa.Store
	ArgIdx   int
	Value    ssa.Value
	Parts    [][]PartLeaf // concatenation parts, left to right
	SinkName string
}

func (s *SinkUse) Pos() token.Pos {
	if s.Call != nil {
		return s.Call.Pos()
	}
	if s.Store != nil {
		return s.Store.Pos()
	}
	return token.NoPos
}

// concatParts flattens a string concatenation left to right (through +,
// path.Join-like calls and Sprintf).
func concatParts(v ssa.Value, depth int) []ssa.Value {
	if depth > 12 {
		return []ssa.Value{v}
	}
	switch x := v.(type) {
	case *ssa.BinOp:
		if x.Op == token.ADD {
			return append(concatParts(x.X, depth+1), concatParts(x.Y, depth+1)...)
		}
	case *ssa.Call:
		if f := x.Call.StaticCallee(); f != nil {
			switch qualName(f) {
			case "path.Join", "path/filepath.Join", "fmt.Sprintf", "fmt.Sprint", modPath + "/varutil.FullPath":
				var out []ssa.Value
				for _, a := range x.Call.Args {
					if sl, ok := a.(*ssa.Slice); ok {
						if els := arrayElems(sl.X); els != nil {
							for _, e := range els {
								out = append(out, concatParts(e, depth+1)...)
							}
							continue
						}
					}
					out = append(out, concatParts(a, depth+1)...)
				}
				if len(out) > 0 {
					return out
				}
			default:
				// single-argument pure helpers (Dir, Clean, CleanPath ...) keep the shape
				if idx, ok := pureStringFuncs[qualName(f)]; ok && len(idx) == 1 && idx[0] >= 0 && idx[0] < len(x.Call.Args) {
					if inner := concatParts(x.Call.Args[idx[0]], depth+1); len(inner) > 1 {
						return inner
					}
				}
			}
		}
	case *ssa.MakeInterface:
		return concatParts(x.X, depth+1)
	case *ssa.ChangeType:
		return concatParts(x.X, depth+1)
	}
	return []ssa.Value{v}
}

// classifyLeaves computes the leaves of one concatenation part.  atBlock is
// where the value is consumed (for the error guard of the reducer).
func classifyLeaves(f *ssa.Function, facts *Facts, part ssa.Value, atBlock *ssa.BasicBlock) []PartLeaf {
	stop := func(v ssa.Value) (Origin, bool) {
		if ex, ok := v.(*ssa.Extract); ok && ex.Index == 0 {
			if c, ok := ex.Tuple.(*ssa.Call); ok {
				if cf := c.Call.StaticCallee(); cf != nil && qualName(cf) == reduceFn {
					return Origin{Kind: "reduced", Name: "ReduceAbsPath"}, true
				}
			}
		}
		return Origin{}, false
	}
	var out []PartLeaf
	for _, o := range Origins(part, FlowOpts{Stop: stop, Interproc: 2}) {
		pl := PartLeaf{Origin: o, State: "other"}
		switch o.Kind {
		case "const", "nil", "zero":
			pl.NonConst = false
		case "param":
			pl.NonConst = true
			if p, ok := o.Val.(*ssa.Parameter); ok && isStringy(p.Type()) && p.Parent() == f {
				pl.Param = p
				pl.State = "raw"
				for _, st := range o.Path {
					if cleanerNames[st] {
						pl.State = "cleaned"
					}
				}
			}
		case "reduced":
			pl.NonConst = true
			pl.State = "reduced"
			ex := o.Val.(*ssa.Extract)
			call := ex.Tuple.(*ssa.Call)
			// which parameter was reduced
			for _, oo := range Origins(call.Call.Args[0], FlowOpts{Stop: stop, Interproc: 2}) {
				if p, ok := oo.Val.(*ssa.Parameter); ok && oo.Kind == "param" {
					pl.Param = p
				}
			}
			// guard: the reducer's error is known nil where the value is used
			guarded := false
			for _, e := range resultN(call, 1) {
				if facts.KnownNil(atBlock, e, true) {
					guarded = true
				}
			}
			if !guarded {
				pl.State = "reduced-unguarded"
			}
		default:
			pl.NonConst = true
		}
		out = append(out, pl)
	}
	return out
}

func isStringy(t types.Type) bool {
	b, ok := t.Underlying().(*types.Basic)
	return ok && b.Info()&types.IsString != 0
}

// errorish callees: formatting an error message is not a path sink.
func isMessageSink(name string) bool {
	return strings.HasPrefix(name, modPath+"/varutil/goaterr.") || strings.HasPrefix(name, "fmt.") ||
		strings.HasPrefix(name, "errors.") || strings.HasPrefix(name, "log.")
}

// sinkUses lists every call argument / string-field store in f whose value
// derives (in part) from a string parameter of f.
func sinkUses(f *ssa.Function) []SinkUse {
	facts := ComputeFacts(f)
	var out []SinkUse
	hasParam := func(parts [][]PartLeaf) bool {
		for _, p := range parts {
			for _, l := range p {
				if l.Param != nil {
					return true
				}
			}
		}
		return false
	}
	mk := func(v ssa.Value, b *ssa.BasicBlock) [][]PartLeaf {
		var parts [][]PartLeaf
		for _, pv := range concatParts(v, 0) {
			parts = append(parts, classifyLeaves(f, facts, pv, b))
		}
		return parts
	}
	for _, ci := range Calls(f) {
		name := ci.Name()
		if name == reduceFn {
			continue
		}
		if ci.Static != nil {
			if _, pure := pureStringFuncs[qualName(ci.Static)]; pure {
				continue
			}
		}
		if _, isB := ci.Common.Value.(*ssa.Builtin); isB {
			continue
		}
		if isMessageSink(name) {
			continue
		}
		args := ci.Common.Args
		off := 0
		if !ci.Common.IsInvoke() && ci.Common.Signature().Recv() != nil {
			off = 1
		}
		for i := off; i < len(args); i++ {
			if !isStringy(args[i].Type()) {
				continue
			}
			parts := mk(args[i], ci.Block)
			if !hasParam(parts) {
				continue
			}
			nm := name
			if nm == "" {
				nm = "dynamic call"
			}
			out = append(out, SinkUse{Fn: f, Call: ci, ArgIdx: i - off, Value: args[i], Parts: parts, SinkName: nm})
		}
	}
	// stores of strings into struct fields (composite literals, assignments)
	eachInstr(f, func(b *ssa.BasicBlock, i int, in ssa.Instruction) {
		st, ok := in.(*ssa.Store)
		if !ok || !isStringy(st.Val.Type()) {
			return
		}
		fa, ok := st.Addr.(*ssa.FieldAddr)
		if !ok {
			return
		}
		parts := mk(st.Val, b)
		if !hasParam(parts) {
			return
		}
		out = append(out, SinkUse{Fn: f, Store: st, Value: st.Val, Parts: parts, SinkName: "store to field " + fieldName(fa)})
	})
	return out
}

// rebaseViolations: parameter-derived leaves that sit behind a non-constant
// prefix without having been reduced (with the reducer's error checked).
func rebaseViolations(s SinkUse) []PartLeaf {
	var bad []PartLeaf
	seenNonConst := false
	for _, part := range s.Parts {
		for _, l := range part {
			if l.Param != nil && seenNonConst && l.State != "reduced" {
				bad = append(bad, l)
			}
		}
		for _, l := range part {
			if l.NonConst {
				seenNonConst = true
			}
		}
	}
	return bad
}

// isRebased: the sink value has a non-constant prefix in front of a
// parameter-derived part.
func isRebased(s SinkUse) bool {
	seenNonConst := false
	for _, part := range s.Parts {
		for _, l := range part {
			if l.Param != nil && seenNonConst {
				return true
			}
		}
		for _, l := range part {
			if l.NonConst {
				seenNonConst = true
			}
		}
	}
	return false
}

func describeParts(s SinkUse) string {
	var ps []string
	for _, part := range s.Parts {
		var ls []string
		for _, l := range part {
			d := l.Origin.String()
			if l.Param != nil {
				d = fmt.Sprintf("%s(%s)", l.State, l.Param.Name())
			}
			ls = append(ls, d)
		}
		ps = append(ps, strings.Join(ls, "|"))
	}
	return strings.Join(ps, " + ")
}

// stringParams of f (excluding the receiver).
func stringParams(f *ssa.Function) []*ssa.Parameter {
	var out []*ssa.Parameter
	for i, p := range f.Params {
		if i == 0 && f.Signature.Recv() != nil {
			continue
		}
		if isStringy(p.Type()) {
			out = append(out, p)
		}
	}
	return out
}
