package main

// pathflow.go — how string (path) parameters of a function reach call
// arguments and field stores: raw, cleaned (path.Clean family — keeps a
// leading ".."), or reduced (varutil.ReduceAbsPath, which errors when ".."
// would climb over the root).  Shared by C01.R1 and C03.

import (
	"fmt"
	"go/token"
	"go/types"
	"strings"

	"golang.org/x/tools/go/ssa"
)

var reduceFn = modPath + "/varutil.ReduceAbsPath"

// cleaners keep "..": they normalise but do not confine.
var cleanerNames = map[string]bool{"CleanPath": true, "Clean": true}

type PartLeaf struct {
	Origin   Origin
	Param    *ssa.Parameter // the function parameter this leaf derives from (nil if none)
	State    string         // raw | cleaned | reduced | reduced-unguarded | other
	NonConst bool
}

type SinkUse struct {
	Fn       *ssa.Function
	Call     *CallInfo // nil for a field store
	Store    *ssa.Store
	ArgIdx   int
	Value    ssa.Value
	Parts    [][]PartLeaf // concatenation parts, left to right
	SinkName string
}

func (s *SinkUse) Pos() token.Pos {
	if s.Call != nil {
		return s.Call.Pos()
	}
	if s.Store != nil {
		return s.Store.Pos()
	}
	return token.NoPos
}

// concatParts flattens a string concatenation left to right (through +,
// path.Join-like calls and Sprintf).
func concatParts(v ssa.Value, depth int) []ssa.Value {
	if depth > 12 {
		return []ssa.Value{v}
	}
	switch x := v.(type) {
	case *ssa.BinOp:
		if x.Op == token.ADD {
			return append(concatParts(x.X, depth+1), concatParts(x.Y, depth+1)...)
		}
	case *ssa.Call:
		if f := x.Call.StaticCallee(); f != nil {
			switch qualName(f) {
			case "strings.Join":
				// strings.Join([]string{a, b, c}, sep)
				if sl, ok := x.Call.Args[0].(*ssa.Slice); ok {
					if els := arrayElems(sl.X); len(els) > 0 {
						var out []ssa.Value
						for i, e := range els {
							if i > 0 {
								if s, isC := constString(x.Call.Args[1]); !isC || s != "" {
									out = append(out, x.Call.Args[1])
								}
							}
							out = append(out, concatParts(e, depth+1)...)
						}
						return out
					}
				}
			case "strings.(Builder).String", "bytes.(Buffer).String":
				// straight-line accumulation in the block(s) of this function
				ci := callInfo(x, nil, 0)
				if ws := accumulatorWrites(x.Parent(), ci.Recv()); len(ws) > 0 {
					var out []ssa.Value
					for _, w := range ws {
						out = append(out, concatParts(w, depth+1)...)
					}
					return out
				}
			case "path.Join", "path/filepath.Join", "fmt.Sprintf", "fmt.Sprint", modPath + "/varutil.FullPath":
				var out []ssa.Value
				for _, a := range x.Call.Args {
					if sl, ok := a.(*ssa.Slice); ok {
						if els := arrayElems(sl.X); els != nil {
							for _, e := range els {
								out = append(out, concatParts(e, depth+1)...)
							}
							continue
						}
					}
					out = append(out, concatParts(a, depth+1)...)
				}
				if len(out) > 0 {
					return out
				}
			default:
				// single-argument pure helpers (Dir, Clean, CleanPath ...) keep the shape
				if idx, ok := pureStringFuncs[qualName(f)]; ok && len(idx) == 1 && idx[0] >= 0 && idx[0] < len(x.Call.Args) {
					if inner := concatParts(x.Call.Args[idx[0]], depth+1); len(inner) > 1 {
						return inner
					}
				}
			}
		}
	case *ssa.MakeInterface:
		return concatParts(x.X, depth+1)
	case *ssa.ChangeType:
		return concatParts(x.X, depth+1)
	}
	return []ssa.Value{v}
}

// pathTransparent: the default pure helpers plus the reducer (marked in the
// origin's Path so that the state can be read off).
func pathTransparent(ci *CallInfo) []ssa.Value {
	if ci.Static != nil && qualName(ci.Static) == reduceFn {
		return []ssa.Value{ci.Arg(0)}
	}
	return defaultTransparent(ci)
}

// classifyLeaves computes the leaves of one concatenation part.  atBlock is
// where the value is consumed (for the error guard of the reducer).
func classifyLeaves(f *ssa.Function, facts *Facts, part ssa.Value, atBlock *ssa.BasicBlock) []PartLeaf {
	var out []PartLeaf
	for _, o := range Origins(part, FlowOpts{Transparent: pathTransparent, Interproc: 2}) {
		pl := PartLeaf{Origin: o, State: "other"}
		switch o.Kind {
		case "const", "nil", "zero":
			pl.NonConst = false
		case "param":
			pl.NonConst = true
			if p, ok := o.Val.(*ssa.Parameter); ok && isStringy(p.Type()) && p.Parent() == f {
				pl.Param = p
				pl.State = "raw"
				for _, st := range o.Path {
					if cleanerNames[st] && pl.State == "raw" {
						pl.State = "cleaned"
					}
					if st == "ReduceAbsPath" {
						pl.State = "reduced"
					}
				}
				if pl.State == "reduced" && !reducerGuarded(f, facts, o.Via, atBlock) {
					pl.State = "reduced-unguarded"
				}
			}
		default:
			pl.NonConst = true
		}
		out = append(out, pl)
	}
	return out
}

// reducerGuarded: the error of every ReduceAbsPath call crossed on the way is
// known nil where the value is consumed.  A reducer call inside a (nested)
// helper is accepted when every helper on the way never returns a
// possibly-nil error after the failure, and the analysed function has checked
// the outermost helper's error where it consumes the value.
func reducerGuarded(f *ssa.Function, facts *Facts, via []*ssa.Call, atBlock *ssa.BasicBlock) bool {
	for idx, c := range via {
		cf := c.Call.StaticCallee()
		if cf == nil || qualName(cf) != reduceFn {
			continue
		}
		cur := c
		pos := idx
		for {
			if cur.Parent() == f {
				if !callErrKnownNil(facts, cur, atBlock) {
					return false
				}
				break
			}
			g := cur.Parent()
			var cerr ssa.Value
			if ei := errResultIndex(cur.Call.Signature()); ei >= 0 {
				for _, e := range resultN(cur, ei) {
					cerr = e
				}
			}
			if cerr == nil || !failurePropagates(g, cerr) {
				return false
			}
			// the frame that entered g
			var frame *ssa.Call
			for j := pos - 1; j >= 0; j-- {
				if via[j].Call.StaticCallee() == g {
					frame, pos = via[j], j
					break
				}
			}
			if frame == nil {
				return false
			}
			cur = frame
		}
	}
	return true
}

// failurePropagates: in g, wherever errVal may be non-nil, the function
// returns a non-nil error (it never reports success after that failure).
func failurePropagates(g *ssa.Function, errVal ssa.Value) bool {
	gf := factsFor(g)
	for _, r := range returnsOf(g) {
		if gf.KnownNil(r.Block(), errVal, true) {
			continue
		}
		n := len(r.Results)
		if n == 0 || !isErrorType(r.Results[n-1].Type()) {
			return false
		}
		ev := resolve(r.Results[n-1])
		switch {
		case ev == errVal || sameValue(ev, errVal):
		case gf.KnownNil(r.Block(), ev, false):
		case isNilConst(ev):
			return false
		default:
			if _, isCall := ev.(*ssa.Call); !isCall {
				return false
			}
		}
	}
	return true
}

func isStringy(t types.Type) bool {
	b, ok := t.Underlying().(*types.Basic)
	return ok && b.Info()&types.IsString != 0
}

// errorish callees: formatting an error message is not a path sink.
func isMessageSink(name string) bool {
	return strings.HasPrefix(name, modPath+"/varutil/goaterr.") || strings.HasPrefix(name, "fmt.") ||
		strings.HasPrefix(name, "errors.") || strings.HasPrefix(name, "log.")
}

// sinkUses lists every call argument / string-field store in f whose value
// derives (in part) from a string parameter of f.
func sinkUses(f *ssa.Function) []SinkUse {
	facts := ComputeFacts(f)
	var out []SinkUse
	hasParam := func(parts [][]PartLeaf) bool {
		for _, p := range parts {
			for _, l := range p {
				if l.Param != nil {
					return true
				}
			}
		}
		return false
	}
	mk := func(v ssa.Value, b *ssa.BasicBlock) [][]PartLeaf {
		var parts [][]PartLeaf
		for _, pc := range concatPartsIP(v, nil, 0) {
			parts = append(parts, classifyLeavesIP(f, facts, pc, b))
		}
		return parts
	}
	for _, ci := range Calls(f) {
		name := ci.Name()
		if name == reduceFn {
			continue
		}
		if ci.Static != nil {
			if _, pure := pureStringFuncs[qualName(ci.Static)]; pure {
				continue
			}
		}
		if _, isB := ci.Common.Value.(*ssa.Builtin); isB {
			continue
		}
		if isMessageSink(name) {
			continue
		}
		args := ci.Common.Args
		off := 0
		if !ci.Common.IsInvoke() && ci.Common.Signature().Recv() != nil {
			off = 1
		}
		for i := off; i < len(args); i++ {
			if !isStringy(args[i].Type()) {
				continue
			}
			parts := mk(args[i], ci.Block)
			if !hasParam(parts) {
				continue
			}
			nm := name
			if nm == "" {
				nm = "dynamic call"
			}
			out = append(out, SinkUse{Fn: f, Call: ci, ArgIdx: i - off, Value: args[i], Parts: parts, SinkName: nm})
		}
	}
	// stores of strings into struct fields (composite literals, assignments)
	eachInstr(f, func(b *ssa.BasicBlock, i int, in ssa.Instruction) {
		st, ok := in.(*ssa.Store)
		if !ok || !isStringy(st.Val.Type()) {
			return
		}
		fa, ok := st.Addr.(*ssa.FieldAddr)
		if !ok {
			return
		}
		parts := mk(st.Val, b)
		if !hasParam(parts) {
			return
		}
		out = append(out, SinkUse{Fn: f, Store: st, Value: st.Val, Parts: parts, SinkName: "store to field " + fieldName(fa)})
	})
	return out
}

// rebaseViolations: parameter-derived leaves that sit behind a non-constant
// prefix without having been reduced (with the reducer's error checked).
func rebaseViolations(s SinkUse) []PartLeaf {
	var bad []PartLeaf
	seenNonConst := false
	for _, part := range s.Parts {
		for _, l := range part {
			if l.Param != nil && seenNonConst && l.State != "reduced" {
				bad = append(bad, l)
			}
		}
		for _, l := range part {
			if l.NonConst {
				seenNonConst = true
			}
		}
	}
	return bad
}

// isRebased: the sink value has a non-constant prefix in front of a
// parameter-derived part.
func isRebased(s SinkUse) bool {
	seenNonConst := false
	for _, part := range s.Parts {
		for _, l := range part {
			if l.Param != nil && seenNonConst {
				return true
			}
		}
		for _, l := range part {
			if l.NonConst {
				seenNonConst = true
			}
		}
	}
	return false
}

func describeParts(s SinkUse) string {
	var ps []string
	for _, part := range s.Parts {
		var ls []string
		for _, l := range part {
			d := l.Origin.String()
			if l.Param != nil {
				d = fmt.Sprintf("%s(%s)", l.State, l.Param.Name())
			}
			ls = append(ls, d)
		}
		ps = append(ps, strings.Join(ls, "|"))
	}
	return strings.Join(ps, " + ")
}

// stringParams of f (excluding the receiver).
func stringParams(f *ssa.Function) []*ssa.Parameter {
	var out []*ssa.Parameter
	for i, p := range f.Params {
		if i == 0 && f.Signature.Recv() != nil {
			continue
		}
		if isStringy(p.Type()) {
			out = append(out, p)
		}
	}
	return out
}

// partCtx: a concatenation part found inside helper frames (outermost first).
type partCtx struct {
	v      ssa.Value
	frames []*ssa.Call
}

// concatPartsIP: concatParts that also looks into same-module helpers that
// build the string (a call whose result is the concatenation), keeping the
// call frames so that the helper's parameters can be mapped back.
func concatPartsIP(v ssa.Value, frames []*ssa.Call, depth int) []partCtx {
	var out []partCtx
	for _, p := range concatParts(v, 0) {
		if depth < 2 {
			var call *ssa.Call
			idx := 0
			switch x := p.(type) {
			case *ssa.Extract:
				call, _ = x.Tuple.(*ssa.Call)
				idx = x.Index
			case *ssa.Call:
				call = x
			}
			if call != nil {
				// Dir/Clean/... of a value a private helper concatenated: look through both
				if cf := call.Call.StaticCallee(); cf != nil {
					if ix, pure := pureStringFuncs[qualName(cf)]; pure && len(ix) == 1 && ix[0] >= 0 && ix[0] < len(call.Call.Args) {
						if inner := concatPartsIP(call.Call.Args[ix[0]], frames, depth); len(inner) > 1 {
							out = append(out, inner...)
							continue
						}
					}
				}
				if cf := call.Call.StaticCallee(); cf != nil && inModule(cf) && cf.Blocks != nil && qualName(cf) != reduceFn {
					if _, pure := pureStringFuncs[qualName(cf)]; !pure {
						// the (single) return that yields a non-constant string
						var val ssa.Value
						n := 0
						for _, r := range returnsOf(cf) {
							if idx < len(r.Results) && isStringy(r.Results[idx].Type()) {
								if _, isC := r.Results[idx].(*ssa.Const); !isC {
									val = r.Results[idx]
									n++
								}
							}
						}
						if n == 1 {
							out = append(out, concatPartsIP(val, append(append([]*ssa.Call{}, frames...), call), depth+1)...)
							continue
						}
					}
				}
			}
		}
		out = append(out, partCtx{p, frames})
	}
	return out
}

// classifyLeavesIP: classify the leaves of a part found inside helper frames;
// helper parameters are mapped back through the frames to the analysed
// function's own values.
func classifyLeavesIP(f *ssa.Function, facts *Facts, pc partCtx, atBlock *ssa.BasicBlock) []PartLeaf {
	if len(pc.frames) == 0 {
		return classifyLeaves(f, facts, pc.v, atBlock)
	}
	frame := pc.frames[len(pc.frames)-1]
	g := frame.Call.StaticCallee()
	var out []PartLeaf
	for _, o := range Origins(pc.v, FlowOpts{Transparent: pathTransparent, Interproc: 1}) {
		if p, ok := o.Val.(*ssa.Parameter); ok && o.Kind == "param" && p.Parent() == g {
			// map to the caller's argument
			for i, q := range g.Params {
				if q != p || i >= len(frame.Call.Args) {
					continue
				}
				for _, l := range classifyLeavesIP(f, facts, partCtx{frame.Call.Args[i], pc.frames[:len(pc.frames)-1]}, atBlock) {
					// merge the steps crossed inside the helper
					l.Origin.Path = append(append([]string{}, l.Origin.Path...), o.Path...)
					l.Origin.Via = append(append(append([]*ssa.Call{}, l.Origin.Via...), frame), o.Via...)
					if l.Param != nil {
						st := l.State
						for _, step := range o.Path {
							if cleanerNames[step] && st == "raw" {
								st = "cleaned"
							}
							if step == "ReduceAbsPath" {
								st = "reduced"
							}
						}
						if st == "reduced" && !reducerGuarded(f, facts, l.Origin.Via, atBlock) {
							st = "reduced-unguarded"
						}
						l.State = st
					}
					out = append(out, l)
				}
			}
			continue
		}
		pl := PartLeaf{Origin: o, State: "other"}
		switch o.Kind {
		case "const", "nil", "zero":
		default:
			pl.NonConst = true
		}
		out = append(out, pl)
	}
	return out
}

// ---------------------------------------------------------------------------
// error accumulation: errs = append(errs, wrapped); ...; return aggregate(errs)

// isErrAggregator: fn takes one slice of errors and returns an error that can be nil
// only where the slice is known to be empty (goaterr.ToError; computed, not listed).
var aggMemo = map[*ssa.Function]int{}

func isErrAggregator(fn *ssa.Function) bool {
	if fn == nil || fn.Blocks == nil || len(fn.Params) != 1 || fn.Signature.Results().Len() != 1 || !isErrorType(fn.Signature.Results().At(0).Type()) {
		return false
	}
	sl, ok := fn.Params[0].Type().Underlying().(*types.Slice)
	if !ok || !isErrorType(sl.Elem()) {
		return false
	}
	if r, ok := aggMemo[fn]; ok {
		return r == 1
	}
	aggMemo[fn] = 2
	facts := factsFor(fn)
	p := fn.Params[0]
	emptyIn := func(fs factSet) bool {
		for k := range fs {
			bo, ok := k.v.(*ssa.BinOp)
			if !ok {
				continue
			}
			lc, ok := bo.X.(*ssa.Call)
			if !ok {
				continue
			}
			if b, ok := lc.Call.Value.(*ssa.Builtin); !ok || b.Name() != "len" || lc.Call.Args[0] != ssa.Value(p) {
				continue
			}
			kv, ok := constInt(bo.Y)
			if !ok {
				continue
			}
			if (bo.Op == token.EQL && k.pol && kv == 0) || (bo.Op == token.NEQ && !k.pol && kv == 0) || (bo.Op == token.GTR && !k.pol && kv == 0) || (bo.Op == token.LSS && k.pol && kv == 1) {
				return true
			}
		}
		return false
	}
	for _, r := range returnsOf(fn) {
		v := resolve(r.Results[0])
		if isNonNilErrValue(v, 0) {
			continue
		}
		// an element of the slice: non-nil as long as only non-nil errors are collected (checked at the appends)
		if u, ok := v.(*ssa.UnOp); ok && u.Op == token.MUL {
			if ia, ok := u.X.(*ssa.IndexAddr); ok && ia.X == ssa.Value(p) {
				continue
			}
		}
		if mi, ok := v.(*ssa.MakeInterface); ok {
			if _, isAlloc := mi.X.(*ssa.Alloc); isAlloc {
				continue
			}
		}
		if facts.HoldsOnAllEdges(r.Block(), emptyIn) {
			continue
		}
		return false
	}
	aggMemo[fn] = 1
	return true
}

// collectedWhenFailing: slice value s holds at least one (non-nil) error whenever errVal is
// non-nil: it is an append of a non-nil error, or a join each of whose edges either knows
// errVal == nil or brings such a slice.
func collectedWhenFailing(f *ssa.Function, errVal, s ssa.Value, depth int, seen map[ssa.Value]bool) bool {
	if depth > 12 {
		return false
	}
	s = resolve(s)
	facts := factsFor(f)
	switch x := s.(type) {
	case *ssa.Call:
		if b, ok := x.Call.Value.(*ssa.Builtin); ok && b.Name() == "append" && len(x.Call.Args) == 2 {
			// append(base, elems...): the variadic slice literal carries the elements
			if elemsNonNil(facts, x) {
				return true
			}
			return false
		}
		// errs = collect(errs, e...): a collector keeps every non-nil element, so it has collected
		// whenever errVal - one of the elements - is non-nil; otherwise what the base had collected
		if cf := x.Call.StaticCallee(); cf != nil && isErrCollector(cf) && len(x.Call.Args) >= 2 {
			for _, el := range appendedElemsOfCall(x) {
				if re := resolve(el); re == errVal || sameValue(re, errVal) {
					return true
				}
			}
			return collectedWhenFailing(f, errVal, x.Call.Args[0], depth+1, seen)
		}
	case *ssa.Phi:
		if seen[s] {
			return true
		}
		seen[s] = true
		var defB *ssa.BasicBlock
		if di, ok := errVal.(ssa.Instruction); ok {
			defB = di.Block()
		}
		if ex, ok := errVal.(*ssa.Extract); ok {
			if ti, ok := ex.Tuple.(ssa.Instruction); ok {
				defB = ti.Block()
			}
		}
		for i, e := range x.Edges {
			pb := x.Block().Preds[i]
			// an edge that cannot follow the computation of errVal: errVal does not exist yet on it
			if defB != nil && pb != defB && !reachesBlock(defB, pb) {
				continue
			}
			fs := factsOnEdge(facts, pb, x.Block())
			if knownNilIn(fs, errVal, true) {
				continue
			}
			// the predecessor may itself only be reachable with errVal == nil
			if facts.HoldsOnAllEdges(x.Block().Preds[i], func(fs factSet) bool { return knownNilIn(fs, errVal, true) }) {
				continue
			}
			if !collectedWhenFailing(f, errVal, e, depth+1, seen) {
				return false
			}
		}
		return true
	}
	return false
}

// elemsNonNil: every element appended by this append call is an error known non-nil there.
func elemsNonNil(facts *Facts, app *ssa.Call) bool {
	sl, ok := app.Call.Args[1].(*ssa.Slice)
	if !ok {
		return false
	}
	arr, ok := sl.X.(*ssa.Alloc)
	if !ok {
		return false
	}
	n := 0
	for _, r := range *arr.Referrers() {
		ia, ok := r.(*ssa.IndexAddr)
		if !ok {
			continue
		}
		for _, r2 := range *ia.Referrers() {
			if st, ok := r2.(*ssa.Store); ok && st.Addr == ssa.Value(ia) {
				n++
				v := resolve(st.Val)
				if !(isNonNilErrValue(v, 0) || facts.KnownNil(app.Block(), v, false)) {
					return false
				}
			}
		}
	}
	return n > 0
}

// accumulatedAndReported: errVal is never lost: every return of f either knows errVal == nil,
// returns a known non-nil error, or returns aggregate(s) with s collecting on errVal's failure.
func accumulatedAndReported(f *ssa.Function, errVal ssa.Value) bool {
	facts := factsFor(f)
	def, _ := errVal.(ssa.Instruction)
	if ex, ok := errVal.(*ssa.Extract); ok {
		def, _ = ex.Tuple.(ssa.Instruction)
	}
	any := false
	for _, r := range returnsOf(f) {
		if def != nil && !reachableFrom(def, r) {
			continue
		}
		if len(r.Results) == 0 {
			return false
		}
		if facts.HoldsOnAllEdges(r.Block(), func(fs factSet) bool { return knownNilIn(fs, errVal, true) }) {
			continue
		}
		v := resolve(r.Results[len(r.Results)-1])
		if isNonNilErrValue(v, 0) || facts.KnownNil(r.Block(), v, false) {
			continue
		}
		call, ok := v.(*ssa.Call)
		if !ok || !isErrAggregator(call.Call.StaticCallee()) {
			return false
		}
		if !collectedWhenFailing(f, errVal, call.Call.Args[0], 0, map[ssa.Value]bool{}) {
			return false
		}
		any = true
	}
	return any
}

// isErrCollector: fn(base []error, more ...error) []error appends every non-nil element of
// its variadic parameter to what it returns (goaterr.AppendError; computed, not listed): the
// only way round the append inside the loop is the edge on which the element is nil.
var collMemo = map[*ssa.Function]int{}

func isErrCollector(fn *ssa.Function) bool {
	if fn == nil || fn.Blocks == nil || !fn.Signature.Variadic() || fn.Signature.Results().Len() != 1 {
		return false
	}
	if r, ok := collMemo[fn]; ok {
		return r == 1
	}
	collMemo[fn] = 2
	vp := fn.Params[len(fn.Params)-1]
	sl, ok := vp.Type().Underlying().(*types.Slice)
	if !ok || !isErrorType(sl.Elem()) {
		return false
	}
	if rs, ok := fn.Signature.Results().At(0).Type().Underlying().(*types.Slice); !ok || !isErrorType(rs.Elem()) {
		return false
	}
	facts := factsFor(fn)
	// the append of an element of vp
	var app *ssa.Call
	var elem ssa.Value
	eachInstr(fn, func(_ *ssa.BasicBlock, _ int, in ssa.Instruction) {
		c, ok := in.(*ssa.Call)
		if !ok {
			return
		}
		if b, ok := c.Call.Value.(*ssa.Builtin); !ok || b.Name() != "append" || len(c.Call.Args) != 2 {
			return
		}
		for _, el := range appendedElemsOfCall(c) {
			if ia := elementSource(el); ia != nil && ia.X == ssa.Value(vp) && ascendingIndex(ia.Index) {
				app, elem = c, resolve(el)
			}
		}
	})
	if app == nil {
		return false
	}
	ia := elementSource(elem)
	body := ia.Block()
	// every way from the element's load round the loop without the append knows the element nil
	seen := map[*ssa.BasicBlock]bool{}
	okAll := true
	var walk func(b *ssa.BasicBlock)
	walk = func(b *ssa.BasicBlock) {
		if seen[b] || b == app.Block() {
			return
		}
		seen[b] = true
		if len(b.Succs) == 0 {
			if !facts.KnownNil(b, elem, true) {
				okAll = false
			}
			return
		}
		for _, sc := range b.Succs {
			if sc.Dominates(body) && sc != body || sc == body {
				// back to the loop header (or the body again): the iteration ends here
				if !knownNilIn(factsOnEdge(facts, b, sc), elem, true) {
					okAll = false
				}
				continue
			}
			walk(sc)
		}
	}
	walk(body)
	// the result is the collected list
	for _, r := range returnsOf(fn) {
		found := false
		seenV := map[ssa.Value]bool{}
		var rec func(v ssa.Value, d int)
		rec = func(v ssa.Value, d int) {
			if v == nil || seenV[v] || d > 8 {
				return
			}
			seenV[v] = true
			if v == ssa.Value(app) {
				found = true
			}
			if p, ok := v.(*ssa.Phi); ok {
				for _, e := range p.Edges {
					rec(e, d+1)
				}
			}
		}
		rec(resolve(r.Results[0]), 0)
		if !found {
			okAll = false
		}
	}
	if okAll {
		collMemo[fn] = 1
	}
	return okAll
}

// nilImpliedByAggregate: the facts contain agg(coll(base, x1..xn)) == nil for an aggregate/collector
// pair, and target is one of the xi, or xi is target wrapped on its non-nil edge (phi of target and an
// error built where target is non-nil): then target is nil.
func nilImpliedByAggregate(fs factSet, target ssa.Value) bool {
	for k := range fs {
		bo, ok := k.v.(*ssa.BinOp)
		if !ok || (bo.Op != token.EQL && bo.Op != token.NEQ) || !isNilConst(bo.Y) {
			continue
		}
		if (bo.Op == token.EQL) != k.pol {
			continue // says non-nil
		}
		agg, ok := resolve(bo.X).(*ssa.Call)
		if !ok || !isErrAggregator(agg.Call.StaticCallee()) {
			continue
		}
		coll, ok := resolve(agg.Call.Args[0]).(*ssa.Call)
		if !ok || !isErrCollector(coll.Call.StaticCallee()) {
			continue
		}
		last := coll.Call.Args[len(coll.Call.Args)-1]
		sl, ok := last.(*ssa.Slice)
		if !ok {
			continue
		}
		arr, ok := sl.X.(*ssa.Alloc)
		if !ok {
			continue
		}
		for _, r := range *arr.Referrers() {
			ea, isIA := r.(*ssa.IndexAddr)
			if !isIA {
				continue
			}
			for _, r2 := range *ea.Referrers() {
				st, isSt := r2.(*ssa.Store)
				if !isSt || st.Addr != ssa.Value(ea) {
					continue
				}
				x := resolve(st.Val)
				if x == target || sameValue(x, target) {
					return true
				}
				if p, isPhi := x.(*ssa.Phi); isPhi {
					okPhi, has := true, false
					for _, e := range p.Edges {
						re := resolve(e)
						switch {
						case re == target || sameValue(re, target):
							has = true
						case isNonNilErrValue(re, 0):
						default:
							okPhi = false
						}
					}
					if okPhi && has {
						return true
					}
				}
			}
		}
	}
	return false
}
