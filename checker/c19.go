package main

import (
	"fmt"
	"go/types"
	"strings"

	"golang.org/x/tools/go/ssa"
)

func init() {
	register(&PropDef{ID: "C19", Title: "Template providers: layered definitions, isolated views, cache-transparent", Rules: rulesC19,
		Explanation: "Decided for both ghprovider.Provider and gtprovider.Provider (sibling implementations must agree): R1 the cache maps (layouts, views) are read and written only under their own mutex — reads included, so concurrent first requests cannot hit 'concurrent map read and map write'; R2 every template handed to the loader (and so to Parse) originates from Clone() or template.New in that build step, never from a cache or from another layer's shared template; R3 the view layer is cloned from Layout(...)'s result and the layout layer from Base()'s; R4 every store into a cache is on the isCached edge, stores a value the builder then returns, and no error return is reachable after it (a half-built template is never cached); the view cache key separates layout and view name by a non-empty constant; R5 the lock order view -> layout -> base is acyclic; R7 (html provider) the private builders layout/view return only templates cloned in that build step, never the shared template of the layer below (html/template cannot Clone a set once it was executed). " +
			"Added in round 2: R1 also requires that no method of a provider has a value receiver (that would lock a copy of the mutexes while the maps stay shared); R6 the walker that feeds the template loaders looks at entry names only to recognise '.'/'..' and leaves its listing loop early only with a non-nil error (a nested directory does not hide the entries after it). " +
			"Added in round 5: R1 also covers any other map field of a provider that is written after construction (bookkeeping shared by the layers needs one guard, not the lock of whichever layer happens to run); the caches may be sync.Map fields (Store/LoadOrStore are the stores judged by R4). " +
			"NOT decided: equivalence of rendered output with a reference renderer; html/template's own escaping state.",
	})
}

func rulesC19(c *Ctx) {
	n := 0
	for _, pk := range []string{"goathtml/ghprovider", "goattext/gtprovider"} {
		T := c.P.Named(pk, "Provider")
		fns := c.P.PkgFuncs(pk)
		short := lastSeg(pk)
		if T == nil || len(fns) == 0 {
			c.Bad("anchor", short+".Provider", 0, "anchor not found; cannot certify")
			continue
		}
		n++
		le := NewLockEngine(c.P)
		// ---- R1 ----
		// every map-typed field of the provider is a cache (found by type, not by name)
		k := 0
		var cacheMaps []string
		if pst, ok := T.Underlying().(*types.Struct); ok {
			for i := 0; i < pst.NumFields(); i++ {
				if mt, isMap := pst.Field(i).Type().Underlying().(*types.Map); isMap {
					if !strings.HasSuffix(mt.Elem().String(), "template.Template") {
						// e.g. template.FuncMap: read-only configuration, not a cache - unless the provider writes it
						// after construction (bookkeeping shared by the layers): then it needs one guard like the caches
						written := false
						fi := i
						for _, f := range fns {
							eachInstr(f, func(_ *ssa.BasicBlock, _ int, in ssa.Instruction) {
								var m ssa.Value
								switch x := in.(type) {
								case *ssa.MapUpdate:
									m = x.Map
								case *ssa.Call:
									if b, ok := x.Call.Value.(*ssa.Builtin); ok && b.Name() == "delete" && len(x.Call.Args) > 0 {
										m = x.Call.Args[0]
									}
								}
								if u, ok := m.(*ssa.UnOp); ok {
									if fa, ok := u.X.(*ssa.FieldAddr); ok && fa.Field == fi && structOf(fa.X.Type()) == pst && !freshBase(fa.X) {
										written = true
									}
								}
							})
						}
						if written {
							guardedAccessRule(c, le, "R1", fns, T, pst.Field(i).Name(), "", nil)
						}
						continue
					}
					cacheMaps = append(cacheMaps, refFieldName(lastSeg(typeString(T)), pst.Field(i).Name()))
					k += guardedAccessRule(c, le, "R1", fns, T, pst.Field(i).Name(), "", nil)
				}
				// a cache kept in a sync.Map: every access is a method call of the map (safe by its contract)
				if pst.Field(i).Type().String() == "sync.Map" {
					nm := refFieldName(lastSeg(typeString(T)), pst.Field(i).Name())
					cacheMaps = append(cacheMaps, nm)
					for _, f := range fns {
						for _, sc := range Calls(f) {
							if fld, _, _, _ := syncMapOp(sc.Instr); fld == nm {
								k++
								c.OK("R1", fmt.Sprintf("%s.%s %s in %s", short, nm, sc.Static.Name(), fname(f)), sc.Pos(), "through sync.Map (goroutine-safe by contract)")
							}
						}
					}
				}
			}
		}
		isCacheMap := func(n string) bool {
			for _, m := range cacheMaps {
				if m == n {
					return true
				}
			}
			return false
		}
		if k < 4 {
			c.Bad("R1", short+" cache accesses", 0, fmt.Sprintf("only %d accesses to the cache maps found (>= 4 expected); cannot certify", k))
		}
		// the provider's mutexes are never copied with the object (value receivers)
		ruleNoLockCopy(c, "R1", []*types.Named{T})
		// ---- R2 / R3 ----
		loaderCalls := 0
		for _, f := range fns {
			for _, ci := range Calls(f) {
				if ci.Static == nil || ci.Static.Name() != "NewTemplateLoader" {
					continue
				}
				loaderCalls++
				os := Origins(ci.Arg(0), FlowOpts{LiftParams: 1})
				priv := allOrigins(os, func(o Origin) bool {
					return o.Kind == "call" && (strings.HasSuffix(o.Name, "/template.(Template).Clone#0") || strings.HasSuffix(o.Name, "/template.New#0"))
				})
				con := fmt.Sprintf("parse target in %s", fname(f))
				c.Check(priv, "R2", con, ci.Pos(), "a fresh Clone()/New() of this build step", "the loader parses into "+originsString(os)+" — definitions of this layer leak into a shared/cached template (other views, the layout)")
				// R3 layering
				for _, o := range os {
					call, ok := o.Val.(*ssa.Call)
					if !ok || !strings.HasSuffix(o.Name, ".(Template).Clone#0") {
						continue
					}
					owner := call.Parent()
					layer := ""
					switch {
					case strings.HasSuffix(owner.Name(), "view"):
						layer = "Layout"
					case strings.HasSuffix(owner.Name(), "layout"):
						layer = "Base"
					}
					if layer == "" {
						continue
					}
					okL := false
					{
						ro := Origins(call.Call.Args[0], FlowOpts{})
						if hasOrigin(ro, func(x Origin) bool {
							return x.Kind == "call" && strings.Contains(x.Name, "(Provider)."+layer+"#0")
						}) && allOrigins(ro, func(x Origin) bool { return x.Kind == "call" && strings.Contains(x.Name, "(Provider)."+layer+"#0") }) {
							okL = true
						}
					}
					c.Check(okL, "R3", fmt.Sprintf("%s builds on %s()", fname(owner), layer), call.Pos(), "cloned from the previous layer", "the layer is not cloned from "+layer+"()'s result — helper/layout definitions are missing or the wrong layer is extended")
				}
			}
		}
		if loaderCalls < 1 {
			c.Bad("R2", short+" loader calls", 0, "no NewTemplateLoader call found; cannot certify")
		}
		// ---- R7 (html only) a layer hands out its own copy, never the shared template of the layer below ----
		// html/template refuses to Clone a template set once any template of it was executed: a view or
		// layout that *is* the shared lower-layer template gets executed by its caller, and every later
		// build on that layer fails - with caching on, not with caching off
		if strings.HasSuffix(pk, "ghprovider") {
			n7 := 0
			for _, f := range fns {
				if f.Signature.Recv() == nil || f.Signature.Results().Len() < 1 || !strings.HasSuffix(f.Signature.Results().At(0).Type().String(), "html/template.Template") {
					continue
				}
				lower := ""
				switch {
				case strings.HasSuffix(strings.ToLower(f.Name()), "view"):
					lower = "Layout"
				case strings.HasSuffix(strings.ToLower(f.Name()), "layout"):
					lower = "Base"
				}
				if lower == "" || f.Object() == nil || f.Object().Exported() {
					continue // the exported accessors return what the builder or the cache holds
				}
				n7++
				bad := ""
				ff := factsFor(f)
				for _, ci := range Calls(f) {
					lc, isCall := ci.Instr.(*ssa.Call)
					if !isCall || ci.Static == nil || ci.Static.Signature.Recv() == nil || !strings.EqualFold(ci.Static.Name(), lower) || !strings.HasSuffix(fname(ci.Static), "(*Provider)."+ci.Static.Name()) {
						continue
					}
					lerr := firstOr(resultN(lc, 1))
					// every way from the lower layer's template to a successful return passes a Clone()
					exits := MustPassF(f, lc, func(in ssa.Instruction) bool {
						x := callInfo(in, nil, 0)
						return x != nil && x.Static != nil && strings.HasSuffix(qualName(x.Static), "/template.(Template).Clone")
					}, func(_ int, pred, succ *ssa.BasicBlock) bool {
						return lerr == nil || !knownNilIn(factsOnEdge(ff, pred, succ), lerr, false)
					})
					for _, e := range exits {
						r, isRet := e.Instr.(*ssa.Return)
						if !isRet || isNilConst(resolve(r.Results[0])) {
							continue
						}
						bad = "the return at " + c.pos(r.Pos()) + " can hand out the result of " + lower + "() itself (no Clone() on the way)"
					}
				}
				c.Check(bad == "", "R7", fmt.Sprintf("%s hands out its own copy", fname(f)), f.Pos(), "every returned template comes from Clone()/New() of this build step",
					bad+" — the shared "+lower+" template is executed by the caller, after which html/template cannot Clone it any more: later views of that layout fail with caching on and work with caching off")
			}
			c.Floor("R7", n7, 2)
		}
		// ---- R4 cache transparency ----
		stI, ci := fieldIndex(T, "isCached")
		_ = stI
		stores := 0
		// cache stores, lifted to the call sites when they sit in a private store helper without results
		type cacheStore struct {
			f      *ssa.Function
			b      *ssa.BasicBlock
			in     ssa.Instruction
			val    ssa.Value
			what   string
			cached bool      // the store itself is on the isCached edge of the helper it sits in
			alt    ssa.Value // the helper call's own result, when the helper hands the stored value back
		}
		onCachedEdge := func(g *ssa.Function, b *ssa.BasicBlock) bool {
			for k := range factsFor(g).At(b) {
				if nm, _ := fieldLoadName(k.v); nm == "isCached" && k.pol {
					return true
				}
			}
			return false
		}
		// mapParamIsCache: map parameter p of a private helper always receives a cache-map field
		mapParamCache := func(f *ssa.Function, p *ssa.Parameter) string {
			name := ""
			for _, a := range liftSites(p) {
				nm, base := fieldLoadName(a)
				if !isCacheMap(nm) || base == nil {
					return ""
				}
				name = nm
			}
			return name
		}
		var cstores []cacheStore
		for _, f := range fns {
			eachInstr(f, func(b *ssa.BasicBlock, _ int, in ssa.Instruction) {
				var val ssa.Value
				what := ""
				switch x := in.(type) {
				case *ssa.MapUpdate:
					if nm, base := fieldLoadName(x.Map); isCacheMap(nm) && base != nil && !freshBase(base) {
						val, what = x.Value, nm
					}
					// the cache map is handed to a private store helper as a parameter
					if mp, isP := x.Map.(*ssa.Parameter); isP && f.Object() != nil && !f.Object().Exported() {
						if nm := mapParamCache(f, mp); nm != "" {
							vp, isVP := resolve(x.Value).(*ssa.Parameter)
							vi := -1
							for i, q := range f.Params {
								if isVP && q == vp {
									vi = i
								}
							}
							handsBack := vi >= 0
							for _, r := range returnsOf(f) {
								if len(r.Results) == 0 || resolve(r.Results[0]) != ssa.Value(vp) {
									handsBack = false
								}
							}
							if vi >= 0 {
								for _, g := range fns {
									for _, ci := range Calls(g) {
										if ci.Static == f && ci.Kind == "call" && vi < len(ci.Common.Args) {
											cs := cacheStore{g, ci.Block, ci.Instr, ci.Common.Args[vi], nm, onCachedEdge(f, b), nil}
											if handsBack {
												cs.alt = ci.Value()
											}
											cstores = append(cstores, cs)
										}
									}
								}
								return
							}
						}
					}
				case *ssa.Call:
					if fld, op, _, v := syncMapOp(x); fld != "" && isCacheMap(fld) && (op == "Store" || op == "LoadOrStore" || op == "Swap") {
						val, what = v, fld
					}
				case *ssa.Store:
					if fa, ok := x.Addr.(*ssa.FieldAddr); ok && strings.HasSuffix(fieldName(fa), ".Provider.baseTemplate") && !freshBase(fa.X) {
						if isNilConst(resolve(x.Val)) {
							return // the slot is emptied (a flush), not filled: nothing cached can differ from what is built
						}
						val, what = x.Val, "baseTemplate"
					}
				}
				if what == "" {
					return
				}
				if pp, isP := resolve(val).(*ssa.Parameter); isP && f.Signature.Results().Len() == 0 {
					pi := -1
					for i, q := range f.Params {
						if q == pp {
							pi = i
						}
					}
					lifted := false
					for _, g := range fns {
						for _, ci := range Calls(g) {
							if ci.Static == f && ci.Kind == "call" && pi >= 0 && pi < len(ci.Common.Args) {
								cstores = append(cstores, cacheStore{g, ci.Block, ci.Instr, ci.Common.Args[pi], what, onCachedEdge(f, b), nil})
								lifted = true
							}
						}
					}
					if lifted {
						return
					}
				}
				cstores = append(cstores, cacheStore{f, b, in, val, what, false, nil})
			})
		}
		for _, cs := range cstores {
			f, b, in, val, what := cs.f, cs.b, cs.in, cs.val, cs.what
			facts := factsFor(f)
			func() {
				stores++
				con := fmt.Sprintf("store into %s cache in %s", what, fname(f))
				cached := cs.cached
				for k := range facts.At(b) {
					if nm, _ := fieldLoadName(k.v); nm == "isCached" && k.pol {
						cached = true
					}
				}
				okR := true
				why := ""
				if !cached {
					okR, why = false, "the store is not confined to the isCached edge (caching off still caches)"
				}
				exits := RunPaths(f, in, 0, func(st int, _ ssa.Instruction, _ bool) int { return st }, false, nil)
				for _, e := range exits {
					r := e.Instr.(*ssa.Return)
					if len(r.Results) == 0 {
						okR, why = false, "the cache is filled in a function without results; cannot relate the cached value to what is returned"
						continue
					}
					if !sameVarOrValue(r.Results[0], val, in, r) && !(cs.alt != nil && resolve(r.Results[0]) == cs.alt) {
						okR, why = false, "a return after the store yields a different template than the cached one"
					}
					if !isNilConst(resolve(r.Results[len(r.Results)-1])) {
						okR, why = false, "an error return is reachable after the store: a half-built template stays cached and later requests silently succeed with definitions missing"
					}
				}
				if len(exits) == 0 {
					okR, why = false, "no return after the store"
				}
				c.Check(okR, "R4", con, in.Pos(), "on the isCached edge; the cached value is what is returned, with a nil error", why)
			}()
		}
		if ci < 0 || stores < 1 {
			c.Bad("R4", short+" cache stores", 0, fmt.Sprintf("found %d cache stores (>= 3 expected)", stores))
		}
		// cache keys: a key built from several names separates them by a constant
		keysSeen := 0
		for _, f := range fns {
			eachInstr(f, func(_ *ssa.BasicBlock, _ int, in ssa.Instruction) {
				mu, ok := in.(*ssa.MapUpdate)
				if !ok {
					// sync.Map form: Store(key, value)
					if fld, op, key, v := syncMapOp(in); fld != "" && isCacheMap(fld) && (op == "Store" || op == "LoadOrStore" || op == "Swap") {
						mu = &ssa.MapUpdate{Key: key, Value: v}
						ok = true
					}
				} else if nm, base := fieldLoadName(mu.Map); !isCacheMap(nm) || base == nil || freshBase(base) {
					mp, isP := mu.Map.(*ssa.Parameter)
					if !isP || mapParamCache(f, mp) == "" {
						return
					}
				}
				if !ok {
					return
				}
				muPos := in.Pos()
				_ = muPos
				// the key as its builder wrote it (a parameter is followed to the call sites)
				var keyVals []ssa.Value
				if p, isP := resolve(mu.Key).(*ssa.Parameter); isP {
					keyVals = liftSites(p)
					// the key may be handed down through more than one private function
					for depth := 0; depth < 3; depth++ {
						var next []ssa.Value
						again := false
						for _, kv := range keyVals {
							if p2, isP2 := resolve(kv).(*ssa.Parameter); isP2 {
								if ls := liftSites(p2); len(ls) > 0 {
									next = append(next, ls...)
									again = true
									continue
								}
							}
							next = append(next, kv)
						}
						keyVals = next
						if !again {
							break
						}
					}
				}
				if len(keyVals) == 0 {
					keyVals = []ssa.Value{mu.Key}
				}
				for _, kv := range keyVals {
					parts := flattenTemplate(resolveTop(kv))
					holes := 0
					okK := true
					prevHole := false
					for _, p := range parts {
						if p.hole == "" {
							if p.konst != "" {
								prevHole = false
							}
							continue
						}
						holes++
						if prevHole {
							okK = false
						}
						prevHole = true
					}
					if holes < 2 {
						continue // a single name: nothing to separate
					}
					keysSeen++
					c.Check(okK, "R4", short+" composite cache key", muPos, "the names in the key are separated by a constant: "+renderTemplate(parts),
						"a cache key joins two names without a separator ("+renderTemplate(parts)+") — two (layout, view) pairs share one cache slot")
				}
			})
		}
		if keysSeen == 0 {
			c.Bad("R4", short+" composite cache key", 0, "no cache key built from layout and view name found; cannot certify")
		}
		// ---- R5 lock order ----
		edges := le.OrderEdges(fns)
		cyc := findCycle(edges, nil)
		var es []string
		seen := map[string]bool{}
		for _, e := range edges {
			s := e.From + " -> " + e.To
			if !seen[s] {
				seen[s] = true
				es = append(es, s)
			}
		}
		c.Check(cyc == nil && len(es) >= 2, "R5", short+" lock order", 0, "acyclic: "+strings.Join(es, "; "), "lock order is cyclic or cannot be established: "+strings.Join(append(cyc, es...), " "))
	}
	if n < 2 {
		c.Bad("anchor", "both providers", 0, "fewer than two providers analysed")
	}
	_ = types.Typ

	// ---- R6 the walker that feeds the template loaders visits every entry ----
	c.Floor("R6", ruleWalkersVisitAll(c, "R6"), 2)
}

// resolveTop: look through loads of spilled locals.
func resolveTop(v ssa.Value) ssa.Value { return resolve(v) }

// sameVarOrValue: a and b are the same SSA value, or loads of the same local
// variable with no store to it between instruction `from` and `to`.
func sameVarOrValue(a, b ssa.Value, from, to ssa.Instruction) bool {
	if resolve(a) == resolve(b) {
		return true
	}
	la, ok1 := a.(*ssa.UnOp)
	lb, ok2 := b.(*ssa.UnOp)
	if !ok1 || !ok2 {
		return false
	}
	aa, ok1 := la.X.(*ssa.Alloc)
	ab, ok2 := lb.X.(*ssa.Alloc)
	if !ok1 || !ok2 || aa != ab {
		return false
	}
	for _, r := range *aa.Referrers() {
		if st, ok := r.(*ssa.Store); ok && st.Addr == ssa.Value(aa) {
			if ld, ok := st.Val.(*ssa.UnOp); ok && ld.X == ssa.Value(aa) {
				continue // `return x, nil` re-stores the named result into itself
			}
			if reachableFrom(from, st) && reachableFrom(st, to) {
				return false
			}
		}
	}
	return true
}

// syncMapOp: in is a call of a sync.Map method on a struct field: returns the field's
// (reference) name, the method, and the key/value arguments (interfaces unwrapped).
func syncMapOp(in ssa.Instruction) (field, op string, key, val ssa.Value) {
	call, ok := in.(*ssa.Call)
	if !ok {
		return
	}
	cal := call.Call.StaticCallee()
	if cal == nil || !strings.HasPrefix(qualName(cal), "sync.(Map).") || len(call.Call.Args) < 1 {
		return
	}
	fa, ok := call.Call.Args[0].(*ssa.FieldAddr)
	if !ok || freshBase(fa.X) {
		return
	}
	n := fieldName(fa)
	field, op = n[strings.LastIndex(n, ".")+1:], cal.Name()
	un := func(v ssa.Value) ssa.Value {
		if mi, ok := v.(*ssa.MakeInterface); ok {
			return mi.X
		}
		return v
	}
	if len(call.Call.Args) > 1 {
		key = un(call.Call.Args[1])
	}
	if len(call.Call.Args) > 2 {
		val = un(call.Call.Args[2])
	}
	return
}
