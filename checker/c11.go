package main

import (
	"fmt"
	"go/constant"
	"go/token"
	"go/types"
	"sort"
	"strings"

	"golang.org/x/tools/go/ssa"
)

func init() {
	register(&PropDef{ID: "C11", Title: "Scope close protocol: ordered events, commit xor rollback, waits for children", Rules: rulesC11,
		Explanation: "Decided (structural necessary conditions, all paths of scope.(*Scope).Close and its helpers): R1 on every entry->return path of Close the events form the word guard, guard-under-lock, set-closed, BeforeClose, Wait, then exactly one of (BeforeRollback Rollback AfterRollback) / (BeforeCommit Commit AfterCommit), then close(); close() fires AfterClose and then signs off from the parent iff one is registered; R2 the rollback triple is on the non-nil edge of that Wait's result and the commit triple on its nil edge; R3 the double-close guard dominates every event, the closed flag is set under the scope mutex after a guard evaluated under that mutex, and Kill/Stop/AppendError test the flag first; R4 Scope.Wait waits (on every path) for the same WaitGroup that AddTasks feeds and DoneTask drains, and AddTasks refuses a finished scope without adding; R5 every return of Close returns Err() evaluated after the last trigger; R6 listeners are kept in append order, Trigger walks them from the first in order and returns the first error, a child event scope triggers its parent's listeners first; R7 a child scope defaults to the parent's own context, and an isolated context uses its parent only through read-only methods and is stopped/killed by its watcher on the parent's done branch; R8 Kill of a context records an error on every path (so a kill in a child sharing the parent's context fails the parent, whatever happened before). " +
			"R4 also: Close reaches Wait on every path (a scope that already failed still waits for its tasks and children), and scope.NewChild calls parent.AddTasks on every path (children with their own context are counted too). " +
			"Added in round 7: R3 recognises the closed flag when it is read through a component of a private multi-result accessor (closed, stack := scp.closeState()), and a double-close guard written as one CompareAndSwap(&closed, clear, set) whose failing edge panics (test-and-set in one step stands for guard - lock - guard - set). " +
			"NOT decided: outcomes under all interleavings of add/done/kill/close issued from other goroutines; listener side effects.",
	})
}

// eventConstNames: value -> name for the exported *Event constants of package app.
func eventConstNames(p *Prog) map[int64]string {
	out := map[int64]string{}
	pk := p.ByPath[modPath+"/app"]
	if pk == nil || pk.Types == nil {
		return out
	}
	sc := pk.Types.Scope()
	for _, n := range sc.Names() {
		if !strings.HasSuffix(n, "Event") {
			continue
		}
		if cn, ok := sc.Lookup(n).(*types.Const); ok && cn.Val().Kind() == constant.Int {
			if v, ok := constant.Int64Val(cn.Val()); ok {
				out[v] = strings.TrimSuffix(n, "Event")
			}
		}
	}
	return out
}

// triggerEvent: `in` is a call of EventScope.Trigger with a constant event id.
func triggerEvent(in ssa.Instruction, names map[int64]string) string {
	return triggerEventB(in, names, nil)
}

// triggerEventB: as triggerEvent, with the parameters of the enclosing private
// helper bound to the (constant) arguments of the call being expanded.
func triggerEventB(in ssa.Instruction, names map[int64]string, bind map[*ssa.Parameter]ssa.Value) string {
	ci := callInfo(in, nil, 0)
	if ci == nil || ci.Kind != "call" {
		return ""
	}
	nm := ""
	if ci.Method != nil {
		nm = ci.Method.Name()
	} else if ci.Static != nil {
		nm = ci.Static.Name()
	}
	if nm != "Trigger" {
		return ""
	}
	a := ci.Arg(0)
	if mi, ok := a.(*ssa.MakeInterface); ok {
		a = mi.X
	}
	if p, ok := a.(*ssa.Parameter); ok && bind != nil && bind[p] != nil {
		a = bind[p]
		if mi, ok := a.(*ssa.MakeInterface); ok {
			a = mi.X
		}
	}
	if tableElemSourceB(a, names, bind) != nil {
		return "" // fired from a constant table: accounted for where the loop over the table starts
	}
	if k, ok := constInt(a); ok {
		if n, ok := names[k]; ok {
			if n == "Error" {
				return "" // the error event is not part of the close protocol
			}
			return n
		}
		return fmt.Sprintf("event#%d", k)
	}
	return "Trigger(?)"
}

// eventWords: all event sequences of f's entry->return paths.
func eventWords(f *ssa.Function, classify func(in ssa.Instruction) string) ([]string, bool) {
	words := []string{""}
	index := map[string]int{"": 0}
	overflow := false
	// a state is a set of words (joined by "\n"): a helper with several words forks the set
	exits := RunPaths(f, nil, 0, func(st int, in ssa.Instruction, deferred bool) int {
		ev := classify(in)
		if ev == "" {
			return st
		}
		alts := []string{ev}
		if strings.HasPrefix(ev, "(") && strings.HasSuffix(ev, ")") && strings.Contains(ev, " | ") {
			alts = strings.Split(ev[1:len(ev)-1], " | ")
		}
		set := map[string]bool{}
		for _, w := range strings.Split(words[st], "\n") {
			for _, a := range alts {
				nw := w
				if a != "" {
					if nw != "" {
						nw += " "
					}
					nw += a
				}
				set[nw] = true
			}
		}
		var ws []string
		for w := range set {
			ws = append(ws, w)
		}
		sort.Strings(ws)
		w := strings.Join(ws, "\n")
		if len(w) > 4000 {
			overflow = true
			return -1
		}
		if i, ok := index[w]; ok {
			return i
		}
		index[w] = len(words)
		words = append(words, w)
		return len(words) - 1
	}, false, nil)
	seen := map[string]bool{}
	var out []string
	for _, e := range exits {
		for _, w := range strings.Split(words[e.State], "\n") {
			if !seen[w] {
				seen[w] = true
				out = append(out, w)
			}
		}
	}
	return out, overflow
}

// scopeRoles: unexported fields and helpers of scope.Scope discovered by type
// and by what the exported methods do.
type scopeRoles struct {
	closed, wg, parent, mu    string
	guard, closeH, prevClosed *ssa.Function
}

func discoverScopeRoles(c *Ctx) *scopeRoles {
	r := &scopeRoles{}
	scopeT := c.P.Named(scopePkg, "Scope")
	closeF := c.P.Func(scopePkg, "Scope", "Close")
	if scopeT == nil || closeF == nil {
		return nil
	}
	st := scopeT.Underlying().(*types.Struct)
	for i := 0; i < st.NumFields(); i++ {
		f := st.Field(i)
		ts := f.Type().String()
		switch {
		case ts == "sync.WaitGroup":
			r.wg = f.Name()
		case ts == "sync.Mutex" || ts == "sync.RWMutex":
			r.mu = f.Name()
		case !f.Embedded() && strings.HasSuffix(ts, "/app.Scope"):
			r.parent = f.Name()
		}
	}
	// closed: the bool field stored true in Close (or in a private helper of it)
	for _, g := range append([]*ssa.Function{closeF}, reachableSamePkg(closeF, 2)...) {
		if g != closeF && (g.Signature.Recv() == nil || (g.Object() != nil && g.Object().Exported())) {
			continue
		}
		eachInstr(g, func(_ *ssa.BasicBlock, _ int, in ssa.Instruction) {
			// x.F = true, or atomic.StoreT(&x.F, non-zero)
			if n := flagSetInstr(in); strings.HasPrefix(n, "scope.Scope.") && r.closed == "" {
				r.closed = n[strings.LastIndex(n, ".")+1:]
			}
		})
	}
	names := eventConstNames(c.P)
	deepEv := expandHelpers(names, func(in ssa.Instruction, bind map[*ssa.Parameter]ssa.Value) string {
		if ev := triggerEventB(in, names, bind); ev != "" {
			return ev
		}
		return tableLoopWord(in, names, bind)
	})
	for _, ci := range Calls(closeF) {
		g := ci.Static
		if g == nil || g.Pkg != closeF.Pkg || g.Signature.Recv() == nil || (g.Object() != nil && g.Object().Exported()) {
			continue
		}
		hasPanic, hasAfterClose := false, false
		eachInstr(g, func(_ *ssa.BasicBlock, _ int, in ssa.Instruction) {
			if _, ok := in.(*ssa.Panic); ok {
				hasPanic = true
			}
			if strings.Contains(deepEv(in), "AfterClose") {
				hasAfterClose = true
			}
		})
		if hasPanic && r.guard == nil {
			r.guard = g
		}
		if hasAfterClose {
			r.closeH = g
		}
	}
	if kill := c.P.Func(scopePkg, "Scope", "Kill"); kill != nil {
		for _, ci := range Calls(kill) {
			g := ci.Static
			if g == nil || g.Pkg != kill.Pkg || g.Signature.Recv() == nil {
				continue
			}
			hasPanic := false
			eachInstr(g, func(_ *ssa.BasicBlock, _ int, in ssa.Instruction) {
				if _, ok := in.(*ssa.Panic); ok {
					hasPanic = true
				}
			})
			if hasPanic && r.prevClosed == nil {
				r.prevClosed = g
			}
		}
	}
	if r.closed == "" || r.wg == "" || r.mu == "" || r.guard == nil || r.closeH == nil {
		return nil
	}
	return r
}

func rulesC11(c *Ctx) {
	names := eventConstNames(c.P)
	closeF := c.P.Func(scopePkg, "Scope", "Close")
	waitF := c.P.Func(scopePkg, "Scope", "Wait")
	scopeT := c.P.Named(scopePkg, "Scope")
	sro := discoverScopeRoles(c)
	if sro == nil {
		c.Bad("anchor", "roles of scope.Scope (closed flag, task group, mutex, double-close guard, close helper)", 0, "cannot discover them from Close/Kill; cannot certify")
		return
	}
	closeH, guardF := sro.closeH, sro.guard
	if closeF == nil || closeH == nil || waitF == nil || guardF == nil || scopeT == nil || len(names) < 11 {
		c.Bad("anchor", "scope.(*Scope).Close/close/Wait/preventDoubleClosed, app.*Event", 0, "anchor not found; cannot certify")
		return
	}
	classifyB := func(in ssa.Instruction, bind map[*ssa.Parameter]ssa.Value) string {
		if ev := triggerEventB(in, names, bind); ev != "" {
			return ev
		}
		if w := tableLoopWord(in, names, bind); w != "" {
			return w
		}
		if flagSetInstr(in) == "scope.Scope."+sro.closed {
			return "set-closed"
		}
		ci := callInfo(in, nil, 0)
		if ci == nil || ci.Kind != "call" {
			return ""
		}
		switch {
		case ci.Static == guardF:
			return "guard"
		case ci.Static == waitF:
			return "Wait"
		case ci.Static == closeH:
			return "close()"
		case ci.Method != nil && ci.Method.Name() == "DoneTask":
			return "parent.DoneTask"
		}
		return ""
	}
	classify := expandHelpers(names, classifyB)

	// ---- R1 event word -------------------------------------------------------
	words, over := eventWords(closeF, classify)
	wantR := "guard guard set-closed BeforeClose Wait BeforeRollback Rollback AfterRollback close()"
	wantC := "guard guard set-closed BeforeClose Wait BeforeCommit Commit AfterCommit close()"
	// a guard that is test-and-set in one step (CompareAndSwap(&closed, clear, set), panic on its
	// failing edge - R3) stands for "guard guard set-closed"
	guardSets := false
	eachInstr(guardF, func(_ *ssa.BasicBlock, _ int, in ssa.Instruction) {
		if cl, ok := in.(*ssa.Call); ok && flagSetInstr(in) == "scope.Scope."+sro.closed {
			if cal := cl.Call.StaticCallee(); cal != nil && strings.HasPrefix(cal.Name(), "CompareAndSwap") {
				guardSets = true
			}
		}
	})
	gotR, gotC := false, false
	var other []string
	for _, w := range words {
		if guardSets && strings.HasPrefix(w, "guard BeforeClose ") {
			w = "guard guard set-closed " + strings.TrimPrefix(w, "guard ")
		}
		switch w {
		case wantR:
			gotR = true
		case wantC:
			gotC = true
		default:
			other = append(other, "["+w+"]")
		}
	}
	c.Note("C11.R1 words of Close: %v", words)
	c.Check(!over && gotR && gotC && len(other) == 0, "R1", "event word of scope.(*Scope).Close", closeF.Pos(),
		"exactly two words: ... Wait + rollback triple + close(), ... Wait + commit triple + close()",
		fmt.Sprintf("Close has a path whose events are %s (expected only the commit word and the rollback word; rollback seen=%v commit seen=%v) — an event is skipped, repeated, reordered, or the wait is bypassed", strings.Join(other, ", "), gotR, gotC))
	hw, _ := eventWords(closeH, classify)
	okH := len(hw) > 0
	for _, w := range hw {
		if w != "AfterClose parent.DoneTask" && w != "AfterClose" {
			okH = false
		}
	}
	hasSign := false
	for _, w := range hw {
		if w == "AfterClose parent.DoneTask" {
			hasSign = true
		}
	}
	c.Check(okH && hasSign, "R1", "event word of scope.(*Scope).close", closeH.Pos(), "AfterClose, then the sign-off from a registered parent",
		fmt.Sprintf("close() has the words %v (expected 'AfterClose' and 'AfterClose parent.DoneTask')", hw))

	// ---- R2 commit xor rollback chosen by the wait result ------------------------
	facts := factsFor(closeF)
	var waitCall *ssa.Call
	for _, ci := range Calls(closeF) {
		if ci.Static == waitF {
			if call, ok := ci.Instr.(*ssa.Call); ok {
				waitCall = call
			}
		}
	}
	n2 := 0
	if waitCall == nil {
		c.Bad("R2", "commit/rollback selected by Wait", closeF.Pos(), "Close does not call Wait")
	} else {
		eachInstr(closeF, func(b *ssa.BasicBlock, _ int, in ssa.Instruction) {
			ev := classify(in)
			if ev == "" || ev == "close()" {
				return
			}
			isRb := strings.Contains(ev, "Rollback")
			isCm := strings.Contains(ev, "Commit")
			if isRb && isCm {
				// a constant table selected by a phi: each selecting edge must agree with the Wait result
				if call, ok := in.(*ssa.Call); ok {
					var tabs []eventTable
					for _, a := range call.Call.Args {
						if t := eventTablesOf(a, names); len(t) > 1 {
							tabs = t
						}
					}
					if len(tabs) > 1 {
						for _, t := range tabs {
							if t.pred == nil {
								continue
							}
							n2++
							fs := factsOnEdge(facts, t.pred, t.succ)
							if strings.Contains(t.word, "Rollback") {
								c.Check(knownNilIn(fs, waitCall, false), "R2", "rollback table selected on the failed-wait edge", in.Pos(), "chosen where this Close's Wait() returned an error",
									"the rollback events are not confined to the edge where Wait() returned an error — the decision does not reflect errors that arrive while waiting")
							} else {
								c.Check(knownNilIn(fs, waitCall, true), "R2", "commit table selected on the clean-wait edge", in.Pos(), "chosen where this Close's Wait() returned nil",
									"the commit events are not confined to the edge where Wait() returned nil — a scope holding an error is committed")
							}
						}
						return
					}
				}
				c.Bad("R2", "commit/rollback selected by Wait", in.Pos(), "a helper called from Close fires both triples ("+ev+"); cannot certify the selection")
				return
			}
			if !isRb && !isCm {
				return
			}
			n2++
			if isRb {
				c.Check(facts.KnownNil(b, waitCall, false), "R2", ev+" fires on the failed-wait edge", in.Pos(), "on the edge where the result of this Close's Wait() is non-nil",
					"the rollback event is not confined to the edge where Wait() returned an error — the decision does not reflect errors that arrive while waiting")
			} else {
				c.Check(facts.KnownNil(b, waitCall, true), "R2", ev+" fires on the clean-wait edge", in.Pos(), "on the edge where the result of this Close's Wait() is nil",
					"the commit event is not confined to the edge where Wait() returned nil — a scope holding an error is committed")
			}
		})
	}
	c.Floor("R2", n2, 2)

	// ---- R3 double close refused ----------------------------------------------------
	le := NewLockEngine(c.P)
	la := le.Analyze(closeF)
	_, mui := fieldIndex(scopeT, sro.mu)
	var guards []*CallInfo
	for _, ci := range Calls(closeF) {
		if ci.Static == guardF && ci.Kind == "call" {
			guards = append(guards, ci)
		}
	}
	muKey := fmt.Sprintf("param:%s.&f%d", closeF.Params[0].Name(), mui)
	eachInstr(closeF, func(b *ssa.BasicBlock, _ int, in ssa.Instruction) {
		if classify(in) != "set-closed" {
			return
		}
		_, held := la.HeldBefore(in)[muKey]
		guardedUnderLock := false
		for _, g := range guards {
			if _, h := la.HeldBefore(g.Instr)[muKey]; h && dominates(g.Instr, in) {
				guardedUnderLock = true
			}
		}
		c.Check(held && guardedUnderLock, "R3", "closed flag set under the mutex after a guard under that mutex", in.Pos(), "test-and-set is atomic",
			"the closed flag is not set under the scope mutex after a double-close test made under the same hold — two concurrent Close calls both run the events")
	})
	// the guard itself panics when closed
	gf := factsFor(guardF)
	pan := 0
	eachInstr(guardF, func(b *ssa.BasicBlock, _ int, in ssa.Instruction) {
		if _, ok := in.(*ssa.Panic); ok {
			if set, known := flagKnownIn(gf.At(b), "scope.Scope."+sro.closed); known && set {
				pan++
			}
		}
	})
	c.Check(pan > 0, "R3", "preventDoubleClosed refuses loudly", guardF.Pos(), "panics on the closed edge", "the double-close guard no longer panics when the scope is closed")
	for _, mn := range []string{"Kill", "Stop", "AppendError"} {
		f := c.P.Func(scopePkg, "Scope", mn)
		pc := sro.prevClosed
		if f == nil || pc == nil {
			c.Bad("R3", "scope.(*Scope)."+mn+" tests closed first", 0, "anchor not found")
			continue
		}
		cs := CallsTo(f, qualName(pc))
		ok := len(cs) > 0
		if ok {
			for _, ci := range Calls(f) {
				if ci.Instr != cs[0].Instr && !dominates(cs[0].Instr, ci.Instr) {
					ok = false
				}
			}
		}
		c.Check(ok, "R3", "scope.(*Scope)."+mn+" tests closed first", f.Pos(), "preventClosed dominates every other call", "the closed test does not come first")
	}

	// ---- R4 children/tasks are awaited ------------------------------------------------
	if wf := c.P.Func(scopePkg, "Scope", "Wait"); wf != nil {
		ruleCloseWaitsChildRegisters(c, "R4", wf)
	}
	_, wgi := fieldIndex(scopeT, sro.wg)
	wgUse := func(f *ssa.Function, method string) (*CallInfo, bool) {
		for _, ci := range Calls(f) {
			if ci.Static != nil && qualName(ci.Static) == "sync.(WaitGroup)."+method {
				if fa, ok := ci.Recv().(*ssa.FieldAddr); ok && fa.Field == wgi && fa.X == ssa.Value(f.Params[0]) {
					return ci, true
				}
			}
		}
		return nil, false
	}
	if wgi < 0 {
		c.Bad("R4", "scope.Scope.wg", 0, "field not found")
	} else {
		wc, ok := wgUse(waitF, "Wait")
		okAll := ok
		if ok {
			bad := MustPass(waitF, nil, func(in ssa.Instruction) bool { return in == wc.Instr })
			okAll = len(bad) == 0
		}
		c.Check(okAll, "R4", "scope.(*Scope).Wait waits for the task group on every path", waitF.Pos(), "wg.Wait() on every path to every return",
			"Wait can return without waiting for the task group — Close fires its events while tasks or child scopes are still running")
		add := c.P.Func(scopePkg, "Scope", "AddTasks")
		done := c.P.Func(scopePkg, "Scope", "DoneTask")
		if add == nil || done == nil {
			c.Bad("R4", "AddTasks/DoneTask", 0, "anchor not found")
		} else {
			ac, ok1 := wgUse(add, "Add")
			_, ok2 := wgUse(done, "Done")
			c.Check(ok1 && ok2, "R4", "AddTasks/DoneTask feed the group Wait waits for", add.Pos(), "same WaitGroup field", "AddTasks/DoneTask do not use the WaitGroup that Wait waits for")
			if ok1 {
				// refused when done: Add is on the !IsDone edge, and the refusing return is non-nil
				af := factsFor(add)
				guarded := false
				for k := range af.At(ac.Block) {
					if call, ok := k.v.(*ssa.Call); ok && !k.pol {
						if ci := callInfo(call, nil, 0); ci != nil && (ci.Method != nil && ci.Method.Name() == "IsDone" || ci.Static != nil && ci.Static.Name() == "IsDone") {
							guarded = true
						}
					}
				}
				c.Check(guarded, "R4", "AddTasks refuses a finished scope", add.Pos(), "wg.Add only on the not-done edge", "tasks can be added to a finished scope")
			}
		}
	}

	// ---- R5 Close reports the scope's error ---------------------------------------------
	errF := c.P.Func(scopePkg, "Scope", "Err")
	n5 := 0
	for _, r := range returnsOf(closeF) {
		n5++
		v := resolve(r.Results[0])
		call, ok := v.(*ssa.Call)
		okr := ok && call.Call.StaticCallee() == errF && errF != nil
		if okr {
			// no trigger after Err()
			eachInstr(closeF, func(_ *ssa.BasicBlock, _ int, in ssa.Instruction) {
				if cl := classify(in); cl != "" && reachableFrom(call, in) && dominates(call, in) {
					okr = false
				}
			})
		}
		c.Check(okr, "R5", fmt.Sprintf("return of Close at line %d", c.P.Fset.Position(r.Pos()).Line), r.Pos(), "returns Err() evaluated after the last event", "Close does not return the scope's error as it stands after the last event")
	}
	c.Floor("R5", n5, 1)

	// ---- R6 listener order ------------------------------------------------------------------
	ruleListenerOrder(c)

	// ---- R7 shared vs isolated context ---------------------------------------------------------
	ruleSharedIsolated(c)

	// ---- R8 a kill always leaves an error in the (shared) context -------------------------------
	c.Floor("R8", ruleKillRecords(c, "R8"), 2)
}

func ruleListenerOrder(c *Ctx) {
	const evPkg = "app/scope/eventscope"
	n := 0
	for _, tn := range []string{"EventScope", "ChildEventScope"} {
		trig := c.P.Func(evPkg, tn, "Trigger")
		on := c.P.Func(evPkg, tn, "On")
		if trig == nil || on == nil {
			c.Bad("R6", "eventscope."+tn, 0, "anchor not found")
			continue
		}
		// On: every MapUpdate stores append(existing, callback) or a one-element literal holding callback
		cb := on.Params[len(on.Params)-1]
		okOn, k := true, 0
		eachInstr(on, func(_ *ssa.BasicBlock, _ int, in ssa.Instruction) {
			mu, ok := in.(*ssa.MapUpdate)
			if !ok {
				return
			}
			k++
			last := false
			switch v := mu.Value.(type) {
			case *ssa.Call:
				if b, ok := v.Call.Value.(*ssa.Builtin); ok && b.Name() == "append" && len(v.Call.Args) == 2 {
					if sl, ok := v.Call.Args[1].(*ssa.Slice); ok {
						els := arrayElems(sl.X)
						if len(els) > 0 && els[len(els)-1] == ssa.Value(cb) {
							// first argument: the existing list looked up from the same map
							if os := Origins(v.Call.Args[0], FlowOpts{}); hasOrigin(os, func(o Origin) bool { return o.Kind == "field" }) {
								last = true
							}
						}
					}
				}
			case *ssa.Slice:
				els := arrayElems(v.X)
				if len(els) == 1 && els[0] == ssa.Value(cb) {
					last = true
				}
			}
			if !last {
				okOn = false
			}
		})
		n++
		c.Check(okOn && k > 0, "R6", "eventscope.("+tn+").On appends", on.Pos(), "the new listener is placed after the existing ones", "On does not append the listener behind the existing ones — registration order is lost")
		// Trigger: ascending range, first error returned (the walk may live in a private helper)
		okT := true
		why := ""
		var dyn []*ssa.Call
		walkFn := trig
		var helperCall *ssa.Call
		for _, g := range reachableSamePkg(trig, 2) {
			var d []*ssa.Call
			for _, ci := range Calls(g) {
				if ci.Static == nil && ci.Method == nil && ci.Kind == "call" {
					if _, isB := ci.Common.Value.(*ssa.Builtin); !isB {
						if call, ok := ci.Instr.(*ssa.Call); ok {
							d = append(d, call)
						}
					}
				}
			}
			if len(d) > 0 {
				dyn, walkFn = d, g
				break
			}
		}
		if walkFn != trig {
			for _, ci := range Calls(trig) {
				if ci.Static == walkFn {
					helperCall, _ = ci.Instr.(*ssa.Call)
				}
			}
		}
		if len(dyn) != 1 {
			okT, why = false, fmt.Sprintf("expected one listener invocation, found %d", len(dyn))
		} else {
			call := dyn[0]
			ld, _ := call.Call.Value.(*ssa.UnOp)
			var ia *ssa.IndexAddr
			if ld != nil {
				ia, _ = ld.X.(*ssa.IndexAddr)
			}
			if ia == nil || !ascendingIndex(ia.Index) {
				okT, why = false, "listeners are not walked from the first one in ascending order"
			}
			tf := factsFor(walkFn)
			ret := false
			for _, r := range returnsOf(walkFn) {
				if tf.KnownNil(r.Block(), call, false) && (resolve(r.Results[0]) == ssa.Value(call) || sameValue(resolve(r.Results[0]), call)) {
					ret = true
				}
			}
			if !ret {
				okT, why = false, "the first listener error is not returned at once"
			}
			if helperCall != nil {
				// the helper's verdict is what Trigger returns
				passed := false
				for _, r := range returnsOf(trig) {
					if resolve(r.Results[0]) == ssa.Value(helperCall) {
						passed = true
					}
				}
				if !passed {
					okT, why = false, "the result of the listener walk is not returned by Trigger"
				}
			}
		}
		n++
		c.Check(okT, "R6", "eventscope.("+tn+").Trigger walks in order, stops at first error", trig.Pos(), "ascending walk; first error returned", why)
		if tn == "ChildEventScope" {
			// parent first
			var pc *ssa.Call
			for _, ci := range Calls(trig) {
				if ci.Method != nil && ci.Method.Name() == "Trigger" {
					if call, ok := ci.Instr.(*ssa.Call); ok {
						pc = call
					}
				}
			}
			var own ssa.Instruction
			if helperCall != nil {
				own = helperCall
			} else if len(dyn) == 1 {
				own = dyn[0]
			}
			okP := pc != nil && own != nil && dominates(pc, own)
			if okP {
				tf := factsFor(trig)
				okP = tf.KnownNil(own.Block(), pc, true)
			}
			n++
			c.Check(okP, "R6", "child event scope triggers the parent first", trig.Pos(), "parent.Trigger dominates the child's own listeners, which run only if it returned nil", "the parent's listeners do not run first (or their error does not stop the trigger)")
		}
	}
	c.Floor("R6", n, 5)
}

func ruleSharedIsolated(c *Ctx) {
	nc := c.P.Func(scopePkg, "", "NewChild")
	n := 0
	if nc == nil {
		c.Bad("R7", "scope.NewChild", 0, "anchor not found")
	} else {
		// the ContextScope stored in the new Scope: params.ContextScope or parent.BaseContextScope()
		ok := false
		eachInstr(nc, func(_ *ssa.BasicBlock, _ int, in ssa.Instruction) {
			st, isSt := in.(*ssa.Store)
			if !isSt {
				return
			}
			fa, isFA := st.Addr.(*ssa.FieldAddr)
			if !isFA || fieldName(fa) != "scope.Scope.ContextScope" {
				return
			}
			os := Origins(st.Val, FlowOpts{})
			ok = hasOrigin(os, func(o Origin) bool { return o.Kind == "call" && strings.Contains(o.Name, "BaseContextScope") })
		})
		if !ok {
			// the defaulting may be done by a private helper that completes the parameter struct:
			// parent.BaseContextScope() stored into a ContextScope field on the "not given" edge
			for _, g := range append([]*ssa.Function{nc}, reachableSamePkg(nc, 2)...) {
				gf := factsFor(g)
				for _, ci := range Calls(g) {
					if ci.Method == nil || ci.Method.Name() != "BaseContextScope" || ci.Value() == nil {
						continue
					}
					for _, r := range *ci.Value().Referrers() {
						st, isSt := r.(*ssa.Store)
						if !isSt {
							continue
						}
						fa, isFA := st.Addr.(*ssa.FieldAddr)
						if !isFA || !strings.HasSuffix(fieldName(fa), ".ContextScope") {
							continue
						}
						// on the edge where the given context is nil
						for k := range gf.At(st.Block()) {
							if bo, isB := k.v.(*ssa.BinOp); isB && (bo.Op == token.EQL || bo.Op == token.NEQ) && (isNilConst(bo.X) || isNilConst(bo.Y)) && ((bo.Op == token.EQL) == k.pol) {
								ok = true
							}
						}
					}
				}
			}
		}
		n++
		c.Check(ok, "R7", "child defaults to the parent's own context", nc.Pos(), "ContextScope defaults to parent.BaseContextScope()", "a child without an explicit context does not share the parent's context — a failing child no longer fails the parent")
	}
	// Isolated uses its parent read-only
	allowed := map[string]bool{"Done": true, "Errors": true, "Err": true, "IsDone": true, "Deadline": true}
	isoT := c.P.Named(ctxPkg, "Isolated")
	bad := ""
	uses := 0
	if isoT == nil {
		c.Bad("R7", "contextscope.Isolated", 0, "anchor not found")
		return
	}
	for _, f := range c.P.PkgFuncs(ctxPkg) {
		for _, ci := range Calls(f) {
			if ci.Method == nil {
				continue
			}
			recv := ci.Recv()
			os := Origins(recv, FlowOpts{})
			fromParent := hasOrigin(os, func(o Origin) bool {
				return (o.Kind == "field" && o.Name == "contextscope.Isolated.parent") || (o.Kind == "freevar" && o.Name == "parent") ||
					(o.Kind == "param" && o.Name == "parent" && strings.Contains(fname(f), "NewIsolated"))
			})
			if !fromParent {
				continue
			}
			uses++
			if !allowed[ci.Method.Name()] {
				bad = fmt.Sprintf("%s calls parent.%s", fname(f), ci.Method.Name())
			}
		}
	}
	n++
	c.Check(bad == "" && uses > 0, "R7", "isolated context reads its parent only", isoT.Obj().Pos(), fmt.Sprintf("%d use(s) of the parent, all read-only", uses), bad+" — an isolated child's failure reaches the parent")
	// watcher: on the parent-done branch the isolated scope is killed or stopped
	ni := c.P.Func(ctxPkg, "", "NewIsolated")
	okW := false
	if ni != nil {
		// the watcher: whatever NewIsolated (or a private helper) starts with `go`
		var watchers []*ssa.Function
		for _, g0 := range append([]*ssa.Function{ni}, reachableSamePkg(ni, 1)...) {
			for _, g1 := range withClosures(g0) {
				for _, ci := range Calls(g1) {
					if ci.Kind != "go" {
						continue
					}
					if ci.Static != nil {
						watchers = append(watchers, ci.Static)
					}
				}
			}
		}
		for _, g := range append(withClosures(ni), watchers...) {
			if g == ni {
				continue
			}
			sel := false
			stop, kill := false, false
			eachInstr(g, func(_ *ssa.BasicBlock, _ int, in ssa.Instruction) {
				if s, ok := in.(*ssa.Select); ok && s.Blocking {
					sel = true
				}
				if ci := callInfo(in, nil, 0); ci != nil && ci.Static != nil {
					if ci.Static.Name() == "Stop" {
						stop = true
					}
					if ci.Static.Name() == "Kill" {
						kill = true
					}
				}
			})
			if sel && stop && kill {
				okW = true
			}
		}
		// started with go
		started := false
		eachInstr(ni, func(_ *ssa.BasicBlock, _ int, in ssa.Instruction) {
			if _, ok := in.(*ssa.Go); ok {
				started = true
			}
		})
		okW = okW && started
	}
	n++
	c.Check(okW, "R7", "isolated context follows its parent's end", 0, "a watcher goroutine selects on parent.Done() and kills or stops the isolated scope", "no watcher that stops/kills the isolated scope when the parent ends")
	c.Floor("R7", n, 3)
}

// ruleScopeWaitWaits: scope.(*Scope).Wait reaches wg.Wait() of the scope's own
// task group on every path to every return.
func ruleScopeWaitWaits(c *Ctx, rule string) {
	scopeT := c.P.Named(scopePkg, "Scope")
	waitF := c.P.Func(scopePkg, "Scope", "Wait")
	if scopeT == nil || waitF == nil {
		c.Bad(rule, "scope.(*Scope).Wait", 0, "anchor not found")
		return
	}
	wgi := -1
	if st, ok := scopeT.Underlying().(*types.Struct); ok {
		for i := 0; i < st.NumFields(); i++ {
			if st.Field(i).Type().String() == "sync.WaitGroup" {
				wgi = i
			}
		}
	}
	var wc *CallInfo
	for _, ci := range Calls(waitF) {
		if ci.Static != nil && qualName(ci.Static) == "sync.(WaitGroup).Wait" {
			if fa, ok := ci.Recv().(*ssa.FieldAddr); ok && fa.Field == wgi && fa.X == ssa.Value(waitF.Params[0]) {
				wc = ci
			}
		}
	}
	ok := wc != nil
	if ok {
		ok = len(MustPass(waitF, nil, func(in ssa.Instruction) bool { return in == wc.Instr })) == 0
	}
	c.Check(ok, rule, "scope.(*Scope).Wait waits for the task group on every path", waitF.Pos(), "wg.Wait() on every path to every return",
		"Wait can return without waiting for the task group — whoever waits on a scope proceeds while its tasks or child scopes are still running")
	ruleCloseWaitsChildRegisters(c, rule, waitF)
}

// ruleCloseWaitsChildRegisters: Close reaches Wait on every path, and every
// child scope registers with its parent whatever context it uses.
func ruleCloseWaitsChildRegisters(c *Ctx, rule string, waitF *ssa.Function) {
	// Close waits on every path (a scope that already failed still has to wait for what it started)
	if closeF := c.P.Func(scopePkg, "Scope", "Close"); closeF != nil {
		bad := MustPass(closeF, nil, func(in ssa.Instruction) bool {
			ci := callInfo(in, nil, 0)
			if ci == nil {
				return false
			}
			if ci.Static == waitF {
				return true
			}
			return ci.Static != nil && qualName(ci.Static) == "sync.(WaitGroup).Wait"
		})
		c.Check(len(bad) == 0, rule, "scope.(*Scope).Close waits on every path", closeF.Pos(), "Wait() on every path to every return",
			"Close can finish (fire rollback/after-close and sign off from its parent) without waiting for the scope's tasks and child scopes — whoever waits for this scope's parent proceeds while that work is still running")
	}
	// every child registers with its parent, whatever context it uses
	if nc := c.P.Func(scopePkg, "", "NewChild"); nc != nil && len(nc.Params) > 0 {
		bad := MustPass(nc, nil, ipEvent(func(in ssa.Instruction) bool {
			ci := callInfo(in, nil, 0)
			if ci == nil || ci.Method == nil || ci.Method.Name() != "AddTasks" || ci.Kind != "call" {
				return false
			}
			// on the parent: NewChild's own parameter, or the parameter a private helper received it in
			_, isParam := resolve(ci.Recv()).(*ssa.Parameter)
			return isParam
		}, 2))
		c.Check(len(bad) == 0, rule, "scope.NewChild registers the child with its parent on every path", nc.Pos(), "parent.AddTasks on every path",
			"a child scope can be created without being counted by its parent (e.g. only children that share the parent's context are counted) — the parent's Wait/Close no longer waits for such a child")
	} else {
		c.Bad(rule, "scope.NewChild", 0, "anchor not found")
	}
}

// expandHelpers wraps a base classifier: a plain call of an unexported function
// of the same package that the base classifier does not know is replaced by the
// event word of its body (recursively, parameters bound to the call's arguments)
// when all its paths have the same word.
func expandHelpers(names map[int64]string, base func(in ssa.Instruction, bind map[*ssa.Parameter]ssa.Value) string) func(in ssa.Instruction) string {
	var deep func(in ssa.Instruction, bind map[*ssa.Parameter]ssa.Value, depth int) string
	deep = func(in ssa.Instruction, bind map[*ssa.Parameter]ssa.Value, depth int) string {
		if ev := base(in, bind); ev != "" {
			return ev
		}
		ci := callInfo(in, nil, 0)
		if ci == nil || ci.Kind != "call" || ci.Static == nil || depth >= 3 {
			return ""
		}
		g := ci.Static
		if g.Blocks == nil || in.Parent() == nil || g.Pkg != in.Parent().Pkg || (g.Object() != nil && g.Object().Exported()) || g == in.Parent() {
			return ""
		}
		nb := map[*ssa.Parameter]ssa.Value{}
		for i, a := range ci.Common.Args {
			if i < len(g.Params) {
				v := a
				if p, ok := a.(*ssa.Parameter); ok && bind != nil && bind[p] != nil {
					v = bind[p]
				}
				nb[g.Params[i]] = v
			}
		}
		words, over := eventWords(g, func(in2 ssa.Instruction) string { return deep(in2, nb, depth+1) })
		if over || len(words) == 0 {
			return ""
		}
		if len(words) == 1 {
			return words[0]
		}
		nonEmpty := false
		for _, w := range words {
			if w != "" {
				nonEmpty = true
			}
		}
		if !nonEmpty {
			return ""
		}
		sort.Strings(words)
		return "(" + strings.Join(words, " | ") + ")"
	}
	return func(in ssa.Instruction) string { return deep(in, nil, 0) }
}

// ---- constant event tables --------------------------------------------------

// globalConstElems: the elements a package-level slice variable is initialised
// with (in the package's init function), in order; nil if it is written elsewhere.
func globalConstElems(g *ssa.Global) []ssa.Value {
	if g.Pkg == nil {
		return nil
	}
	initF := g.Pkg.Func("init")
	if initF == nil {
		return nil
	}
	var elems []ssa.Value
	stores := 0
	for _, m := range g.Pkg.Members {
		fn, ok := m.(*ssa.Function)
		if !ok {
			continue
		}
		for _, f := range withClosures(fn) {
			eachInstr(f, func(_ *ssa.BasicBlock, _ int, in ssa.Instruction) {
				st, ok := in.(*ssa.Store)
				if !ok || st.Addr != ssa.Value(g) {
					return
				}
				stores++
				if f != initF {
					elems = nil
					stores += 10
					return
				}
				if sl, ok := st.Val.(*ssa.Slice); ok {
					elems = arrayElems(sl.X)
				}
			})
		}
	}
	if stores != 1 {
		return nil
	}
	return elems
}

// eventTables: the constant event lists a slice value can be (through phis and
// loads of package-level tables), one word per alternative, with the phi edge
// (block pair) that selects it when the value is a phi.
type eventTable struct {
	word       string
	pred, succ *ssa.BasicBlock // selecting edge (nil: unconditional)
}

func eventTablesOf(v ssa.Value, names map[int64]string) []eventTable {
	word := func(elems []ssa.Value) (string, bool) {
		var ws []string
		for _, e := range elems {
			if mi, ok := e.(*ssa.MakeInterface); ok {
				e = mi.X
			}
			k, ok := constInt(e)
			if !ok {
				return "", false
			}
			n, ok := names[k]
			if !ok {
				return "", false
			}
			ws = append(ws, n)
		}
		return strings.Join(ws, " "), len(ws) > 0
	}
	one := func(x ssa.Value) (string, bool) {
		if ld, ok := x.(*ssa.UnOp); ok {
			if g, ok := ld.X.(*ssa.Global); ok {
				return word(globalConstElems(g))
			}
		}
		if sl, ok := x.(*ssa.Slice); ok {
			return word(arrayElems(sl.X))
		}
		return "", false
	}
	if p, ok := v.(*ssa.Phi); ok {
		var out []eventTable
		for i, e := range p.Edges {
			w, ok := one(e)
			if !ok {
				return nil
			}
			out = append(out, eventTable{w, p.Block().Preds[i], p.Block()})
		}
		return out
	}
	if w, ok := one(v); ok {
		return []eventTable{{w, nil, nil}}
	}
	return nil
}

// tableElem: v is an element read from a slice that is a constant event table.
func tableElemSource(v ssa.Value, names map[int64]string) ssa.Value {
	ld, ok := v.(*ssa.UnOp)
	if !ok {
		return nil
	}
	ia, ok := ld.X.(*ssa.IndexAddr)
	if !ok {
		return nil
	}
	if len(eventTablesOf(ia.X, names)) > 0 {
		return ia.X
	}
	return nil
}

// tableIsFired: some element of slice S reaches Trigger (directly or as the
// event argument of a private helper) inside a loop.
func tableIsFired(S ssa.Value, names map[int64]string) bool {
	if S.Referrers() == nil {
		return false
	}
	for _, r := range *S.Referrers() {
		ia, ok := r.(*ssa.IndexAddr)
		if !ok {
			continue
		}
		for _, rr := range *ia.Referrers() {
			ld, ok := rr.(*ssa.UnOp)
			if !ok {
				continue
			}
			for _, use := range *ld.Referrers() {
				if ci := callInfo(use.(ssa.Instruction), nil, 0); ci != nil {
					return true
				}
				if mi, ok := use.(*ssa.MakeInterface); ok && mi.Referrers() != nil && len(*mi.Referrers()) > 0 {
					return true
				}
			}
		}
	}
	return false
}

func tableElemSourceB(v ssa.Value, names map[int64]string, bind map[*ssa.Parameter]ssa.Value) ssa.Value {
	if x := tableElemSource(v, names); x != nil {
		return x
	}
	ld, ok := v.(*ssa.UnOp)
	if !ok {
		return nil
	}
	ia, ok := ld.X.(*ssa.IndexAddr)
	if !ok {
		return nil
	}
	if p, isP := ia.X.(*ssa.Parameter); isP && bind != nil && bind[p] != nil && len(eventTablesOf(bind[p], names)) > 0 {
		return bind[p]
	}
	return nil
}

// tableLoopWord: `in` is the len() that starts a loop over constant event
// table(s) whose elements are fired: the word (or the alternatives) of the table(s).
func tableLoopWord(in ssa.Instruction, names map[int64]string, bind map[*ssa.Parameter]ssa.Value) string {
	call, ok := in.(*ssa.Call)
	if !ok {
		return ""
	}
	b, isB := call.Call.Value.(*ssa.Builtin)
	if !isB || b.Name() != "len" || len(call.Call.Args) != 1 {
		return ""
	}
	src := call.Call.Args[0]
	if p, isP := src.(*ssa.Parameter); isP && bind != nil && bind[p] != nil {
		src = bind[p]
	}
	tabs := eventTablesOf(src, names)
	if len(tabs) == 0 || !tableIsFired(call.Call.Args[0], names) {
		return ""
	}
	var ws []string
	seen := map[string]bool{}
	for _, t := range tabs {
		if !seen[t.word] {
			seen[t.word] = true
			ws = append(ws, t.word)
		}
	}
	sort.Strings(ws)
	if len(ws) == 1 {
		return ws[0]
	}
	return "(" + strings.Join(ws, " | ") + ")"
}
