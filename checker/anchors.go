package main

// Unexported functions that rules address by name.  If one is renamed, the
// lookup falls back to the unique unexported function of the same package with
// the same receiver and the same signature (the reference signatures below were
// read off the reference tree), so a pure rename does not make a check fail with
// "anchor not found".  Anything else (signature changed, two candidates) still
// fails loudly.

import (
	"fmt"
	"go/types"
	"sort"
	"strings"

	"golang.org/x/tools/go/ssa"
)

type anchorRef struct{ rel, recv, name, sig string }

var unexportedAnchors = []anchorRef{
	{"filesystem/filespace/memfs", "", "copyFile", "(*memfs.File, string) (*memfs.File, error)"},
	{"filesystem/filespace/memfs", "", "copyDir", "(*memfs.Dir, string) (*memfs.Dir, error)"},
	{"filesystem/filespace/memfs", "Dir", "addNode", "(os.FileInfo) (error)"},
	{"filesystem/filespace/memfs", "Dir", "getNode", "(string) (os.FileInfo, error)"},
	{"filesystem/filespace/memfs", "Dir", "removeNodeByName", "(string) (error)"},
	{"filesystem/filespace/memfs", "File", "setData", "([]byte) ()"},
	{"filesystem/fshelper", "Copier", "copyFile", "() (error)"},
	{"app/modules/pipelinem/pipservices/runner", "Runner", "runGo", "(pipservices.TasksManager, pipservices.Sandbox, pipservices.TaskWriter) ()"},
	{"app/modules/pipelinem/pipservices/runner", "Runner", "waitForTasks", "(pipservices.TaskWriter, pipservices.TasksManager) (error)"},
	{"app/modules/pipelinem/pipservices/tasks", "TaskManager", "validWaitList", "([]string, pipservices.Task, int) (error)"},
	{"app/modules/pipelinem/pipcommands/pipc", "", "markBoolMapForNamespace", "(string, string, bool, map[string]bool) (error)"},
	{"app/modules/commonm/commservices/mutex", "SharedMutex", "get", "(string) (*sync.RWMutex)"},
	{"app/modules/commonm/commservices/envs", "Environments", "validKey", "(string) (error)"},
	{"app/modules/commonm/commservices/envs", "Environments", "valid", "(map[string]string) (error)"},
	{"varutil/plainmap", "", "formatStringJSON", "(string) (string)"},
	{"varutil/plainmap", "", "jsonToPlainStringMap", "(string, map[string]string, []byte) (error)"},
	{"varutil/plainmap", "", "recursiveMapToPlainMapNode", "(map[string]interface{}, map[string]interface{}, string, string) (error)"},
	{"filesystem/filespace/encryptfs/cipherfs/aesgcm256cfs", "", "newReader", "([]byte, io.ReadCloser) (filesystem.Reader, error)"},
}

// anchorAlias: reference qualified name -> qualified name on the analysed tree.
var anchorAlias = map[string]string{}
var anchorAliasFn = map[string]*ssa.Function{}

// sigString: parameter and result types only (names do not matter).
func sigString(f *ssa.Function) string {
	q := func(p *types.Package) string { return p.Name() }
	tup := func(t *types.Tuple) string {
		var parts []string
		for i := 0; i < t.Len(); i++ {
			parts = append(parts, types.TypeString(t.At(i).Type(), q))
		}
		return "(" + strings.Join(parts, ", ") + ")"
	}
	s := tup(f.Signature.Params()) + " " + tup(f.Signature.Results())
	if f.Signature.Variadic() {
		s += " variadic"
	}
	return s
}

func recvName(f *ssa.Function) string {
	r := f.Signature.Recv()
	if r == nil {
		return ""
	}
	t := r.Type()
	if pt, ok := t.(*types.Pointer); ok {
		t = pt.Elem()
	}
	if n, ok := types.Unalias(t).(*types.Named); ok {
		return n.Obj().Name()
	}
	return "?"
}

// resolveAnchors fills anchorAlias for the loaded program; returns notes.
func resolveAnchors(p *Prog) []string {
	anchorAlias = map[string]string{}
	anchorAliasFn = map[string]*ssa.Function{}
	var notes []string
	for _, a := range unexportedAnchors {
		if a.sig == "" {
			continue
		}
		if f := p.funcByName(a.rel, a.recv, a.name); f != nil {
			continue
		}
		var cands []*ssa.Function
		for _, f := range p.PkgFuncs(a.rel) {
			if f.Parent() != nil || f.Synthetic != "" || recvName(f) != a.recv {
				continue
			}
			if f.Object() != nil && f.Object().Exported() {
				continue
			}
			if sigString(f) == a.sig {
				cands = append(cands, f)
			}
		}
		if len(cands) == 1 {
			anchorAlias[mqRaw(a.rel, a.recv, a.name)] = mqRaw(a.rel, a.recv, cands[0].Name())
			anchorAliasFn[mqRaw(a.rel, a.recv, a.name)] = cands[0]
			notes = append(notes, fmt.Sprintf("anchor %s.%s not found by name; using %s (unique unexported function with the same receiver and signature)", a.recv, a.name, fname(cands[0])))
		}
	}
	sort.Strings(notes)
	return notes
}

func dumpAnchorSigs(p *Prog) {
	for _, a := range unexportedAnchors {
		f := p.funcByName(a.rel, a.recv, a.name)
		s := "NOT FOUND"
		if f != nil {
			s = sigString(f)
		}
		fmt.Printf("\t{%q, %q, %q, %q},\n", a.rel, a.recv, a.name, strings.ReplaceAll(s, "\n", " "))
	}
}
