package main

// Unexported functions that rules address by name.  If one is renamed, the
// lookup falls back to the unique unexported function of the same package with
// the same receiver and the same signature (the reference signatures below were
// read off the reference tree), so a pure rename does not make a check fail with
// "anchor not found".  Anything else (signature changed, two candidates) still
// fails loudly.

import (
	_ "embed"
	"encoding/json"
	"fmt"
	"go/types"
	"sort"
	"strings"

	"golang.org/x/tools/go/ssa"
)

// ---------------------------------------------------------------------------
// Renamed unexported struct fields.  Rules name data fields (Dir.nodes,
// ContextScope.errors ...).  layout_ref.json is the field layout (name, type) of
// every struct of the module on the reference tree; if a field a rule asks for
// is gone and exactly one *new* field of the same struct has its type, that
// field stands for it.  The helpers fieldName / fieldLoadName / fieldIndex
// translate in both directions, so rules keep speaking the reference names.

//go:embed layout_ref.json
var layoutRefJSON []byte

// fieldAliasToRef: "pkgname.Struct.actual" -> reference field name;
// fieldAliasFromRef: "pkgname.Struct.ref" -> actual field name.
var fieldAliasToRef = map[string]string{}
var fieldAliasFromRef = map[string]string{}

func typeStr(t types.Type) string {
	return types.TypeString(t, func(p *types.Package) string { return p.Name() })
}

func structLayouts(p *Prog) map[string][][2]string {
	out := map[string][][2]string{}
	for _, pk := range p.Pkgs {
		if pk.Types == nil {
			continue
		}
		sc := pk.Types.Scope()
		for _, n := range sc.Names() {
			tn, ok := sc.Lookup(n).(*types.TypeName)
			if !ok {
				continue
			}
			st, ok := tn.Type().Underlying().(*types.Struct)
			if !ok {
				continue
			}
			key := pk.Types.Path() + "." + n
			var fs [][2]string
			for i := 0; i < st.NumFields(); i++ {
				fs = append(fs, [2]string{st.Field(i).Name(), typeStr(st.Field(i).Type())})
			}
			out[key] = fs
		}
	}
	return out
}

func resolveFieldAliases(p *Prog) []string {
	fieldAliasToRef = map[string]string{}
	fieldAliasFromRef = map[string]string{}
	var ref map[string][][2]string
	if err := json.Unmarshal(layoutRefJSON, &ref); err != nil {
		return []string{"layout_ref.json unreadable: " + err.Error()}
	}
	cur := structLayouts(p)
	var notes []string
	for key, rfs := range ref {
		cfs, ok := cur[key]
		if !ok {
			continue
		}
		refNames := map[string]bool{}
		for _, f := range rfs {
			refNames[f[0]] = true
		}
		curNames := map[string]bool{}
		for _, f := range cfs {
			curNames[f[0]] = true
		}
		short := key[strings.LastIndex(key[:strings.LastIndex(key, ".")], "/")+1:]
		used := map[string]bool{}
		tn := key[strings.LastIndex(key, ".")+1:]
		typeExported := len(tn) > 0 && tn[0] >= 'A' && tn[0] <= 'Z'
		for _, rf := range rfs {
			// an exported field of an exported type is API: its absence is not a renaming
			if curNames[rf[0]] || (typeExported && len(rf[0]) > 0 && rf[0][0] >= 'A' && rf[0][0] <= 'Z') {
				continue
			}
			var cands []string
			for _, cf := range cfs {
				if !refNames[cf[0]] && cf[1] == rf[1] && !used[cf[0]] {
					cands = append(cands, cf[0])
				}
			}
			// several missing reference fields of this type competing for the candidates: give up
			competitors := 0
			for _, rf2 := range rfs {
				if !curNames[rf2[0]] && rf2[1] == rf[1] {
					competitors++
				}
			}
			if len(cands) == 1 && competitors == 1 {
				used[cands[0]] = true
				fieldAliasToRef[short+"."+cands[0]] = rf[0]
				fieldAliasFromRef[short+"."+rf[0]] = cands[0]
				notes = append(notes, fmt.Sprintf("field %s.%s not found; %s.%s (the only new field of type %s) stands for it", short, rf[0], short, cands[0], rf[1]))
			}
		}
	}
	sort.Strings(notes)
	return notes
}

// refFieldName: the reference name of field `actual` of the struct whose short
// qualified name is structShort ("memfs.Dir").
func refFieldName(structShort, actual string) string {
	if r, ok := fieldAliasToRef[structShort+"."+actual]; ok {
		return r
	}
	return actual
}

func dumpLayout(p *Prog) {
	b, _ := json.MarshalIndent(structLayouts(p), "", " ")
	fmt.Println(string(b))
}

type anchorRef struct{ rel, recv, name, sig string }

var unexportedAnchors = []anchorRef{
	{"filesystem/filespace/memfs", "", "copyFile", "(*memfs.File, string) (*memfs.File, error)"},
	{"filesystem/filespace/memfs", "", "copyDir", "(*memfs.Dir, string) (*memfs.Dir, error)"},
	{"filesystem/filespace/memfs", "Dir", "addNode", "(os.FileInfo) (error)"},
	{"filesystem/filespace/memfs", "Dir", "getNode", "(string) (os.FileInfo, error)"},
	{"filesystem/filespace/memfs", "Dir", "removeNodeByName", "(string) (error)"},
	{"filesystem/filespace/memfs", "File", "setData", "([]byte) ()"},
	{"filesystem/fshelper", "Copier", "copyFile", "() (error)"},
	{"app/modules/pipelinem/pipservices/runner", "Runner", "runGo", "(pipservices.TasksManager, pipservices.Sandbox, pipservices.TaskWriter) ()"},
	{"app/modules/pipelinem/pipservices/runner", "Runner", "waitForTasks", "(pipservices.TaskWriter, pipservices.TasksManager) (error)"},
	{"app/modules/pipelinem/pipservices/tasks", "TaskManager", "validWaitList", "([]string, pipservices.Task, int) (error)"},
	{"app/modules/pipelinem/pipcommands/pipc", "", "markBoolMapForNamespace", "(string, string, bool, map[string]bool) (error)"},
	{"app/modules/commonm/commservices/mutex", "SharedMutex", "get", "(string) (*sync.RWMutex)"},
	{"app/modules/commonm/commservices/envs", "Environments", "validKey", "(string) (error)"},
	{"app/modules/commonm/commservices/envs", "Environments", "valid", "(map[string]string) (error)"},
	{"varutil/plainmap", "", "formatStringJSON", "(string) (string)"},
	{"varutil/plainmap", "", "jsonToPlainStringMap", "(string, map[string]string, []byte) (error)"},
	{"varutil/plainmap", "", "recursiveMapToPlainMapNode", "(map[string]interface{}, map[string]interface{}, string, string) (error)"},
	{"filesystem/filespace/encryptfs/cipherfs/aesgcm256cfs", "", "newReader", "([]byte, io.ReadCloser) (filesystem.Reader, error)"},
}

// anchorAlias: reference qualified name -> qualified name on the analysed tree.
var anchorAlias = map[string]string{}
var anchorAliasFn = map[string]*ssa.Function{}

// sigString: parameter and result types only (names do not matter).
func sigString(f *ssa.Function) string {
	q := func(p *types.Package) string { return p.Name() }
	tup := func(t *types.Tuple) string {
		var parts []string
		for i := 0; i < t.Len(); i++ {
			parts = append(parts, types.TypeString(t.At(i).Type(), q))
		}
		return "(" + strings.Join(parts, ", ") + ")"
	}
	s := tup(f.Signature.Params()) + " " + tup(f.Signature.Results())
	if f.Signature.Variadic() {
		s += " variadic"
	}
	return s
}

func recvName(f *ssa.Function) string {
	r := f.Signature.Recv()
	if r == nil {
		return ""
	}
	t := r.Type()
	if pt, ok := t.(*types.Pointer); ok {
		t = pt.Elem()
	}
	if n, ok := types.Unalias(t).(*types.Named); ok {
		return n.Obj().Name()
	}
	return "?"
}

// resolveAnchors fills anchorAlias for the loaded program; returns notes.
func resolveAnchors(p *Prog) []string {
	anchorAlias = map[string]string{}
	anchorAliasFn = map[string]*ssa.Function{}
	notes := resolveFieldAliases(p)
	for _, a := range unexportedAnchors {
		if a.sig == "" {
			continue
		}
		if f := p.funcByName(a.rel, a.recv, a.name); f != nil {
			continue
		}
		var cands []*ssa.Function
		for _, f := range p.PkgFuncs(a.rel) {
			if f.Parent() != nil || f.Synthetic != "" || recvName(f) != a.recv {
				continue
			}
			if f.Object() != nil && f.Object().Exported() {
				continue
			}
			if sigString(f) == a.sig {
				cands = append(cands, f)
			}
		}
		if len(cands) == 0 && a.recv != "" {
			// a method turned into a plain function of the same package (or moved to another
			// receiver): same parameters and results, receiver dropped
			for _, f := range p.PkgFuncs(a.rel) {
				if f.Parent() != nil || f.Synthetic != "" || (f.Object() != nil && f.Object().Exported()) || recvName(f) == a.recv {
					continue
				}
				if sigString(f) == a.sig {
					cands = append(cands, f)
				}
			}
		}
		if len(cands) == 1 {
			anchorAlias[mqRaw(a.rel, a.recv, a.name)] = mqRaw(a.rel, recvName(cands[0]), cands[0].Name())
			anchorAliasFn[mqRaw(a.rel, a.recv, a.name)] = cands[0]
			notes = append(notes, fmt.Sprintf("anchor %s.%s not found by name; using %s (unique unexported function with the same receiver and signature)", a.recv, a.name, fname(cands[0])))
		}
	}
	sort.Strings(notes)
	return notes
}

func dumpAnchorSigs(p *Prog) {
	for _, a := range unexportedAnchors {
		f := p.funcByName(a.rel, a.recv, a.name)
		s := "NOT FOUND"
		if f != nil {
			s = sigString(f)
		}
		fmt.Printf("\t{%q, %q, %q, %q},\n", a.rel, a.recv, a.name, strings.ReplaceAll(s, "\n", " "))
	}
}
