package main

// Path-string rules added in the second seeding round; shared by C01, C02, C03.

import (
	"fmt"
	"go/token"
	"go/types"
	"strings"

	"golang.org/x/tools/go/ssa"
)

// phiAlternatives: the values v can be, looking through phis and local spills.
func phiAlternatives(v ssa.Value, seen map[ssa.Value]bool, out *[]ssa.Value) {
	v = resolve(v)
	if seen[v] {
		return
	}
	seen[v] = true
	if p, ok := v.(*ssa.Phi); ok {
		for _, e := range p.Edges {
			phiAlternatives(e, seen, out)
		}
		return
	}
	*out = append(*out, v)
}

func isCallTo(v ssa.Value, names ...string) *ssa.Call {
	c, ok := v.(*ssa.Call)
	if !ok {
		return nil
	}
	f := c.Call.StaticCallee()
	if f == nil {
		return nil
	}
	q := qualName(f)
	for _, n := range names {
		if q == n {
			return c
		}
	}
	return nil
}

// ruleCleanerOrder: varutil.CleanPath must strip the leading separator from
// the *output* of path.Clean.  Clean of a rooted path resolves every ".." at
// the root and leaves at most one leading "/"; stripping first and cleaning
// afterwards leaves "//x" rooted (a node named "") and turns "/../x" into
// "../x" (a node named "..").
func ruleCleanerOrder(c *Ctx, rule string) {
	f := c.P.Func("varutil", "", "CleanPath")
	if f == nil || f.Blocks == nil {
		c.Bad(rule, "varutil.CleanPath", 0, "anchor not found")
		return
	}
	facts := factsFor(f)
	cleanNames := []string{"path.Clean", "path/filepath.Clean", "path.Join"}
	stripNames := []string{"strings.TrimPrefix", "strings.TrimLeft"}
	var fromClean func(v ssa.Value, seen map[ssa.Value]bool) bool
	fromClean = func(v ssa.Value, seen map[ssa.Value]bool) bool {
		v = resolve(v)
		if seen[v] {
			return true
		}
		seen[v] = true
		switch x := v.(type) {
		case *ssa.Phi:
			for _, e := range x.Edges {
				if !fromClean(e, seen) {
					return false
				}
			}
			return true
		case *ssa.Slice:
			return fromClean(x.X, seen)
		case *ssa.Call:
			if isCallTo(x, cleanNames...) != nil {
				return true
			}
			if isCallTo(x, stripNames...) != nil {
				return fromClean(x.Call.Args[0], seen)
			}
		}
		return false
	}
	noLeadFact := func(v ssa.Value, fs factSet) bool {
		for k := range fs {
			if k.pol {
				continue
			}
			if hc := isCallTo(k.v, "strings.HasPrefix"); hc != nil {
				if s, ok := constString(hc.Call.Args[1]); ok && s == "/" && sameValue(resolve(hc.Call.Args[0]), resolve(v)) {
					return true
				}
			}
		}
		return false
	}
	var noLead func(v ssa.Value, fs factSet, seen map[ssa.Value]bool) (bool, string)
	noLead = func(v ssa.Value, fs factSet, seen map[ssa.Value]bool) (bool, string) {
		v = resolve(v)
		if seen[v] {
			return true, ""
		}
		seen[v] = true
		if noLeadFact(v, fs) && fromClean(v, map[ssa.Value]bool{}) {
			return true, ""
		}
		switch x := v.(type) {
		case *ssa.Const:
			if s, ok := constString(x); ok && !strings.HasPrefix(s, "/") {
				return true, ""
			}
		case *ssa.Phi:
			for i, e := range x.Edges {
				if ok, why := noLead(e, factsOnEdge(facts, x.Block().Preds[i], x.Block()), seen); !ok {
					return false, why
				}
			}
			return true, ""
		case *ssa.Slice:
			if lo, ok := constInt(x.Low); ok && lo >= 1 && x.High == nil && fromClean(x.X, map[ssa.Value]bool{}) {
				return true, ""
			}
		case *ssa.Call:
			if isCallTo(x, stripNames...) != nil {
				if s, ok := constString(x.Call.Args[1]); ok && s == "/" && fromClean(x.Call.Args[0], map[ssa.Value]bool{}) {
					return true, ""
				}
				return false, "the separator is stripped from a value that was not cleaned yet"
			}
			if isCallTo(x, cleanNames...) != nil {
				return false, "the result of " + lastSeg(qualName(x.Call.StaticCallee())) + " is returned without stripping its leading separator (stripping before cleaning does not help: Clean(\"/x\") keeps the \"/\")"
			}
		}
		return false, "cannot establish that the returned path has no leading separator (" + vdesc(v) + ")"
	}
	bad := ""
	var pos token.Pos = f.Pos()
	n := 0
	for _, r := range returnsOf(f) {
		if len(r.Results) == 0 {
			continue
		}
		n++
		if ok, why := noLead(r.Results[0], facts.At(r.Block()), map[ssa.Value]bool{}); !ok {
			bad, pos = why, r.Pos()
		}
	}
	if n == 0 {
		bad = "no return found"
	}
	c.Check(bad == "", rule, "varutil.CleanPath result", pos, "clean first, then strip the leading separator",
		bad+" — \"//dir/f\" creates a node named \"\" and \"/../x\" a node named \"..\"")
}

// ruleNoNodeMemo: a memory filespace keeps exactly its root; a *Dir/*File
// remembered in the filespace object across calls can be detached from the tree
// by a Remove, after which writes through it succeed and vanish.
func ruleNoNodeMemo(c *Ctx, rule string) {
	fsT := c.P.Named(memfsPkg, "Filespace")
	dirT := c.P.Named(memfsPkg, "Dir")
	fileT := c.P.Named(memfsPkg, "File")
	if fsT == nil || dirT == nil || fileT == nil {
		c.Bad(rule, "memfs types", 0, "anchor not found")
		return
	}
	st, ok := fsT.Underlying().(*types.Struct)
	if !ok {
		c.Bad(rule, "memfs.Filespace", 0, "not a struct")
		return
	}
	var holdsNode func(t types.Type, d int) bool
	holdsNode = func(t types.Type, d int) bool {
		if d > 4 {
			return false
		}
		if isPtrTo(t, dirT) || isPtrTo(t, fileT) {
			return true
		}
		if n, ok := types.Unalias(t).(*types.Named); ok {
			if n == dirT || n == fileT {
				return true
			}
			if n.Obj().Pkg() != nil && n.Obj().Pkg().Path() == "os" && n.Obj().Name() == "FileInfo" {
				return true
			}
		}
		switch u := t.Underlying().(type) {
		case *types.Slice:
			return holdsNode(u.Elem(), d+1)
		case *types.Array:
			return holdsNode(u.Elem(), d+1)
		case *types.Map:
			return holdsNode(u.Elem(), d+1) || holdsNode(u.Key(), d+1)
		case *types.Pointer:
			return holdsNode(u.Elem(), d+1)
		}
		return false
	}
	nodeFields := map[string]bool{}
	for i := 0; i < st.NumFields(); i++ {
		if holdsNode(st.Field(i).Type(), 0) {
			nodeFields["memfs.Filespace."+refFieldName("memfs.Filespace", st.Field(i).Name())] = true
		}
	}
	if len(nodeFields) == 0 {
		c.Bad(rule, "memfs.Filespace root", 0, "no field holding the tree root found")
		return
	}
	// every store to such a field happens while the filespace object is being built
	n := 0
	for _, f := range c.P.PkgFuncs(memfsPkg) {
		for _, g := range withClosures(f) {
			eachInstr(g, func(_ *ssa.BasicBlock, _ int, in ssa.Instruction) {
				st, ok := in.(*ssa.Store)
				if !ok {
					return
				}
				fa, ok := st.Addr.(*ssa.FieldAddr)
				if !ok || !nodeFields[fieldName(fa)] {
					return
				}
				n++
				_, fresh := resolve(fa.X).(*ssa.Alloc)
				c.Check(fresh, rule, fmt.Sprintf("store to %s in %s", fieldName(fa), fname(g)), st.Pos(),
					"set while the filespace is constructed",
					"a tree node is remembered in the filespace object outside its construction — once a Remove/RemoveAll detaches that node, later operations through the remembered pointer succeed but their effect is not in the tree")
			})
		}
	}
	c.Floor(rule, n, 1)
	// containers whose static type hides what they hold (sync.Map, atomic.Value, interface values,
	// maps/slices of interfaces): no tree node is put into one that belongs to the filespace object
	isFsField := func(v ssa.Value) (string, bool) {
		for d := 0; d < 3; d++ {
			switch x := v.(type) {
			case *ssa.UnOp:
				v = x.X
				continue
			case *ssa.FieldAddr:
				if strings.HasPrefix(fieldName(x), "memfs.Filespace.") {
					_, fresh := resolve(x.X).(*ssa.Alloc)
					return fieldName(x), !fresh
				}
			}
			break
		}
		return "", false
	}
	nodeValued := func(v ssa.Value) bool {
		if mi, ok := v.(*ssa.MakeInterface); ok {
			return holdsNode(mi.X.Type(), 0)
		}
		return holdsNode(v.Type(), 0)
	}
	for _, f := range c.P.PkgFuncs(memfsPkg) {
		for _, g := range withClosures(f) {
			eachInstr(g, func(_ *ssa.BasicBlock, _ int, in ssa.Instruction) {
				fld, what := "", ""
				switch x := in.(type) {
				case *ssa.Call:
					cal := x.Call.StaticCallee()
					if cal == nil || cal.Pkg == nil || (cal.Pkg.Pkg.Path() != "sync" && cal.Pkg.Pkg.Path() != "sync/atomic") || len(x.Call.Args) < 2 {
						return
					}
					if fn, ok := isFsField(x.Call.Args[0]); ok {
						for _, a := range x.Call.Args[1:] {
							if nodeValued(a) {
								fld, what = fn, cal.Name()
							}
						}
					}
				case *ssa.MapUpdate:
					if fn, ok := isFsField(x.Map); ok && !nodeFields[fn] && (nodeValued(x.Value) || nodeValued(x.Key)) {
						fld, what = fn, "map update"
					}
				case *ssa.Store:
					if fn, ok := isFsField(x.Addr); ok && !nodeFields[fn] && nodeValued(x.Val) {
						fld, what = fn, "store"
					}
				}
				if fld == "" {
					return
				}
				c.Bad(rule, fmt.Sprintf("%s on %s in %s", what, fld, fname(g)), in.Pos(),
					"a tree node is remembered in the filespace object (in a container whose type hides it) — once a Remove/RemoveAll detaches that node or an ancestor, later operations through the remembered pointer succeed but their effect is not in the tree")
			})
		}
	}
}

// byteAltering: string functions that change bytes inside names.
var byteAltering = map[string]bool{
	"strings.Replace": true, "strings.ReplaceAll": true, "strings.Map": true, "strings.ToLower": true, "strings.ToUpper": true,
	"strings.Title": true, "strings.ToTitle": true, "strings.TrimSpace": true, "strings.Fields": true, "strings.ToValidUTF8": true,
	"strings.TrimFunc": true, "strings.TrimLeftFunc": true, "strings.TrimRightFunc": true, "strings.EqualFold": true,
	"(*strings.Replacer).Replace": true, "strings.(Replacer).Replace": true,
	"bytes.Replace": true, "bytes.ReplaceAll": true, "bytes.ToLower": true, "bytes.ToUpper": true,
	"path/filepath.ToSlash": true, "path/filepath.FromSlash": true,
}
var cutsetTrims = map[string]bool{"strings.Trim": true, "strings.TrimLeft": true, "strings.TrimRight": true}

// ruleNamesOpaque: node names are opaque byte strings — the path code may look
// at the separator only.  A path parameter that passes a byte-altering string
// function (Replace, ToLower, TrimSpace, Trim with a cutset other than "/") on
// its way through a filespace or a normaliser names a different node than the
// same spelling does in the sibling backends.
func ruleNamesOpaque(c *Ctx, rule string, iface *types.Interface, impls []*types.Named) int {
	pkgs := map[string]bool{}
	for _, T := range impls {
		if T.Obj().Pkg() != nil {
			pkgs[T.Obj().Pkg().Path()] = true
		}
	}
	pkgs[modPath+"/filesystem/disk"] = true
	var funcs []*ssa.Function
	for p := range pkgs {
		rel := strings.TrimPrefix(p, modPath+"/")
		funcs = append(funcs, c.P.PkgFuncs(rel)...)
	}
	for _, n := range []string{"CleanPath", "ReduceAbsPath"} {
		if f := c.P.Func("varutil", "", n); f != nil {
			funcs = append(funcs, f)
		} else {
			c.Bad(rule, "varutil."+n, 0, "anchor not found")
		}
	}
	n := 0
	for _, f := range funcs {
		for _, g := range withClosures(f) {
			bad := ""
			var pos token.Pos
			for _, ci := range Calls(g) {
				if ci.Static == nil {
					continue
				}
				q := qualName(ci.Static)
				alter := byteAltering[q]
				if cutsetTrims[q] {
					if s, ok := constString(ci.Arg(1)); !ok || s != "/" {
						alter = true
					}
				}
				// a test of the path against a fragment of a name ("..", ".", "tmp"): whole segments
				// ("../", "/x/") and the separator itself are structure, anything else judges a name by
				// part of its bytes
				fragment := ""
				if s, ok := constString(ci.Arg(1)); ok && strings.Trim(s, "/") != "" {
					switch q {
					case "strings.HasPrefix":
						if !strings.HasSuffix(s, "/") {
							fragment = s
						}
					case "strings.HasSuffix":
						if !strings.HasPrefix(s, "/") {
							fragment = s
						}
					case "strings.Contains", "strings.Index", "strings.LastIndex", "strings.Count":
						if !(strings.HasPrefix(s, "/") && strings.HasSuffix(s, "/")) {
							fragment = s
						}
					}
				}
				// one path tested as a prefix of another without a separator boundary: HasPrefix(p, dir) also
				// matches the sibling "dirx/..." - the prefix must end with the separator
				if q == "strings.HasPrefix" && fragment == "" && !alter {
					if _, isConst := constString(ci.Arg(1)); !isConst && isStringy(ci.Arg(1).Type()) {
						parts := flattenTemplate(resolve(ci.Arg(1)))
						endsSep := len(parts) > 0 && parts[len(parts)-1].hole == "" && strings.HasSuffix(parts[len(parts)-1].konst, "/")
						if !endsSep && bad == "" {
							bad = "a path is tested with strings.HasPrefix against another path that does not end with the separator (it also matches sibling names that merely start with it)"
							pos = ci.Pos()
						}
					}
				}
				if !alter && fragment == "" {
					continue
				}
				a := ci.Arg(0)
				if ci.Static.Signature.Recv() != nil {
					a = ci.Arg(0)
				}
				if a == nil || !isStringy(a.Type()) {
					continue
				}
				for _, o := range Origins(a, FlowOpts{Transparent: pathTransparent}) {
					if o.Kind == "param" {
						if p, ok := o.Val.(*ssa.Parameter); ok && isStringy(p.Type()) {
							bad = fmt.Sprintf("path parameter %s passes %s", p.Name(), lastSeg(q))
							if !alter {
								bad = fmt.Sprintf("path parameter %s is tested with %s against the name fragment %q", p.Name(), lastSeg(q), fragment)
							}
							pos = ci.Pos()
						}
					}
				}
			}
			if len(stringParams(g)) == 0 && bad == "" {
				continue
			}
			n++
			c.Check(bad == "", rule, "path bytes in "+fname(g), orPos(pos, g.Pos()), "path parameters are split/joined at the separator only",
				bad+" — names are opaque bytes: a spelling containing the altered bytes now addresses a different node than in the sibling backends and views")
		}
	}
	return n
}

func orPos(a, b token.Pos) token.Pos {
	if a != token.NoPos {
		return a
	}
	return b
}

// ruleReduceBeforeJoin: ReduceAbsPath must be applied to the caller-supplied
// part alone.  Reducing base+arg lets a ".." in arg consume the base, so the
// reducer's own check ("climbs above the root") is made against the wrong root.
func ruleReduceBeforeJoin(c *Ctx, rule string, impls []*types.Named) int {
	pkgs := map[string]bool{}
	for _, T := range impls {
		if T.Obj().Pkg() != nil {
			pkgs[T.Obj().Pkg().Path()] = true
		}
	}
	n := 0
	for p := range pkgs {
		rel := strings.TrimPrefix(p, modPath+"/")
		for _, f := range c.P.PkgFuncs(rel) {
			for _, g := range withClosures(f) {
				calls := CallsTo(g, reduceFn)
				if len(calls) == 0 {
					continue
				}
				facts := factsFor(g)
				for _, ci := range calls {
					n++
					var alts []ssa.Value
					phiAlternatives(ci.Arg(0), map[ssa.Value]bool{}, &alts)
					bad := ""
					for _, alt := range alts {
						parts := concatParts(alt, 0)
						if len(parts) < 2 {
							continue
						}
						prefixNonConst := false
						for i, part := range parts {
							leaves := classifyLeaves(g, facts, part, ci.Block)
							if i > 0 && prefixNonConst {
								for _, l := range leaves {
									if l.Param != nil && l.State != "reduced" {
										bad = fmt.Sprintf("parameter %s is joined behind a non-constant prefix and only then reduced", l.Param.Name())
									}
								}
							}
							for _, l := range leaves {
								if l.NonConst {
									prefixNonConst = true
								}
							}
						}
					}
					c.Check(bad == "", rule, "argument of ReduceAbsPath in "+fname(g), ci.Pos(), "the reducer sees the caller-supplied part alone",
						bad+" — \"..\" in the argument cancels a segment of the prefix, so the view is rooted above the place it was asked for")
				}
			}
		}
	}
	return n
}

// ruleStatPositive: in the disk backend a boolean query may answer anything but
// "false" only where its os.Stat/os.Lstat succeeded.  Stat fails for other
// reasons than "does not exist" (a path running through a regular file, a name
// that is too long, a directory that denies access): answering true there makes
// IsExist disagree with IsFile/IsDir and with the memory backend.
func ruleStatPositive(c *Ctx, rule string) int {
	n := 0
	for _, rel := range []string{"filesystem/disk", "filesystem/filespace/diskfs"} {
		for _, f := range c.P.PkgFuncs(rel) {
			res := f.Signature.Results()
			if res.Len() != 1 || !types.Identical(res.At(0).Type().Underlying(), types.Typ[types.Bool]) || f.Blocks == nil {
				continue
			}
			stats := CallsTo(f, "os.Stat", "os.Lstat")
			if len(stats) == 0 {
				continue
			}
			n++
			facts := factsFor(f)
			okEdge := func(v ssa.Value, fs factSet) bool {
				if b, isC := constBool(v); isC && !b {
					return true
				}
				// the answer *is* the test `err == nil` (or its negated opposite)
				pos := true
				tv := v
				for {
					u, isU := tv.(*ssa.UnOp)
					if !isU || u.Op != token.NOT {
						break
					}
					pos, tv = !pos, u.X
				}
				if bo, isB := tv.(*ssa.BinOp); isB && (bo.Op == token.EQL || bo.Op == token.NEQ) {
					other := bo.X
					if isNilConst(bo.X) {
						other = bo.Y
					}
					if (isNilConst(bo.X) || isNilConst(bo.Y)) && ((bo.Op == token.EQL) == pos) {
						for _, st := range stats {
							if e := firstOr(resultN(st.Value(), 1)); e != nil && sameValue(resolve(other), resolve(e)) {
								return true
							}
						}
					}
				}
				for _, st := range stats {
					if knownNilIn(fs, firstOr(resultN(st.Value(), 1)), true) {
						return true
					}
				}
				return false
			}
			bad := ""
			var pos token.Pos
			for _, r := range returnsOf(f) {
				if len(r.Results) == 0 {
					continue
				}
				v := resolve(r.Results[0])
				if p, isPhi := v.(*ssa.Phi); isPhi {
					for i, e := range p.Edges {
						if !okEdge(resolve(e), factsOnEdge(facts, p.Block().Preds[i], p.Block())) {
							bad, pos = "a result other than false ("+vdesc(e)+") is returned where Stat's error is not known to be nil", r.Pos()
						}
					}
				} else if !okEdge(v, facts.At(r.Block())) {
					bad, pos = "a result other than false ("+vdesc(v)+") is returned where Stat's error is not known to be nil", r.Pos()
				}
			}
			c.Check(bad == "", rule, "positive answer of "+fname(f), orPos(pos, f.Pos()), "true only after a successful Stat",
				bad+" — e.g. IsExist(\"file.txt/child\") (ENOTDIR) answers true while IsFile/IsDir and the memory backend answer false")
		}
	}
	return n
}

// ruleCopyLooksUpSourceFirst: in the memory filespace's copy operations nothing
// in the tree is changed before the source was found: every call that can add
// or remove a node is made on the nil edge of the source lookup.  (A copy whose
// source is missing - or of the wrong kind - fails, and must leave no freshly
// created destination directories behind.)
func ruleCopyLooksUpSourceFirst(c *Ctx, rule string, methods map[string]*ssa.Function) int {
	mutators := map[string]bool{mq(memfsPkg, "Dir", "addNode"): true, mq(memfsPkg, "Dir", "removeNodeByName"): true}
	if mk := c.P.Func(memfsPkg, "Dir", "mkdir"); mk != nil {
		mutators[qualName(mk)] = true
	}
	memo := map[*ssa.Function]int{}
	var mutates func(g *ssa.Function, d int) bool
	mutates = func(g *ssa.Function, d int) bool {
		if g == nil || g.Blocks == nil || d > 4 {
			return false
		}
		if mutators[qualName(g)] {
			return true
		}
		if v, ok := memo[g]; ok {
			return v == 1
		}
		memo[g] = 2
		for _, ci := range Calls(g) {
			if ci.Static != nil && ci.Static.Pkg == g.Pkg && ci.Kind == "call" && mutates(ci.Static, d+1) {
				memo[g] = 1
				return true
			}
		}
		return false
	}
	n := 0
	for _, mn := range []string{"Copy", "CopyDirectory", "CopyFile"} {
		f := methods[mn]
		if f == nil {
			continue
		}
		sp := stringParams(f)
		if len(sp) < 2 {
			continue
		}
		src, dst := sp[0], sp[1]
		// a method that only hands both paths on to one worker is judged in the worker
		for hop := 0; hop < 3; hop++ {
			var next *ssa.Function
			var nsrc, ndst *ssa.Parameter
			cnt := 0
			for _, ci := range Calls(f) {
				if ci.Static == nil || ci.Kind != "call" || ci.Static.Pkg != f.Pkg || ci.Static.Blocks == nil || !mutates(ci.Static, 0) {
					continue
				}
				cnt++
				var ps, pd *ssa.Parameter
				off := len(ci.Static.Params) - len(ci.Common.Args)
				for i, a := range ci.Common.Args {
					if i+off < 0 || i+off >= len(ci.Static.Params) {
						continue
					}
					for _, o := range Origins(a, FlowOpts{Transparent: pathTransparent}) {
						if o.Val == ssa.Value(src) && ps == nil {
							ps = ci.Static.Params[i+off]
						}
						if o.Val == ssa.Value(dst) && pd == nil {
							pd = ci.Static.Params[i+off]
						}
					}
				}
				if ps != nil && pd != nil && ps != pd {
					next, nsrc, ndst = ci.Static, ps, pd
				}
			}
			if cnt != 1 || next == nil {
				break
			}
			f, src, dst = next, nsrc, ndst
		}
		sp = []*ssa.Parameter{src, dst}
		facts := factsFor(f)
		// source lookups: calls with an error result whose arguments derive from src and that do not mutate
		var lookups []*ssa.Call
		for _, ci := range Calls(f) {
			call, isCall := ci.Instr.(*ssa.Call)
			if !isCall || ci.Static == nil || ci.Static.Pkg != f.Pkg || errResultIndex(ci.Static.Signature) < 0 || mutates(ci.Static, 0) {
				continue
			}
			fromSrc, fromDest := false, false
			for _, a := range ci.Common.Args {
				for _, o := range Origins(a, FlowOpts{Transparent: pathTransparent, Interproc: 1}) {
					if o.Val == ssa.Value(src) {
						fromSrc = true
					}
					if o.Val == ssa.Value(sp[1]) {
						fromDest = true
					}
				}
			}
			if fromSrc && !fromDest {
				lookups = append(lookups, call)
			}
		}
		n++
		bad := ""
		var pos token.Pos
		if len(lookups) == 0 {
			bad = "cannot find the lookup of the source node"
		}
		for _, ci := range Calls(f) {
			if ci.Static == nil || ci.Kind != "call" || !mutates(ci.Static, 0) {
				continue
			}
			ok := false
			for _, l := range lookups {
				ev := firstOr(resultN(l, errResultIndex(l.Call.Signature())))
				if ev != nil && dominates(l, ci.Instr) && facts.HoldsOnAllEdges(ci.Block, func(fs factSet) bool { return knownNilIn(fs, ev, true) }) {
					ok = true
				}
			}
			if !ok && len(lookups) > 0 {
				bad, pos = "the tree is changed by "+ci.Static.Name()+" before the source node was found", ci.Pos()
			}
		}
		c.Check(bad == "", rule, "memfs.(Filespace)."+mn+" looks the source up before it changes the tree", orPos(pos, f.Pos()), "every add/create follows the successful source lookup",
			bad+" — a copy that fails (missing source, wrong kind) leaves newly created destination directories behind: nodes that no operation of the model created")
	}
	return n
}
