package main

import (
	"fmt"
	"go/token"
	"go/types"
	"strings"

	"golang.org/x/tools/go/ssa"
)

const cachePkg = "filesystem/fscache"

var fsMutators = map[string]bool{"Copy": true, "CopyDirectory": true, "CopyFile": true, "MkdirAll": true, "WriteFile": true, "Writer": true, "Remove": true, "RemoveAll": true}
var fsReaders = map[string]bool{"ReadDir": true, "IsExist": true, "IsFile": true, "IsDir": true, "ReadFile": true, "Reader": true, "Lstat": true}

func init() {
	register(&PropDef{ID: "C06", Title: "Write-back cache: nothing reaches the remote before Commit, everything after", Rules: rulesC06,
		Explanation: "Decided (structural necessary conditions, package fscache): R1 the remote filespace (field remoteFS, followed through helpers) is the receiver of a mutating Filespace method, or the destination of StreamCopy / a Copier / fshelper.Copy, only inside Commit (expected count elsewhere: 0; the rule must match the >= 4 uses inside Commit on every run); R2 every journal map that some method writes is ranged over in Commit and its loop applies the matching remote operation to the ranged path; R3 in Commit every error of a remote operation is returned and no loop iteration continues after a failed one; R4 in every mutating Cache method, each path that mutates the buffer also calls the matching journal recorder with the same path, and every return that can be a success has passed the recorder (a mutation is never skipped because a read-through query says it is unnecessary); R5 the four journal maps are accessed only under their own mutex; R6 the stream copy Commit uses for written files tests and returns the errors of io.Copy and of closing the remote writer (a remote failure during Commit is reported). " +
			"Added in round 2: R6 covers fshelper.Copier.copyFile too (used by Cache.Copy) and requires the destination writer to be opened only after the source reader could be opened; R7 every possibly-nil return of Commit follows the loops over all journals — a 'nothing changed' skip is accepted only if its flag is armed again on every failing exit after it was cleared (else the Commit after a failed one is a successful no-op); R8 the module's own backends replace content at open time (same rules as C04.R1/R2): Commit pushes files with remote.Writer + io.Copy, and io.Copy never calls Write for an empty source. " +
			"Added in round 5: R2 also requires that no branch of a replay loop depends (by operators only) on the value stored with the journal entry — the journals are sets, a per-entry flag cleared by an earlier Commit makes a later Commit skip an entry that a replayed Remove/RemoveAll has made necessary again; R9 a pending change is never matched by a bare string prefix (HasPrefix(p, dir) without the separator also matches the sibling 'dirx/...'; same rule as C02.R8). " +
			"Added in round 6: R2 also requires that no replay branch depends on what another journal holds for the ranged path (entries are never retracted and carry no order); R5 gives a function literal that is only run synchronously under its creator's lock (called directly, or handed to a helper that only calls it) the creator's lockset. " +
			"Added in round 7: R10 inside Commit no journal of creating operations (write, mkdir) is shrunk (delete, clear, fresh map) while a journal of removals is kept - a later Commit would replay the removal without the write that followed it. " +
			"NOT decided — and known to fail on some histories, which this family cannot see (DESIGN.md §6): equality of the committed tree with direct application (directory copies journal only the root and are dropped by the file-only replay, Remove of a remote empty directory is filtered by the file-only test, the four journals are replayed in a fixed order regardless of operation order, recovery by a second Commit).",
	})
}

// fromField: v's origins (through same-package helpers) include field name.
func fromField(v ssa.Value, field string) bool {
	return hasOrigin(Origins(v, FlowOpts{Interproc: 2}), func(o Origin) bool { return o.Kind == "field" && o.Name == field })
}

// remoteWrites: mutating uses of the remote filespace in f.
type fsUse struct {
	ci   *CallInfo
	what string
}

func mutatingUsesOf(f *ssa.Function, field string) []fsUse {
	var out []fsUse
	for _, ci := range Calls(f) {
		switch {
		case ci.Method != nil && fsMutators[ci.Method.Name()] && strings.HasSuffix(qualObj(ci.Method), "(Filespace)."+ci.Method.Name()):
			if fromField(ci.Recv(), field) {
				out = append(out, fsUse{ci, ci.Method.Name()})
			}
		case ci.Static != nil && qualName(ci.Static) == mq("filesystem/fshelper", "", "StreamCopy"):
			if fromField(ci.Arg(1), field) {
				out = append(out, fsUse{ci, "StreamCopy(dest)"})
			}
		case ci.Static != nil && qualName(ci.Static) == mq("filesystem/fshelper", "", "Copy"):
			if fromField(ci.Arg(1), field) {
				out = append(out, fsUse{ci, "fshelper.Copy(dest)"})
			}
		}
	}
	// Copier literals: DestFS
	eachInstr(f, func(_ *ssa.BasicBlock, _ int, in ssa.Instruction) {
		st, ok := in.(*ssa.Store)
		if !ok {
			return
		}
		if fa, ok := st.Addr.(*ssa.FieldAddr); ok && fieldName(fa) == "fshelper.Copier.DestFS" && fromField(st.Val, field) {
			out = append(out, fsUse{&CallInfo{Instr: nil, Block: st.Block()}, "Copier.DestFS"})
		}
	})
	return out
}

// cacheRoles: the fields and helpers of fscache.Cache, discovered from the code
// (types and how the exported methods use them), not from their names.
type cacheRoles struct {
	cacheT   *types.Named
	histT    *types.Struct              // the journal struct (the struct-typed field of Cache that holds map fields)
	histName string                     // its field name in Cache
	remote   string                     // "fscache.Cache.<field>" of the filespace Commit writes to
	buffer   string                     // "fscache.Cache.<field>" of the filespace Commit copies from
	journals []string                   // names of the journal map fields
	class    map[string]string          // journal field -> operation class: Remove | RemoveAll | MkdirAll | write
	recorder map[string][]*ssa.Function // journal field -> functions that write it
	problems []string
}

func opClass(method string) string {
	switch method {
	case "Remove", "RemoveAll", "MkdirAll":
		return method
	case "WriteFile", "Writer", "Copy", "CopyDirectory", "CopyFile":
		return "write"
	}
	return ""
}

func discoverCacheRoles(c *Ctx) *cacheRoles {
	r := &cacheRoles{class: map[string]string{}, recorder: map[string][]*ssa.Function{}}
	r.cacheT = c.P.Named(cachePkg, "Cache")
	commit := c.P.Func(cachePkg, "Cache", "Commit")
	fiface := c.P.Iface("filesystem", "Filespace")
	if r.cacheT == nil || commit == nil || fiface == nil {
		return nil
	}
	cst, ok := r.cacheT.Underlying().(*types.Struct)
	if !ok {
		return nil
	}
	tn := "fscache.Cache."
	// journal struct
	for i := 0; i < cst.NumFields(); i++ {
		if st, ok := cst.Field(i).Type().Underlying().(*types.Struct); ok {
			nmaps := 0
			for j := 0; j < st.NumFields(); j++ {
				if _, isMap := st.Field(j).Type().Underlying().(*types.Map); isMap {
					nmaps++
				}
			}
			if nmaps > 0 {
				r.histT, r.histName = st, refFieldName(lastSeg(typeString(r.cacheT)), cst.Field(i).Name())
				for j := 0; j < st.NumFields(); j++ {
					if _, isMap := st.Field(j).Type().Underlying().(*types.Map); isMap {
						r.journals = append(r.journals, refFieldName(lastSeg(typeString(cst.Field(i).Type())), st.Field(j).Name()))
					}
				}
			}
		}
	}
	if r.histT == nil {
		return nil
	}
	// remote / buffer from the copy step and the mutators of Commit
	votes := map[string]int{}
	var groupCalls []*CallInfo
	for _, g := range commitGroup(c.P, commit) {
		groupCalls = append(groupCalls, Calls(g)...)
	}
	for _, ci := range groupCalls {
		if ci.Static != nil && qualName(ci.Static) == mq("filesystem/fshelper", "", "StreamCopy") {
			for _, o := range Origins(ci.Arg(1), FlowOpts{}) {
				if o.Kind == "field" && strings.HasPrefix(o.Name, tn) {
					votes[o.Name] += 10
				}
			}
			for _, o := range Origins(ci.Arg(0), FlowOpts{}) {
				if o.Kind == "field" && strings.HasPrefix(o.Name, tn) {
					r.buffer = o.Name
				}
			}
		}
		if ci.Method != nil && fsMutators[ci.Method.Name()] {
			for _, o := range Origins(ci.Recv(), FlowOpts{}) {
				if o.Kind == "field" && strings.HasPrefix(o.Name, tn) {
					votes[o.Name]++
				}
			}
		}
	}
	best := 0
	for k, v := range votes {
		if v > best {
			best, r.remote = v, k
		}
	}
	if r.buffer == "" {
		// the filespace field the mutating methods write to
		bv := map[string]int{}
		for mn, f := range c.P.MethodsOf(r.cacheT, fiface) {
			if opClass(mn) == "" {
				continue
			}
			for _, ci := range Calls(f) {
				if ci.Method != nil && fsMutators[ci.Method.Name()] {
					for _, o := range Origins(ci.Recv(), FlowOpts{}) {
						if o.Kind == "field" && strings.HasPrefix(o.Name, tn) && o.Name != r.remote {
							bv[o.Name]++
						}
					}
				}
			}
		}
		b := 0
		for k, v := range bv {
			if v > b {
				b, r.buffer = v, k
			}
		}
	}
	// recorders and classes
	fns := c.P.PkgFuncs(cachePkg)
	for _, f := range fns {
		eachInstr(f, func(_ *ssa.BasicBlock, _ int, in ssa.Instruction) {
			if mu, ok := in.(*ssa.MapUpdate); ok {
				if n, base := fieldLoadName(mu.Map); base != nil && !freshBase(base) {
					for _, j := range r.journals {
						if j == n {
							r.recorder[j] = append(r.recorder[j], f)
						}
					}
				}
			}
		})
	}
	for mn, f := range c.P.MethodsOf(r.cacheT, fiface) {
		cl := opClass(mn)
		if cl == "" {
			continue
		}
		// which journals can this operation write?  Constant boolean arguments are followed, so a
		// recorder shared by two operations and steered by a flag (record(dest, recursive)) is split
		for _, ri := range reachWithBools(f, 3) {
			g := ri.fn
			// do not follow delegation into other interface methods of the cache
			if g != f && g.Signature.Recv() != nil && opClass(g.Name()) != "" {
				continue
			}
			eachInstr(g, func(_ *ssa.BasicBlock, _ int, in ssa.Instruction) {
				mu, ok := in.(*ssa.MapUpdate)
				if !ok {
					return
				}
				j, base := fieldLoadName(mu.Map)
				if base == nil || freshBase(base) || len(r.recorder[j]) == 0 || !feasibleUnder(g, mu, ri.env) {
					return
				}
				if old, has := r.class[j]; has && old != cl {
					r.problems = append(r.problems, fmt.Sprintf("journal %s is written by operations of different kinds (%s and %s: %s)", j, old, cl, mn))
				} else {
					r.class[j] = cl
				}
			})
		}
	}
	return r
}

// recordsInto: calls in f (kind "call") to a recorder of journal j.
func (r *cacheRoles) isRecorderCall(in ssa.Instruction, j string) bool {
	ci := callInfo(in, nil, 0)
	if ci == nil || ci.Static == nil || ci.Kind != "call" {
		if mu, ok := in.(*ssa.MapUpdate); ok {
			if n, _ := fieldLoadName(mu.Map); n == j {
				return true
			}
		}
		return false
	}
	for _, rec := range r.recorder[j] {
		if rec != ci.Static {
			continue
		}
		// the recorder may serve several journals, steered by constant boolean arguments
		env := map[*ssa.Parameter]bool{}
		for i, a := range ci.Common.Args {
			if b, isC := constBool(a); isC && i < len(rec.Params) {
				env[rec.Params[i]] = b
			}
		}
		hit := false
		eachInstr(rec, func(_ *ssa.BasicBlock, _ int, in2 ssa.Instruction) {
			if mu, ok := in2.(*ssa.MapUpdate); ok {
				if n, _ := fieldLoadName(mu.Map); n == j && feasibleUnder(rec, mu, env) {
					hit = true
				}
			}
		})
		if hit {
			return true
		}
	}
	return false
}

// feasibleUnder: instruction in (of g) is not on a branch that the constant
// values env of g's boolean parameters rule out.
func feasibleUnder(g *ssa.Function, in ssa.Instruction, env map[*ssa.Parameter]bool) bool {
	if len(env) == 0 {
		return true
	}
	facts := factsFor(g)
	for p, v := range env {
		if p.Parent() == g && facts.KnownBool(in.Block(), p, !v) {
			return false
		}
	}
	return true
}

func (r *cacheRoles) journalOfClass(cl string) string {
	for j, c := range r.class {
		if c == cl {
			return j
		}
	}
	return ""
}

func rulesC06(c *Ctx) {
	roles := discoverCacheRoles(c)
	commit := c.P.Func(cachePkg, "Cache", "Commit")
	fns := c.P.PkgFuncs(cachePkg)
	if roles == nil || commit == nil || roles.remote == "" || roles.buffer == "" || roles.remote == roles.buffer {
		c.Bad("anchor", "fscache.Cache: journal struct, remote and buffer filespace, Commit", 0, "cannot discover the cache's roles (journal struct with map fields, the filespace Commit copies to and the one it copies from); cannot certify")
		return
	}
	cacheT := roles.cacheT
	remote, buffer := roles.remote, roles.buffer
	c.Note("cache roles: remote=%s buffer=%s journals=%v classes=%v", remote, buffer, roles.journals, roles.class)
	for _, p := range roles.problems {
		c.Bad("R2", "journal classes", commit.Pos(), p+" — Commit cannot replay such a journal with one operation")
	}

	// ---- R1 remote only written by Commit -----------------------------------------------
	group := commitGroup(c.P, commit)
	inG := map[*ssa.Function]bool{}
	for _, g := range group {
		inG[g] = true
	}
	if len(group) > 1 {
		var gn []string
		for _, g := range group[1:] {
			gn = append(gn, fname(g))
		}
		c.Note("Commit is split into private stages called from nowhere else: %s", strings.Join(gn, ", "))
	}
	inCommit, outside := 0, 0
	for _, f := range fns {
		for _, u := range mutatingUsesOf(f, remote) {
			if inG[f] {
				inCommit++
				continue
			}
			outside++
			pos := token.NoPos
			if u.ci.Instr != nil {
				pos = u.ci.Pos()
			}
			c.Bad("R1", fmt.Sprintf("remote %s in %s", u.what, fname(f)), pos, "the remote filespace is modified outside Commit — a change is visible on the remote before Commit")
		}
	}
	c.Check(outside == 0, "R1", "remote is modified only by Commit", commit.Pos(), fmt.Sprintf("0 mutating uses of the remote outside Commit; %d inside (positive control)", inCommit), "see the individual uses")
	c.Floor("R1", inCommit, 4)

	// ---- R2 every journal replayed with its own operation ------------------------------------
	hst := roles.histT
	opsOf := map[string][]string{"Remove": {"Remove"}, "RemoveAll": {"RemoveAll"}, "MkdirAll": {"MkdirAll"}, "write": {"StreamCopy(dest)", "WriteFile", "Writer"}}
	n2 := 0
	for _, jn := range roles.journals {
		if len(roles.recorder[jn]) == 0 {
			continue // never written
		}
		n2++
		con := "journal of " + roles.class[jn] + " operations replayed by Commit"
		if roles.class[jn] == "" {
			con = "journal " + jn + " replayed by Commit"
		}
		var rng *ssa.Range
		rngFn := commit
		// a journal may be ranged over more than once (a second loop that empties it after a
		// successful replay): the replay loop is the one whose key reaches the remote operation
		appliesOp := func(r *ssa.Range, g *ssa.Function) bool {
			var key ssa.Value
			for _, rf := range *r.Referrers() {
				if nx, ok := rf.(*ssa.Next); ok {
					for _, e := range resultN(nx, 1) {
						key = e
					}
				}
			}
			if key == nil {
				return false
			}
			for _, u := range mutatingUsesOf(g, remote) {
				if u.ci.Instr == nil {
					continue
				}
				match := false
				for _, o := range opsOf[roles.class[jn]] {
					if u.what == o {
						match = true
					}
				}
				if !match {
					continue
				}
				patharg := u.ci.Arg(0)
				if u.what == "StreamCopy(dest)" {
					patharg = u.ci.Arg(2)
				}
				if resolve(patharg) == key || hasOrigin(Origins(patharg, FlowOpts{}), func(o Origin) bool { return o.Val == key }) {
					return true
				}
			}
			return false
		}
		chosen := false
		for _, g := range group {
			g := g
			eachInstr(g, func(_ *ssa.BasicBlock, _ int, in ssa.Instruction) {
				if r, ok := in.(*ssa.Range); ok && !chosen {
					if n, _ := fieldLoadName(r.X); n == jn {
						rng, rngFn = r, g
						chosen = appliesOp(r, g)
					}
				}
			})
		}
		if rng == nil {
			c.Bad("R2", con, commit.Pos(), "Commit does not range over this journal ("+jn+") — a whole class of buffered operations never reaches the remote")
			continue
		}
		ops, known := opsOf[roles.class[jn]]
		if !known {
			c.Bad("R2", con, rng.Pos(), "journal "+jn+" is not written by any of the mutating operations the checker knows a replay rule for; cannot certify")
			continue
		}
		var key ssa.Value
		for _, r := range *rng.Referrers() {
			if nx, ok := r.(*ssa.Next); ok {
				for _, e := range resultN(nx, 1) {
					key = e
				}
			}
		}
		okOp := false
		for _, u := range mutatingUsesOf(rngFn, remote) {
			match := false
			for _, o := range ops {
				if u.what == o {
					match = true
				}
			}
			if !match || u.ci.Instr == nil {
				continue
			}
			var patharg ssa.Value
			if u.what == "StreamCopy(dest)" {
				patharg = u.ci.Arg(2)
			} else {
				patharg = u.ci.Arg(0)
			}
			if key != nil && (resolve(patharg) == key || hasOrigin(Origins(patharg, FlowOpts{}), func(o Origin) bool { return o.Val == key })) {
				okOp = true
			}
		}
		// the replay of an entry does not depend on the value stored with it: the journals are sets of
		// paths; a per-entry flag (cleared by an earlier Commit) makes the replay skip an entry that a later
		// operation of another journal has made necessary again
		if okOp {
			var val ssa.Value
			for _, r := range *rng.Referrers() {
				if nx, ok := r.(*ssa.Next); ok {
					for _, e := range resultN(nx, 2) {
						val = e
					}
				}
			}
			{
				valDep := false
				if val != nil {
					eachInstr(rngFn, func(_ *ssa.BasicBlock, _ int, in ssa.Instruction) {
						if iff, ok := in.(*ssa.If); ok && pureDep(iff.Cond, val, 0) {
							valDep = true
						}
					})
				}
				// ... nor on what another journal holds: entries are never retracted, so "also in the write
				// journal" says nothing about which operation came last
				eachInstr(rngFn, func(_ *ssa.BasicBlock, _ int, in ssa.Instruction) {
					iff, ok := in.(*ssa.If)
					if !ok {
						return
					}
					var lk *ssa.Lookup
					var find func(v ssa.Value, d int)
					find = func(v ssa.Value, d int) {
						if v == nil || d > 6 || lk != nil {
							return
						}
						switch x := v.(type) {
						case *ssa.Lookup:
							lk = x
						case *ssa.Extract:
							find(x.Tuple, d+1)
						case *ssa.UnOp:
							find(x.X, d+1)
						case *ssa.BinOp:
							find(x.X, d+1)
							find(x.Y, d+1)
						}
					}
					find(iff.Cond, 0)
					if lk == nil || key == nil || !(resolve(lk.Index) == key || sameValue(resolve(lk.Index), key)) {
						return
					}
					if n, _ := fieldLoadName(lk.X); n != "" && n != jn {
						for _, j2 := range roles.journals {
							if j2 == n {
								valDep = true
							}
						}
					}
				})
				if valDep {
					c.Bad("R2", con, rng.Pos(), "the replay loop over journal "+jn+" branches on the value stored with the entry (a per-entry flag) or on what another journal holds for the same path: an entry is skipped although it is necessary (journal entries are never retracted and carry no order) — the committed tree differs from the buffered view")
					continue
				}
			}
		}
		c.Check(okOp, "R2", con, rng.Pos(), "ranged over, and "+strings.Join(ops, "/")+" is applied to the remote with the ranged path", "the loop over journal "+jn+" does not apply "+strings.Join(ops, "/")+" to the remote for the ranged path — these buffered operations are silently dropped (or replayed as a different operation)")
	}
	c.Floor("R2", n2, 4)

	// ---- R10 the journals are retired together ----------------------------------------------------
	// The replay of a Remove/RemoveAll is only harmless because the write that followed it is replayed
	// after it on every Commit.  Dropping the entries of one journal (delete, or a fresh map) while
	// another journal that some operation writes is kept makes a later Commit replay the removal alone.
	{
		shrunk := map[string]token.Pos{}
		for _, g := range group {
			eachInstr(g, func(_ *ssa.BasicBlock, _ int, in ssa.Instruction) {
				switch x := in.(type) {
				case *ssa.Call:
					if b, ok := x.Call.Value.(*ssa.Builtin); ok && (b.Name() == "delete" || b.Name() == "clear") && len(x.Call.Args) > 0 {
						if n, base := fieldLoadName(x.Call.Args[0]); base != nil && !freshBase(base) {
							shrunk[n] = x.Pos()
						}
					}
				case *ssa.Store:
					if fa, ok := x.Addr.(*ssa.FieldAddr); ok && !freshBase(fa.X) {
						if _, isMap := x.Val.Type().Underlying().(*types.Map); isMap {
							shrunk[fieldName(fa)] = x.Pos()
						}
					}
				}
			})
		}
		var kept, dropped []string
		var at token.Pos
		for _, jn := range roles.journals {
			if len(roles.recorder[jn]) == 0 {
				continue
			}
			destructive := roles.class[jn] == "Remove" || roles.class[jn] == "RemoveAll"
			if p, ok := shrunk[jn]; ok && !destructive {
				dropped = append(dropped, jn)
				at = p
			} else if !ok && destructive {
				kept = append(kept, jn)
			}
		}
		c.Check(len(dropped) == 0 || len(kept) == 0, "R10", "Commit retires the journals together or not at all", orPos(at, commit.Pos()), "no journal of creating operations (write, mkdir) is emptied while a journal of removals is kept",
			fmt.Sprintf("Commit drops entries of %v but keeps %v: a later Commit replays the kept operations without the ones that followed them (a removal is replayed, the write after it is not) — the remote tree loses data", dropped, kept))
	}

	// ---- R7 a successful Commit has replayed the journals -----------------------------------------
	ruleCommitReplays(c, commit, roles, group)

	// ---- R3 Commit reports remote failure --------------------------------------------------------
	n3 := 0
	for _, commit := range group {
		facts := factsFor(commit)
		for _, u := range mutatingUsesOf(commit, remote) {
			if u.ci.Instr == nil {
				continue
			}
			call, ok := u.ci.Instr.(*ssa.Call)
			if !ok {
				c.Bad("R3", "remote "+u.what+" in Commit", u.ci.Pos(), "a remote operation is deferred or spawned: its failure cannot be reported")
				continue
			}
			idx := errResultIndex(call.Call.Signature())
			if idx < 0 {
				continue
			}
			n3++
			con := fmt.Sprintf("error of remote %s #%d in Commit", u.what, n3)
			errs := resultN(call, idx)
			if len(errs) == 0 {
				c.Bad("R3", con, call.Pos(), "the error of a remote operation is dropped — Commit reports success although the remote is incomplete")
				continue
			}
			ev := errs[0]
			ret := false
			for _, r := range returnsOf(commit) {
				if facts.KnownNil(r.Block(), ev, false) {
					rv := resolve(r.Results[len(r.Results)-1])
					// the error itself, or an error built there (a wrapper naming the failed step)
					if rv == ev || sameValue(rv, ev) || isNonNilErrValue(rv, 0) {
						ret = true
					}
				}
			}
			cont := !failingEdgeAlwaysReturns(commit, ev)
			c.Check(ret && !cont, "R3", con, call.Pos(), "returned on its non-nil edge; the loop continues only on nil", "a failing remote operation is not returned (or the replay loop continues after it)")
		}
	}
	// the error of a stage is the error of Commit: each call of a stage is returned as it is
	for _, g := range group {
		for _, ci := range Calls(g) {
			if ci.Static == nil || !inG[ci.Static] || errResultIndex(ci.Static.Signature) < 0 {
				continue
			}
			ret := false
			for _, r := range returnsOf(g) {
				if resolve(r.Results[len(r.Results)-1]) == ci.Value() {
					ret = true
				}
			}
			if !ret {
				if call, ok := ci.Instr.(*ssa.Call); ok {
					if ev := firstOr(resultN(call, errResultIndex(ci.Static.Signature))); ev != nil && failingEdgeAlwaysReturns(g, ev) {
						ret = true
					}
				}
			}
			c.Check(ret, "R3", "error of stage "+fname(ci.Static)+" in "+fname(g), ci.Pos(), "returned", "the error of a commit stage is dropped — Commit reports success although the remote is incomplete")
		}
	}
	c.Floor("R3", n3, 4)

	// ---- R4 every buffered mutation is journaled ---------------------------------------------------
	recorderFor := map[string]string{}
	for _, mn := range []string{"MkdirAll", "Writer", "WriteFile", "Copy", "CopyDirectory", "CopyFile", "Remove", "RemoveAll"} {
		recorderFor[mn] = roles.journalOfClass(opClass(mn))
	}
	fiface := c.P.Iface("filesystem", "Filespace")
	methods := c.P.MethodsOf(cacheT, fiface)
	n4 := 0
	for _, mn := range sortedKeys(methods) {
		rec, isMut := recorderFor[mn]
		if !isMut {
			continue
		}
		f := methods[mn]
		n4++
		con := "fscache.(Cache)." + mn + " journals what it buffers"
		if rec == "" {
			c.Bad("R4", con, f.Pos(), "no journal is written by operations of this kind — after Commit the remote misses them")
			continue
		}
		isRec := func(in ssa.Instruction) bool { return roles.isRecorderCall(in, rec) }
		isBufOp := func(in ssa.Instruction) bool {
			ci := callInfo(in, nil, 0)
			if ci == nil {
				if st, ok := in.(*ssa.Store); ok {
					if fa, ok := st.Addr.(*ssa.FieldAddr); ok && fieldName(fa) == "fshelper.Copier.DestFS" && fromField(st.Val, buffer) {
						return true
					}
				}
				return false
			}
			if ci.Method != nil && fsMutators[ci.Method.Name()] && fromField(ci.Recv(), buffer) {
				return true
			}
			// delegation to another mutating method of the cache itself counts as journaled there
			return false
		}
		delegates := false
		for _, ci := range Calls(f) {
			if ci.Static != nil && ci.Static != f {
				for mm, g := range methods {
					if g == ci.Static && recorderFor[mm] != "" {
						delegates = true
					}
				}
			}
		}
		// a method that only hands on the result of one private helper (return c.copyKind(...)) is
		// judged by that helper
		if hs := handsOnHelper(f); hs != nil {
			hasOwn := false
			eachInstr(f, func(_ *ssa.BasicBlock, _ int, in ssa.Instruction) {
				if isRec(in) || isBufOp(in) {
					hasOwn = true
				}
			})
			if !hasOwn {
				c.Note("%s hands on the result of %s", fname(f), fname(hs))
				f = hs
			}
		}
		exits := RunPaths(f, nil, 0, func(st int, in ssa.Instruction, d bool) int {
			if isRec(in) {
				st |= 2
			}
			if isBufOp(in) {
				st |= 1
			}
			return st
		}, false, nil)
		bad := ""
		for _, e := range exits {
			r := e.Instr.(*ssa.Return)
			errv := resolve(r.Results[len(r.Results)-1])
			definitelyErr := false
			if call, ok := errv.(*ssa.Call); ok {
				if cf := call.Call.StaticCallee(); cf != nil && strings.HasPrefix(qualName(cf), modPath+"/varutil/goaterr.") {
					definitelyErr = true
				}
			}
			if e.State&1 != 0 && e.State&2 == 0 {
				bad = "the return at " + c.pos(r.Pos()) + " is reached after the buffer was changed without the change being journaled"
			}
			if e.State&2 == 0 && !definitelyErr && !delegates {
				bad = "the return at " + c.pos(r.Pos()) + " can report success without the operation having been journaled (the mutation is skipped on the strength of a read-through query, or simply not recorded)"
			}
		}
		// same path value
		if bad == "" {
			for _, ci := range Calls(f) {
				if ci.Static != nil && roles.isRecorderCall(ci.Instr, rec) {
					// the recorded path is the method's destination parameter (cleaned)
					os := Origins(ci.Arg(0), FlowOpts{})
					if !hasOrigin(os, func(o Origin) bool { return o.Kind == "param" }) {
						bad = "the journal records " + originsString(os) + ", not the operation's own path"
					}
				}
			}
		}
		c.Check(bad == "", "R4", con, f.Pos(), "every buffer mutation and every possibly-successful return passed the recorder of journal "+rec, bad+" — after Commit the remote misses this operation")
	}
	c.Floor("R4", n4, 8)

	// ---- R5 journal maps guarded -------------------------------------------------------------------
	le := NewLockEngine(c.P)
	n5 := 0
	for i := 0; i < hst.NumFields(); i++ {
		fld := hst.Field(i)
		if _, isMap := fld.Type().Underlying().(*types.Map); !isMap {
			continue
		}
		n5 += guardedAccessRule(c, le, "R5", fns, roles.histNamed(c), fld.Name(), fld.Name()+"MU", nil)
	}
	c.Floor("R5", n5, 8)

	// ---- R9 names are whole (same rule as C02.R8): a pending change is never matched by a bare string prefix ----
	if fsI := c.P.Iface("filesystem", "Filespace"); fsI != nil {
		c.Floor("R9", ruleNamesOpaque(c, "R9", fsI, []*types.Named{roles.cacheT}), 10)
	}

	// ---- R6 the copy step Commit relies on reports failure (same rule as C04.R3) ------------------------
	if sc := c.P.Func(helperPkg, "", "StreamCopy"); sc != nil {
		ruleStreamCopy(c, "R6", sc)
	} else {
		c.Bad("R6", "fshelper.StreamCopy", 0, "anchor not found")
	}
	// Cache.Copy goes through fshelper.Copier: same discipline (in particular: the destination
	// in the buffer is not created/emptied - and journaled - before the source could be opened)
	if cf := c.P.Func(helperPkg, "Copier", "copyFile"); cf != nil {
		ruleStreamCopy(c, "R6", cf)
	}
	// ---- R8 the module's own backends replace content at open time: Commit pushes a file with
	// remote.Writer + io.Copy, and io.Copy never calls Write for an empty source (same rules as C04.R1/R2)
	ruleMemWriterTruncates(c, "R8")
	ruleDiskWriterFlags(c, "R8")
}

// failingEdgeAlwaysReturns: the branch taken when error value ev is non-nil
// leads to a return on every path (the loop is not continued).
func failingEdgeAlwaysReturns(f *ssa.Function, ev ssa.Value) bool {
	found := false
	ok := true
	eachInstr(f, func(b *ssa.BasicBlock, _ int, in ssa.Instruction) {
		iff, isIf := in.(*ssa.If)
		if !isIf {
			return
		}
		bo, isBo := iff.Cond.(*ssa.BinOp)
		if !isBo || (bo.Op != token.NEQ && bo.Op != token.EQL) {
			return
		}
		var other ssa.Value
		if isNilConst(bo.Y) {
			other = bo.X
		} else if isNilConst(bo.X) {
			other = bo.Y
		} else {
			return
		}
		if !(resolve(other) == ev || sameValue(resolve(other), ev)) {
			return
		}
		found = true
		fail := b.Succs[0]
		if bo.Op == token.EQL {
			fail = b.Succs[1]
		}
		if !blockAlwaysReturns(fail) {
			ok = false
		}
	})
	return found && ok
}

// histNamed: the named type of the journal struct.
func (r *cacheRoles) histNamed(c *Ctx) *types.Named {
	cst := r.cacheT.Underlying().(*types.Struct)
	for i := 0; i < cst.NumFields(); i++ {
		if refFieldName(lastSeg(typeString(r.cacheT)), cst.Field(i).Name()) == r.histName {
			if n, ok := cst.Field(i).Type().(*types.Named); ok {
				return n
			}
		}
	}
	return nil
}

// ruleCommitReplays (R7): every return of Commit that can be nil follows the
// range over every journal.  A skip ("nothing changed since the last commit") is
// accepted only if the flag it tests is armed again on every failing exit of
// Commit after it was cleared - otherwise the Commit that follows a failed one
// reports success without bringing the remote up to date.
func ruleCommitReplays(c *Ctx, commit *ssa.Function, roles *cacheRoles, group []*ssa.Function) {
	if len(group) > 1 {
		// Commit split into stages: a possibly-nil return counts the journals ranged over before it in
		// its own function plus, when it hands on a stage's result, those of that stage (recursively)
		inG := map[*ssa.Function]bool{}
		for _, g := range group {
			inG[g] = true
		}
		var want []string
		for _, jn := range roles.journals {
			if len(roles.recorder[jn]) > 0 {
				want = append(want, jn)
			}
		}
		memo := map[*ssa.Function]map[string]bool{}
		var replayed func(f *ssa.Function, depth int) map[string]bool
		replayed = func(f *ssa.Function, depth int) map[string]bool {
			if m, ok := memo[f]; ok {
				return m
			}
			memo[f] = map[string]bool{}
			ei := errResultIndex(f.Signature)
			facts := factsFor(f)
			var res map[string]bool
			for _, r := range returnsOf(f) {
				if ei >= 0 && facts.HoldsOnAllEdges(r.Block(), func(fs factSet) bool { return knownNilIn(fs, r.Results[ei], false) }) {
					continue
				}
				got := map[string]bool{}
				// a return taken where every journal is known to be empty replays "everything"
				if facts.HoldsOnAllEdges(r.Block(), func(fs factSet) bool {
					e := journalsEmptyIn(fs)
					for k := range fs {
						if call, ok := k.v.(*ssa.Call); ok && k.pol {
							if h := call.Call.StaticCallee(); h != nil && h.Pkg == f.Pkg && h.Blocks != nil {
								for j := range trueImpliesEmpty(h) {
									e[j] = true
								}
							}
						}
					}
					for _, jn := range want {
						if !e[jn] {
							return false
						}
					}
					return true
				}) {
					for _, jn := range want {
						got[jn] = true
					}
				}
				eachInstr(f, func(_ *ssa.BasicBlock, _ int, in ssa.Instruction) {
					if rg, ok := in.(*ssa.Range); ok && dominates(rg, r) {
						if n, _ := fieldLoadName(rg.X); n != "" {
							got[n] = true
						}
					}
				})
				if ei >= 0 && depth < 8 {
					if call, ok := resolve(r.Results[ei]).(*ssa.Call); ok {
						if h := call.Call.StaticCallee(); h != nil && inG[h] {
							for k := range replayed(h, depth+1) {
								got[k] = true
							}
						}
					}
					// stages called one after the other: a stage call that dominates this return has
					// replayed its journals (its failure is returned - rule R3)
					for _, ci := range Calls(f) {
						if ci.Static != nil && inG[ci.Static] && ci.Static != f && ci.Kind == "call" && dominates(ci.Instr, r) {
							for k := range replayed(ci.Static, depth+1) {
								got[k] = true
							}
						}
					}
				}
				if res == nil {
					res = got
				} else {
					for k := range res {
						if !got[k] {
							delete(res, k)
						}
					}
				}
			}
			if res == nil {
				res = map[string]bool{}
			}
			memo[f] = res
			return res
		}
		got := replayed(commit, 0)
		var missing []string
		for _, jn := range want {
			if !got[jn] {
				missing = append(missing, jn)
			}
		}
		c.Check(len(missing) == 0, "R7", "Commit replays before it reports success", commit.Pos(), fmt.Sprintf("every possibly-nil return of the stage chain follows the loops over all %d journals", len(want)),
			"Commit can return nil without having ranged over "+strings.Join(missing, ", ")+" — buffered operations are acknowledged but never reach the remote")
		return
	}
	facts := factsFor(commit)
	ei := errResultIndex(commit.Signature)
	var rngs []*ssa.Range
	eachInstr(commit, func(_ *ssa.BasicBlock, _ int, in ssa.Instruction) {
		if r, ok := in.(*ssa.Range); ok {
			if n, _ := fieldLoadName(r.X); n != "" {
				for _, jn := range roles.journals {
					if jn == n && len(roles.recorder[jn]) > 0 {
						rngs = append(rngs, r)
					}
				}
			}
		}
	})
	if ei < 0 || len(rngs) == 0 {
		c.Bad("R7", "Commit replays before it reports success", commit.Pos(), "no journal loop found in Commit; cannot certify")
		return
	}
	mayBeNil := func(r *ssa.Return) bool {
		ev := r.Results[ei]
		return !facts.HoldsOnAllEdges(r.Block(), func(fs factSet) bool { return knownNilIn(fs, ev, false) })
	}
	var bypass []*ssa.Return
	for _, r := range returnsOf(commit) {
		if !mayBeNil(r) {
			continue
		}
		for _, rg := range rngs {
			if !dominates(rg, r) {
				bypass = append(bypass, r)
				break
			}
		}
	}
	// a skip is fine where every journal is known to be empty (directly, or through a private
	// predicate whose true result implies it): replaying nothing is what the loops would do
	var jnames []string
	for _, rg := range rngs {
		if n, _ := fieldLoadName(rg.X); n != "" {
			jnames = append(jnames, n)
		}
	}
	allEmptyOn := func(fs factSet) bool {
		got := journalsEmptyIn(fs)
		for k := range fs {
			if call, ok := k.v.(*ssa.Call); ok && k.pol {
				if h := call.Call.StaticCallee(); h != nil && h.Pkg == commit.Pkg && h.Blocks != nil {
					for j := range trueImpliesEmpty(h) {
						got[j] = true
					}
				}
			}
		}
		for _, j := range jnames {
			if !got[j] {
				return false
			}
		}
		return true
	}
	var still []*ssa.Return
	for _, r := range bypass {
		if !facts.HoldsOnAllEdges(r.Block(), allEmptyOn) {
			still = append(still, r)
		}
	}
	if len(still) < len(bypass) && len(still) == 0 {
		c.OK("R7", "Commit replays before it reports success", commit.Pos(), "the only returns that skip the loops are taken where every journal is known to be empty")
		return
	}
	bypass = still
	if len(bypass) == 0 {
		c.OK("R7", "Commit replays before it reports success", commit.Pos(), fmt.Sprintf("every possibly-nil return follows the loops over all %d journals", len(rngs)))
		return
	}
	// a skip flag: which field is cleared inside Commit?
	isAtomic := func(ci *CallInfo, names ...string) bool {
		if ci == nil || ci.Static == nil || ci.Static.Pkg == nil || ci.Static.Pkg.Pkg.Path() != "sync/atomic" {
			return false
		}
		for _, n := range names {
			if strings.HasPrefix(ci.Static.Name(), n) {
				return true
			}
		}
		return false
	}
	zeroConst := func(v ssa.Value) (isConst, isZero bool) {
		if b, ok := constBool(v); ok {
			return true, !b
		}
		if k, ok := constInt(v); ok {
			return true, k == 0
		}
		return false, false
	}
	var clear ssa.Instruction
	flag := ""
	setsFlag := func(in ssa.Instruction, wantZero bool) string {
		if st, ok := in.(*ssa.Store); ok {
			if fa, ok := st.Addr.(*ssa.FieldAddr); ok {
				if isC, z := zeroConst(st.Val); isC && z == wantZero {
					return fieldName(fa)
				}
			}
			return ""
		}
		ci := callInfo(in, nil, 0)
		if !isAtomic(ci, "Store", "Swap", "CompareAndSwap") {
			return ""
		}
		fa, ok := ci.Arg(0).(*ssa.FieldAddr)
		if !ok {
			return ""
		}
		nv := ci.Arg(1)
		if strings.HasPrefix(ci.Static.Name(), "CompareAndSwap") {
			nv = ci.Arg(2)
		}
		if isC, z := zeroConst(nv); isC && z == wantZero {
			return fieldName(fa)
		}
		return ""
	}
	eachInstr(commit, func(_ *ssa.BasicBlock, _ int, in ssa.Instruction) {
		if f := setsFlag(in, true); f != "" && clear == nil {
			clear, flag = in, f
		}
	})
	con := "Commit replays before it reports success"
	if clear == nil {
		c.Bad("R7", con, bypass[0].Pos(), "Commit can return nil without having ranged over the journals — buffered operations are acknowledged but never reach the remote")
		return
	}
	exits := MustPass(commit, clear, func(in ssa.Instruction) bool { return setsFlag(in, false) == flag })
	bad := ""
	for _, e := range exits {
		r, ok := e.Instr.(*ssa.Return)
		if !ok || isNilConst(resolve(r.Results[ei])) {
			continue
		}
		if facts.KnownNil(r.Block(), r.Results[ei], true) {
			continue
		}
		bad = c.pos(r.Pos())
	}
	c.Check(bad == "", "R7", con, bypass[0].Pos(), "the skip flag "+flag+" is armed again on every failing exit",
		"Commit skips the replay when "+flag+" is clear, clears it before replaying, and the failing return at "+bad+" does not arm it again — after a remote failure the next Commit returns nil at once and the remote stays half-updated")
}

// journalsEmptyIn: names of map fields m for which the facts contain len(m) == 0.
func journalsEmptyIn(fs factSet) map[string]bool {
	out := map[string]bool{}
	for k := range fs {
		if j := lenZeroField(k.v, k.pol); j != "" {
			out[j] = true
		}
	}
	return out
}

// lenZeroField: condition c with polarity pol says len(<load of field F>) == 0; returns F.
func lenZeroField(c ssa.Value, pol bool) string {
	bo, ok := c.(*ssa.BinOp)
	if !ok {
		return ""
	}
	var other ssa.Value
	if kv, ok := constInt(bo.Y); ok && kv == 0 {
		other = bo.X
	} else if kv, ok := constInt(bo.X); ok && kv == 0 {
		other = bo.Y
	} else {
		return ""
	}
	zero := (bo.Op == token.EQL && pol) || (bo.Op == token.NEQ && !pol) || (bo.Op == token.GTR && !pol) || (bo.Op == token.LEQ && pol)
	if !zero {
		return ""
	}
	lc, ok := other.(*ssa.Call)
	if !ok {
		return ""
	}
	if b, ok := lc.Call.Value.(*ssa.Builtin); !ok || b.Name() != "len" {
		return ""
	}
	n, _ := fieldLoadName(lc.Call.Args[0])
	return n
}

// trueImpliesEmpty: for a bool function h, the map fields that are known empty
// whenever h returns true.
func trueImpliesEmpty(h *ssa.Function) map[string]bool {
	if h.Signature.Results().Len() != 1 {
		return nil
	}
	facts := factsFor(h)
	var impl func(v ssa.Value, fs factSet, seen map[ssa.Value]bool) map[string]bool
	all := map[string]bool{"*": true}
	inter := func(a, b map[string]bool) map[string]bool {
		if a["*"] {
			return b
		}
		if b["*"] {
			return a
		}
		out := map[string]bool{}
		for k := range a {
			if b[k] {
				out[k] = true
			}
		}
		return out
	}
	impl = func(v ssa.Value, fs factSet, seen map[ssa.Value]bool) map[string]bool {
		v = resolve(v)
		if b, ok := constBool(v); ok && !b {
			return all
		}
		got := journalsEmptyIn(fs)
		if j := lenZeroField(v, true); j != "" {
			got[j] = true
			return got
		}
		if p, ok := v.(*ssa.Phi); ok && !seen[v] {
			seen[v] = true
			res := all
			for i, e := range p.Edges {
				res = inter(res, impl(e, factsOnEdge(facts, p.Block().Preds[i], p.Block()), seen))
			}
			return res
		}
		return got
	}
	res := all
	for _, r := range returnsOf(h) {
		res = inter(res, impl(r.Results[0], facts.At(r.Block()), map[ssa.Value]bool{}))
	}
	if res["*"] {
		return nil
	}
	return res
}

// commitGroup: Commit plus the private functions of its package that are
// reachable from it and called from nowhere else (stages Commit was split into).
func commitGroup(p *Prog, commit *ssa.Function) []*ssa.Function {
	return privateGroup(p, commit, true)
}

// privateGroup: root plus the unexported functions of its package reachable from
// it that are called from nowhere else; with syncOnly, only plain calls count
// (a helper started with go/defer does not belong to the caller's control flow).
func privateGroup(p *Prog, commit *ssa.Function, syncOnly bool) []*ssa.Function {
	if commit == nil || commit.Pkg == nil {
		return nil
	}
	all := p.PkgFuncs(strings.TrimPrefix(commit.Pkg.Pkg.Path(), modPath+"/"))
	callers := map[*ssa.Function]map[*ssa.Function]bool{}
	for _, f := range all {
		for _, g := range withClosures(f) {
			for _, ci := range Calls(g) {
				if ci.Static != nil && ci.Static.Pkg == commit.Pkg {
					if syncOnly && ci.Kind != "call" {
						// an asynchronous use: make the callee un-ownable
						if callers[ci.Static] == nil {
							callers[ci.Static] = map[*ssa.Function]bool{}
						}
						callers[ci.Static][nil] = true
						continue
					}
					if callers[ci.Static] == nil {
						callers[ci.Static] = map[*ssa.Function]bool{}
					}
					top := g
					for top.Parent() != nil {
						top = top.Parent()
					}
					callers[ci.Static][top] = true
				}
			}
		}
	}
	in := map[*ssa.Function]bool{commit: true}
	out := []*ssa.Function{commit}
	for changed := true; changed; {
		changed = false
		for _, f := range all {
			if in[f] || f.Parent() != nil || (f.Object() != nil && f.Object().Exported()) || len(callers[f]) == 0 {
				continue
			}
			only := true
			for cl := range callers[f] {
				if !in[cl] {
					only = false
				}
			}
			if only {
				in[f] = true
				out = append(out, f)
				changed = true
			}
		}
	}
	return out
}

// handsOnHelper: every return of f is `return h(...)` for one and the same
// unexported function h of f's package; returns h.
func handsOnHelper(f *ssa.Function) *ssa.Function {
	var h *ssa.Function
	for _, r := range returnsOf(f) {
		if len(r.Results) == 0 {
			return nil
		}
		v := resolve(r.Results[len(r.Results)-1])
		var call *ssa.Call
		switch x := v.(type) {
		case *ssa.Call:
			call = x
		case *ssa.Extract:
			call, _ = x.Tuple.(*ssa.Call)
		}
		if call == nil {
			return nil
		}
		g := call.Call.StaticCallee()
		if g == nil || g.Pkg != f.Pkg || g.Blocks == nil || (g.Object() != nil && g.Object().Exported()) || (h != nil && h != g) {
			return nil
		}
		h = g
	}
	return h
}

// pureDep: v is computed from w by operators only (no call in between: the outcome of a
// remote operation that merely received w is not "depending on w").
func pureDep(v, w ssa.Value, d int) bool {
	if v == nil || d > 8 {
		return false
	}
	if v == w {
		return true
	}
	switch x := v.(type) {
	case *ssa.UnOp:
		return pureDep(x.X, w, d+1)
	case *ssa.BinOp:
		return pureDep(x.X, w, d+1) || pureDep(x.Y, w, d+1)
	case *ssa.Convert:
		return pureDep(x.X, w, d+1)
	case *ssa.ChangeType:
		return pureDep(x.X, w, d+1)
	case *ssa.Phi:
		for _, e := range x.Edges {
			if e != v && pureDep(e, w, d+1) {
				return true
			}
		}
	}
	return false
}
