package main

// eng_path.go — E-PATH: path rules on the SSA CFG as the product of the CFG
// with a small finite automaton.  `defer` is modelled: a Defer instruction is
// remembered (bit mask) and fed to the automaton when RunDefers executes, in
// reverse registration order.

import (
	"sort"

	"golang.org/x/tools/go/ssa"
)

// PathStep: given the automaton state and an instruction that is executing
// now, return the next state.  `deferred` is true when `in` is a *ssa.Defer
// whose call runs now (at RunDefers).  A *ssa.Defer seen at registration time
// is not passed to Step.  Returning a negative state kills the path (used to
// prune paths a rule is not interested in).
type PathStep func(state int, in ssa.Instruction, deferred bool) int

type pathKey struct {
	b     *ssa.BasicBlock
	state int
	mask  uint32
}

// PathExit describes one function exit reached in some automaton state.
type PathExit struct {
	Instr ssa.Instruction // *ssa.Return or *ssa.Panic
	State int
	Trail []ssa.Instruction // one witness path (block leaders)
}

// RunPaths explores every CFG path from `start` (nil: function entry; otherwise
// the instruction *after* start) and returns the states in which exits are
// reached.  Panics are reported as exits only when withPanics is set.
// Branch pruning: `feasible`, if non-nil, may veto an edge (pred -> succ) in a
// given state.
func RunPaths(f *ssa.Function, start ssa.Instruction, init int, step PathStep, withPanics bool,
	feasible func(state int, pred, succ *ssa.BasicBlock) bool) []PathExit {

	if len(f.Blocks) == 0 {
		return nil
	}
	// number the defers
	deferIdx := map[ssa.Instruction]uint{}
	var defers []ssa.Instruction
	for _, b := range f.Blocks {
		for _, in := range b.Instrs {
			if _, ok := in.(*ssa.Defer); ok {
				if len(defers) < 31 {
					deferIdx[in] = uint(len(defers))
					defers = append(defers, in)
				}
			}
		}
	}
	type item struct {
		k     pathKey
		from  int // index to start in block
		trail []ssa.Instruction
	}
	seen := map[pathKey]bool{}
	var work []item
	if start == nil {
		work = append(work, item{k: pathKey{f.Blocks[0], init, 0}, from: 0})
	} else {
		// defers registered before start that dominate it are assumed registered
		var mask uint32
		for in, i := range deferIdx {
			if dominates(in, start) {
				mask |= 1 << i
			}
		}
		work = append(work, item{k: pathKey{start.Block(), init, mask}, from: instrIndex(start) + 1})
	}
	exitSeen := map[[2]interface{}]bool{}
	var exits []PathExit
	for len(work) > 0 {
		it := work[len(work)-1]
		work = work[:len(work)-1]
		if it.from == 0 {
			if seen[it.k] {
				continue
			}
			seen[it.k] = true
		}
		b, st, mask := it.k.b, it.k.state, it.k.mask
		dead := false
		trail := it.trail
		if len(b.Instrs) > 0 {
			trail = append(append([]ssa.Instruction{}, trail...), b.Instrs[0])
			if len(trail) > 40 {
				trail = trail[len(trail)-40:]
			}
		}
		for i := it.from; i < len(b.Instrs) && !dead; i++ {
			in := b.Instrs[i]
			switch x := in.(type) {
			case *ssa.Defer:
				if di, ok := deferIdx[in]; ok {
					mask |= 1 << di
				}
			case *ssa.RunDefers:
				for j := len(defers) - 1; j >= 0; j-- {
					if mask&(1<<uint(j)) != 0 {
						st = step(st, defers[j], true)
						if st < 0 {
							dead = true
							break
						}
					}
				}
			case *ssa.Return:
				k := [2]interface{}{in, st}
				if !exitSeen[k] {
					exitSeen[k] = true
					exits = append(exits, PathExit{Instr: in, State: st, Trail: trail})
				}
			case *ssa.Panic:
				if withPanics {
					// run defers on panic too
					pst := st
					for j := len(defers) - 1; j >= 0 && pst >= 0; j-- {
						if mask&(1<<uint(j)) != 0 {
							pst = step(pst, defers[j], true)
						}
					}
					if pst >= 0 {
						k := [2]interface{}{in, pst}
						if !exitSeen[k] {
							exitSeen[k] = true
							exits = append(exits, PathExit{Instr: in, State: pst, Trail: trail})
						}
					}
				}
				_ = x
			default:
				st = step(st, in, false)
				if st < 0 {
					dead = true
				}
			}
		}
		if dead {
			continue
		}
		for _, s := range b.Succs {
			if feasible != nil && !feasible(st, b, s) {
				continue
			}
			work = append(work, item{k: pathKey{s, st, mask}, from: 0, trail: trail})
		}
	}
	sort.Slice(exits, func(i, j int) bool {
		if exits[i].Instr.Pos() != exits[j].Instr.Pos() {
			return exits[i].Instr.Pos() < exits[j].Instr.Pos()
		}
		return exits[i].State < exits[j].State
	})
	return exits
}

// MustPass: every path from start (nil = entry) to any Return passes an
// instruction for which isEvent holds (also as a deferred call).  Returns the
// exits that can be reached without the event.
func MustPass(f *ssa.Function, start ssa.Instruction, isEvent func(in ssa.Instruction) bool) []PathExit {
	return MustPassF(f, start, isEvent, nil)
}

// MustPassF is MustPass with an edge-feasibility oracle.
func MustPassF(f *ssa.Function, start ssa.Instruction, isEvent func(in ssa.Instruction) bool,
	feasible func(state int, pred, succ *ssa.BasicBlock) bool) []PathExit {
	exits := RunPaths(f, start, 0, func(st int, in ssa.Instruction, deferred bool) int {
		if st == 0 && isEvent(in) {
			return 1
		}
		return st
	}, false, feasible)
	var bad []PathExit
	for _, e := range exits {
		if e.State == 0 {
			bad = append(bad, e)
		}
	}
	return bad
}

// errEdgeFeasible builds a `feasible` function from branch facts: an edge is
// infeasible when it requires cond==pol but the facts at pred already imply the
// opposite.  (Used to prune the "err != nil" arm after the same value was
// tested.)
func factFeasible(fa *Facts) func(state int, pred, succ *ssa.BasicBlock) bool {
	return func(state int, pred, succ *ssa.BasicBlock) bool {
		if len(pred.Instrs) == 0 {
			return true
		}
		iff, ok := pred.Instrs[len(pred.Instrs)-1].(*ssa.If)
		if !ok || len(pred.Succs) != 2 {
			return true
		}
		want := succ == pred.Succs[0]
		if pred.Succs[0] == pred.Succs[1] {
			return true
		}
		if fa.At(pred)[fact{iff.Cond, !want}] {
			return false
		}
		return true
	}
}

// ipEvent lifts an event predicate over instructions to calls of same-module
// helpers that pass the event on every path (bounded depth).
func ipEvent(pred func(ssa.Instruction) bool, depth int) func(ssa.Instruction) bool {
	var self func(in ssa.Instruction) bool
	memo := map[*ssa.Function]int{} // 1 = always passes, 2 = not, 3 = in progress
	self = func(in ssa.Instruction) bool {
		if pred(in) {
			return true
		}
		if depth <= 0 {
			return false
		}
		ci := callInfo(in, nil, 0)
		if ci == nil || ci.Static == nil || !inModule(ci.Static) || ci.Static.Blocks == nil || ci.Kind == "go" {
			return false
		}
		g := ci.Static
		switch memo[g] {
		case 1:
			return true
		case 2, 3:
			return false
		}
		memo[g] = 3
		inner := ipEvent(pred, depth-1)
		if len(MustPass(g, nil, inner)) == 0 && len(returnsOf(g)) > 0 {
			memo[g] = 1
			return true
		}
		memo[g] = 2
		return false
	}
	return self
}

// ipEventOK: like ipEvent, but a callee also counts as "passes the event" when
// the only exits that miss it return a known non-nil error (the event happens on
// every successful path of the helper).
func ipEventOK(pred func(ssa.Instruction) bool, depth int) func(ssa.Instruction) bool {
	var self func(in ssa.Instruction) bool
	memo := map[*ssa.Function]int{}
	self = func(in ssa.Instruction) bool {
		if pred(in) {
			return true
		}
		if depth <= 0 {
			return false
		}
		ci := callInfo(in, nil, 0)
		if ci == nil || ci.Static == nil || !inModule(ci.Static) || ci.Static.Blocks == nil || ci.Kind != "call" {
			return false
		}
		g := ci.Static
		switch memo[g] {
		case 1:
			return true
		case 2, 3:
			return false
		}
		memo[g] = 3
		inner := ipEventOK(pred, depth-1)
		ei := errResultIndex(g.Signature)
		facts := factsFor(g)
		ok := len(returnsOf(g)) > 0
		passed := false
		for _, e := range MustPass(g, nil, inner) {
			r, isR := e.Instr.(*ssa.Return)
			if !isR || ei < 0 || !facts.HoldsOnAllEdges(r.Block(), func(fs factSet) bool { return knownNilIn(fs, r.Results[ei], false) }) {
				ok = false
			}
		}
		// the event must actually occur somewhere in g
		eachInstr(g, func(_ *ssa.BasicBlock, _ int, in2 ssa.Instruction) {
			if inner(in2) {
				passed = true
			}
		})
		if ok && passed {
			memo[g] = 1
			return true
		}
		memo[g] = 2
		return false
	}
	return self
}
