package main

import (
	"fmt"
	"go/token"
	"go/types"
	"strings"

	"golang.org/x/tools/go/ssa"
)

const encPkg = "filesystem/filespace/encryptfs"
const cipherPkg = "filesystem/filespace/encryptfs/cipherfs"

func init() {
	register(&PropDef{ID: "C05", Title: "Encrypted filespace: round-trip, secrecy, integrity, no crash on bad data", Rules: rulesC05,
		Explanation: "Decided (structural necessary conditions, all cipherfs.Cipher implementers discovered by type, and encryptfs.EncryptFS): R1 every slice/index of stored (attacker-controlled) bytes on the decrypt path with a non-zero bound is dominated by a length comparison of that very slice implying the bound, whose failing edge returns an error (no panic on truncated data); R2 the nonce of every AEAD.Seal is a buffer allocated in that call and filled from crypto/rand with the error checked on the path to Seal; R3 the key material stored in the filespace is a fresh buffer into which Secret, Salt and (on the HostOnly edge) the host id flow, a child view carries the same key and cipher, and the host id accessor returns the machine-derived value; R4 plaintext handed to WriteFile / the stream writer reaches the base filespace only as the result of Cipher.Encrypt / AEAD.Seal / EncryptWriter; R5 ReadFile/Reader return only what Cipher.Decrypt/DecryptReader produced, and Decrypt returns success only with AEAD.Open's own result; R6 the 4-byte cipher tag: written length = read length, same byte order, unknown tag -> error before dispatch; R7 the 11 name-space operations of EncryptFS are pure delegations; R8 stream order: seal -> write -> close with every error propagated, read-all -> close -> open, and a stream handed to a decrypting reader is closed on every failing path (ownership); R9 stream writers keep a copy of each chunk, never the caller's buffer. " +
			"R6 also: the in-memory cipher key type keeps every byte of the 4-byte tag (no narrowing conversion between header and table lookup). " +
			"Added in round 5: R3 also covers every other store into the key field: the parent's key itself (shared, read-only) or a fresh buffer — never an append/slice onto another filespace's key material, which rewrites that key in place. " +
			"Added in round 6: R9 also requires that every method of a stream writer other than Close that sets the buffer field extends what is already there (a ReadFrom fast path that replaces the buffer drops the bytes written before). " +
			"Added in round 7: R5 every non-nil reader a cipher's DecryptReader returns is the result of the selected cipher's DecryptReader / newReader (no home-made empty stream for an emptied file). " +
			"NOT decided: round-trip equality for all plaintexts, ciphertext indistinguishability, AEAD correctness (trusted: crypto/cipher), behaviour of user-supplied ciphers.",
	})
}

// lenGuard: facts at block b imply len(v) >= bound.
func lenGuard(fa *Facts, b *ssa.BasicBlock, v ssa.Value, bound ssa.Value) bool {
	bk, bconst := constInt(bound)
	for k := range fa.At(b) {
		cmp, ok := k.v.(*ssa.BinOp)
		if !ok {
			continue
		}
		// normalise to: len(V) OP B
		var lenSide, other ssa.Value
		op := cmp.Op
		if isLenOf(cmp.X, v) {
			lenSide, other = cmp.X, cmp.Y
		} else if isLenOf(cmp.Y, v) {
			lenSide, other = cmp.Y, cmp.X
			switch op {
			case token.LSS:
				op = token.GTR
			case token.GTR:
				op = token.LSS
			case token.LEQ:
				op = token.GEQ
			case token.GEQ:
				op = token.LEQ
			}
		} else {
			continue
		}
		_ = lenSide
		// does the fact imply len >= other (+1)?
		implies := int64(-1 << 62) // lower bound offset relative to `other`: len >= other + off
		switch {
		case op == token.LSS && !k.pol: // !(len < o) => len >= o
			implies = 0
		case op == token.GEQ && k.pol:
			implies = 0
		case op == token.GTR && k.pol: // len > o => len >= o+1
			implies = 1
		case op == token.LEQ && !k.pol:
			implies = 1
		case op == token.EQL && k.pol:
			implies = 0
		default:
			continue
		}
		if ok, oc := constInt(other); oc && bconst {
			if ok+implies >= bk {
				return true
			}
			continue
		}
		if sameValue(other, bound) && implies >= 0 {
			return true
		}
	}
	return false
}

func isLenOf(x, v ssa.Value) bool {
	c, ok := x.(*ssa.Call)
	if !ok {
		return false
	}
	b, ok := c.Call.Value.(*ssa.Builtin)
	if !ok || b.Name() != "len" || len(c.Call.Args) != 1 {
		return false
	}
	return c.Call.Args[0] == v || sameValue(c.Call.Args[0], v)
}

func rulesC05(c *Ctx) {
	ciface := c.P.Iface(cipherPkg, "Cipher")
	fiface := c.P.Iface("filesystem", "Filespace")
	encT := c.P.Named(encPkg, "EncryptFS")
	if ciface == nil || encT == nil || fiface == nil {
		c.Bad("anchor", "cipherfs.Cipher / encryptfs.EncryptFS", 0, "anchor not found; cannot certify")
		return
	}
	ciphers := c.P.Implementers(ciface)
	var cnames []string
	for _, n := range ciphers {
		cnames = append(cnames, implName(n))
	}
	c.Note("Cipher implementers: %s", strings.Join(cnames, ", "))
	if len(ciphers) < 2 {
		c.Bad("anchor", "Cipher implementers", 0, fmt.Sprintf("found %d (2 on the reference tree)", len(ciphers)))
	}

	// ---- R1 no unguarded slicing of stored bytes ------------------------------------
	n1 := 0
	for _, T := range ciphers {
		dec := c.P.MethodsOf(T, ciface)["Decrypt"]
		if dec == nil {
			c.Bad("R1", implName(T)+".Decrypt", 0, "anchor not found")
			continue
		}
		// the ciphertext parameter: last []byte parameter
		var data *ssa.Parameter
		for _, p := range dec.Params {
			if isByteSlice(p.Type()) {
				data = p
			}
		}
		if data == nil {
			c.Bad("R1", implName(T)+".Decrypt", dec.Pos(), "no []byte parameter")
			continue
		}
		k := 0
		// the stored bytes may be handed on to private helpers (splitSealed(gcm, data) ...): analyse each
		// (function, parameter) the ciphertext reaches
		type fp struct {
			fn *ssa.Function
			p  *ssa.Parameter
		}
		work := []fp{{dec, data}}
		seenFP := map[fp]bool{}
		for len(work) > 0 {
			cur := work[0]
			work = work[1:]
			if seenFP[cur] || len(seenFP) > 12 {
				continue
			}
			seenFP[cur] = true
			for _, ci := range Calls(cur.fn) {
				if ci.Static == nil || ci.Static.Pkg != dec.Pkg || ci.Static.Blocks == nil {
					continue
				}
				for ai, a := range ci.Common.Args {
					if ai < len(ci.Static.Params) && isByteSlice(a.Type()) && hasOrigin(Origins(a, FlowOpts{Alias: true}), func(o Origin) bool { return o.Val == ssa.Value(cur.p) }) {
						work = append(work, fp{ci.Static, ci.Static.Params[ai]})
					}
				}
			}
		}
		for cur := range seenFP {
			dec, data := cur.fn, cur.p
			facts := factsFor(dec)
			eachInstr(dec, func(b *ssa.BasicBlock, _ int, in ssa.Instruction) {
				var x ssa.Value
				var bounds []ssa.Value
				switch s := in.(type) {
				case *ssa.Slice:
					x = s.X
					if s.Low != nil {
						bounds = append(bounds, s.Low)
					}
					if s.High != nil {
						bounds = append(bounds, s.High)
					}
				case *ssa.IndexAddr:
					x = s.X
					bounds = append(bounds, s.Index) // needs len > index; handled as >= index+... conservatively len >= index+1
				default:
					return
				}
				if !isByteSlice(x.Type()) {
					return
				}
				if !hasOrigin(Origins(x, FlowOpts{Alias: true}), func(o Origin) bool { return o.Val == ssa.Value(data) }) {
					return
				}
				for _, bd := range bounds {
					if kv, ok := constInt(bd); ok && kv == 0 {
						continue
					}
					k++
					n1++
					con := fmt.Sprintf("%s.Decrypt slice #%d of the stored bytes", implName(T), k)
					okG := lenGuard(facts, b, x, bd)
					if _, isIdx := in.(*ssa.IndexAddr); isIdx && okG {
						// index needs a strict bound
						if kv, ok := constInt(bd); ok {
							okG = lenGuard(facts, b, x, ssa.Value(constIntValue(dec, kv+1)))
						} else {
							okG = false
						}
					}
					c.Check(okG, "R1", con, in.Pos(), "dominated by a length test of the same slice implying the bound",
						"stored bytes are sliced without a dominating length check implying the bound — a truncated or emptied file panics instead of returning an error")
				}
			})
		}
	}
	c.Floor("R1", n1, 4)

	// ---- R2 fresh random nonce ------------------------------------------------------------
	n2 := 0
	for _, f := range c.P.PkgFuncs(cipherPkg + "/aesgcm256cfs") {
		facts := factsFor(f)
		for _, ci := range Calls(f) {
			if ci.Method == nil || ci.Method.Name() != "Seal" || !strings.HasPrefix(qualObj(ci.Method), "crypto/cipher.") {
				continue
			}
			n2++
			nonce := ci.Arg(1)
			con := "nonce of AEAD.Seal in " + fname(f)
			os := Origins(nonce, FlowOpts{Alias: true})
			fresh := allOrigins(os, func(o Origin) bool { return o.Kind == "alloc" && o.Val.(ssa.Instruction).Parent() == f })
			if !fresh {
				// a private helper that allocates, fills from crypto/rand and reports failure
				if hc, isCall := resolve(nonce).(*ssa.Extract); isCall {
					if call, isC := hc.Tuple.(*ssa.Call); isC && hc.Index == 0 {
						if h := call.Call.StaticCallee(); h != nil && h.Pkg == f.Pkg && helperMakesRandomBuffer(h) && callErrKnownNil(facts, call, ci.Block) {
							c.OK("R2", con, ci.Pos(), "nonce produced by "+fname(h)+": fresh buffer filled from crypto/rand, its error checked before Seal")
							continue
						}
					}
				}
			}
			if !fresh {
				c.Bad("R2", con, ci.Pos(), "the nonce buffer is "+originsString(os)+", not allocated by this call — nonces repeat: equal plaintexts give equal stored bytes and GCM loses its guarantees")
				continue
			}
			filled := false
			for _, rc := range Calls(f) {
				if rc.Static == nil || !dominates(rc.Instr, ci.Instr) {
					continue
				}
				q := qualName(rc.Static)
				var buf ssa.Value
				switch q {
				case "io.ReadFull":
					if isRandReader(rc.Arg(0)) {
						buf = rc.Arg(1)
					}
				case "crypto/rand.Read":
					buf = rc.Arg(0)
				}
				if buf == nil || resolve(buf) != resolve(nonce) {
					continue
				}
				if call, ok := rc.Instr.(*ssa.Call); ok && callErrKnownNil(facts, call, ci.Block) {
					filled = true
				}
			}
			c.Check(filled, "R2", con, ci.Pos(), "fresh buffer filled from crypto/rand, error checked on the path to Seal",
				"the nonce is not (provably) filled from crypto/rand with the error checked before Seal")
		}
	}
	c.Floor("R2", n2, 1)

	// ---- R3 key binding --------------------------------------------------------------------
	ruleKeyBinding(c, encT)

	// ---- R4 / R5 EncryptFS content paths -----------------------------------------------------
	em := c.P.MethodsOf(encT, fiface)
	checkArgFromCall := func(rule, con string, f *ssa.Function, sinkMethod string, argIdx int, wantCall string) {
		found := false
		for _, ci := range Calls(f) {
			if ci.Method == nil || ci.Method.Name() != sinkMethod || !strings.HasSuffix(qualObj(ci.Method), "(Filespace)."+sinkMethod) {
				continue
			}
			found = true
			os := Origins(ci.Arg(argIdx), FlowOpts{Alias: true})
			ok := allOrigins(os, func(o Origin) bool { return o.Kind == "call" && strings.Contains(o.Name, wantCall) })
			if ok {
				// on the nil-error edge of that call
				for _, o := range os {
					if call, isC := o.Val.(*ssa.Call); isC && !callErrKnownNil(factsFor(f), call, ci.Block) {
						ok = false
					}
				}
			}
			c.Check(ok, rule, con, ci.Pos(), "only the result of "+wantCall+" (error checked) reaches the base filespace", "the base filespace receives "+originsString(os)+" — plaintext is stored")
		}
		if !found {
			c.Bad(rule, con, f.Pos(), "the method no longer calls "+sinkMethod+" of the base filespace; cannot certify")
		}
	}
	if f := em["WriteFile"]; f != nil {
		checkArgFromCall("R4", "encryptfs.(EncryptFS).WriteFile data", f, "WriteFile", 1, "(Cipher).Encrypt#0")
	}
	returnsCallResult := func(rule, con string, f *ssa.Function, want string) {
		ok := false
		bad := ""
		for _, r := range returnsOf(f) {
			if !isNilConst(resolve(r.Results[len(r.Results)-1])) && len(r.Results) == 2 {
				// error-carrying return: either the call's own pair or (nil, err)
			}
			v := resolve(r.Results[0])
			if isNilConst(v) {
				continue
			}
			os := Origins(v, FlowOpts{Alias: true})
			if allOrigins(os, func(o Origin) bool { return o.Kind == "call" && strings.Contains(o.Name, want) }) {
				ok = true
			} else {
				bad = originsString(os)
			}
		}
		c.Check(ok && bad == "", rule, con, f.Pos(), "every non-nil result is "+want+"'s", "a result originates from "+bad+" instead of "+want)
	}
	if f := em["Writer"]; f != nil {
		returnsCallResult("R4", "encryptfs.(EncryptFS).Writer result", f, "(Cipher).EncryptWriter#0")
	}
	if f := em["ReadFile"]; f != nil {
		returnsCallResult("R5", "encryptfs.(EncryptFS).ReadFile result", f, "(Cipher).Decrypt#0")
	}
	if f := em["Reader"]; f != nil {
		returnsCallResult("R5", "encryptfs.(EncryptFS).Reader result", f, "(Cipher).DecryptReader#0")
	}
	// cipher level
	for _, T := range ciphers {
		ms := c.P.MethodsOf(T, ciface)
		tn := implName(T)
		if f := ms["Decrypt"]; f != nil {
			// success only with AEAD.Open's / inner Decrypt's own result
			ok := true
			why := ""
			n := 0
			for _, r := range returnsOf(f) {
				errv := resolve(r.Results[1])
				if isNilConst(errv) {
					// `if out, err = gcm.Open(...); err != nil { return nil, wrapped }; return out, nil`
					if dx, isDX := resolve(r.Results[0]).(*ssa.Extract); isDX && dx.Index == 0 {
						if oc, isOC := dx.Tuple.(*ssa.Call); isOC {
							oi := callInfo(oc, nil, 0)
							onm := ""
							if oi.Method != nil {
								onm = qualObj(oi.Method)
							}
							if (strings.HasSuffix(onm, "(AEAD).Open") || strings.HasSuffix(onm, "(Cipher).Decrypt")) && factsFor(f).KnownNil(r.Block(), firstOr(resultN(oc, 1)), true) {
								n++
								continue
							}
						}
					}
					ok, why = false, "Decrypt returns success without an authenticated open (constant nil error)"
					continue
				}
				ex, isEx := errv.(*ssa.Extract)
				if !isEx {
					continue // a constructed error
				}
				call, isCall := ex.Tuple.(*ssa.Call)
				if !isCall {
					continue
				}
				ci := callInfo(call, nil, 0)
				nm := ""
				if ci.Method != nil {
					nm = qualObj(ci.Method)
				}
				if strings.HasSuffix(nm, "(AEAD).Open") || strings.HasSuffix(nm, "(Cipher).Decrypt") {
					n++
					d := resolve(r.Results[0])
					if dx, ok2 := d.(*ssa.Extract); !ok2 || dx.Tuple != ssa.Value(call) || dx.Index != 0 {
						ok, why = false, "the data returned with Open's error status is not Open's own result"
					}
				} else if facts := factsFor(f); !facts.KnownNil(r.Block(), errv, false) {
					ok, why = false, "a return passes on the status of "+nm+" with data that was not opened"
				}
			}
			if n == 0 {
				ok, why = false, "no return hands out AEAD.Open's (or the selected cipher's Decrypt) result"
			}
			c.Check(ok, "R5", tn+".Decrypt returns only opened data", f.Pos(), "success only as the result pair of AEAD.Open / the selected cipher", why+" — modified, truncated or emptied stored bytes are answered with data")
		}
		if f := ms["Encrypt"]; f != nil {
			ok := false
			bad := ""
			for _, r := range returnsOf(f) {
				v := resolve(r.Results[0])
				if isNilConst(v) {
					continue
				}
				os := Origins(v, FlowOpts{})
				if allOrigins(os, func(o Origin) bool {
					return o.Kind == "alloc" || o.Kind == "const" || o.Kind == "call" && (strings.Contains(o.Name, "(AEAD).Seal#") || strings.Contains(o.Name, "(Cipher).Encrypt#") || strings.Contains(o.Name, ".ToBinary#"))
				}) && hasOrigin(os, func(o Origin) bool {
					return o.Kind == "call" && (strings.Contains(o.Name, "(AEAD).Seal#") || strings.Contains(o.Name, "(Cipher).Encrypt#"))
				}) {
					ok = true
				} else {
					bad = originsString(os)
				}
			}
			c.Check(ok && bad == "", "R4", tn+".Encrypt returns only sealed data", f.Pos(), "result = AEAD.Seal / inner Encrypt (+ tag)", "Encrypt returns "+bad+" — the plaintext parameter reaches the stored bytes unsealed")
		}
	}
	c.Floor("R8", ruleEncryptedWriterClose(c, "R8"), 1)

	// ---- R6 tag table ---------------------------------------------------------------------------
	ruleCipherTag(c)

	// ---- R7 pure delegation of name-space operations -----------------------------------------------
	n7 := 0
	for _, mn := range []string{"Copy", "CopyDirectory", "CopyFile", "ReadDir", "IsExist", "IsFile", "IsDir", "MkdirAll", "Remove", "RemoveAll", "Lstat"} {
		f := em[mn]
		if f == nil {
			c.Bad("R7", "encryptfs.(EncryptFS)."+mn, 0, "anchor not found")
			continue
		}
		n7++
		why, _ := checkDelegation(f, DelegationOpts{Iface: fiface})
		c.Check(why == "", "R7", "encryptfs.(EncryptFS)."+mn, f.Pos(), "one call of the same-named base operation, arguments in order, results returned", why+" — a name-space operation behaves differently than on the underlying filespace")
	}
	c.Floor("R7", n7, 11)

	// ---- R8 reader order and ownership ------------------------------------------------------------------
	ruleDecryptReaders(c, ciphers, ciface)

	// ---- R9 stream writers copy their chunks ---------------------------------------------------------------
	c.Floor("R9", ruleWritersCopyChunks(c, "R9", cipherPkg), 1)
}

// ruleWritersCopyChunks: every Write(p []byte) method of the module under the
// given package prefix keeps no reference to p.
func ruleWritersCopyChunks(c *Ctx, rule, prefix string) int {
	n9 := 0
	for _, f := range c.P.AllModuleFuncs() {
		if f.Pkg == nil || !strings.HasPrefix(f.Pkg.Pkg.Path(), modPath+"/"+prefix) {
			continue
		}
		if f.Name() != "Write" || f.Signature.Recv() == nil || len(f.Params) != 2 || !isByteSlice(f.Params[1].Type()) {
			continue
		}
		n9++
		bad := ""
		eachInstr(f, func(_ *ssa.BasicBlock, _ int, in ssa.Instruction) {
			st, ok := in.(*ssa.Store)
			if !ok {
				return
			}
			if _, isFA := st.Addr.(*ssa.FieldAddr); !isFA {
				if _, isIA := st.Addr.(*ssa.IndexAddr); !isIA {
					return
				}
			}
			if hasOrigin(Origins(st.Val, FlowOpts{Alias: true}), func(o Origin) bool { return o.Val == ssa.Value(f.Params[1]) }) {
				bad = "the chunk passed to Write is kept by reference"
			}
		})
		c.Check(bad == "", rule, "stream writer "+fname(f), f.Pos(), "chunks are copied (appended) into the writer's buffer", bad+" — a caller reusing its buffer (io.Copy does) corrupts the stored data")
		// the buffer only grows while the stream is open: every other method of the writer that sets the
		// buffer field appends to what is already there (a ReadFrom fast path that replaces it drops the
		// bytes written before)
		var bufField string
		eachInstr(f, func(_ *ssa.BasicBlock, _ int, in ssa.Instruction) {
			if st, ok := in.(*ssa.Store); ok {
				if fa, ok := st.Addr.(*ssa.FieldAddr); ok && isByteSlice(derefType(fa.Type())) && fa.X == ssa.Value(f.Params[0]) {
					bufField = fieldName(fa)
				}
			}
		})
		if bufField == "" {
			continue
		}
		for _, g := range c.P.AllModuleFuncs() {
			if g.Pkg != f.Pkg || g == f || g.Signature.Recv() == nil || g.Name() == "Close" {
				continue
			}
			g := g
			eachInstr(g, func(_ *ssa.BasicBlock, _ int, in ssa.Instruction) {
				st, ok := in.(*ssa.Store)
				if !ok {
					return
				}
				fa, ok := st.Addr.(*ssa.FieldAddr)
				if !ok || fieldName(fa) != bufField || freshBase(fa.X) {
					return
				}
				n9++
				grows := hasOrigin(Origins(st.Val, FlowOpts{Alias: true}), func(o Origin) bool { return o.Kind == "field" && o.Name == bufField })
				c.Check(grows, rule, "stream buffer set in "+fname(g), st.Pos(), "appended to what the stream already holds",
					"the stream's buffer is replaced, not extended — bytes written before this call are dropped and the sealed file holds only the rest (it still authenticates)")
			})
		}
	}
	return n9
}

func isByteSlice(t types.Type) bool {
	sl, ok := t.Underlying().(*types.Slice)
	if !ok {
		return false
	}
	b, ok := sl.Elem().Underlying().(*types.Basic)
	return ok && b.Kind() == types.Byte
}

func isRandReader(v ssa.Value) bool {
	for _, o := range Origins(v, FlowOpts{}) {
		if o.Kind == "global" && o.Name == "Reader" {
			if g, ok := o.Val.(*ssa.UnOp); ok {
				if gg, ok := g.X.(*ssa.Global); ok && gg.Pkg != nil && gg.Pkg.Pkg.Path() == "crypto/rand" {
					return true
				}
			}
		}
	}
	return false
}

// constIntValue fabricates an int constant for guard queries.
func constIntValue(f *ssa.Function, k int64) *ssa.Const {
	return ssa.NewConst(constantInt(k), types.Typ[types.Int])
}

func ruleKeyBinding(c *Ctx, encT *types.Named) {
	nf := c.P.Func(encPkg, "", "NewEncryptFS")
	if nf == nil {
		c.Bad("R3", "encryptfs.NewEncryptFS", 0, "anchor not found")
		return
	}
	_ = factsFor
	// the key field is found by its role: the []byte field of EncryptFS handed to the cipher as key
	keyField := ""
	for _, f := range c.P.PkgFuncs(encPkg) {
		for _, ci := range Calls(f) {
			if ci.Method == nil || !strings.HasSuffix(qualObj(ci.Method), "cipherfs.(Cipher)."+ci.Method.Name()) {
				continue
			}
			if n, _ := fieldLoadName(ci.Arg(0)); n != "" {
				keyField = "encryptfs.EncryptFS." + n
			}
		}
	}
	if keyField == "" {
		c.Bad("R3", "key field of EncryptFS", nf.Pos(), "no field of EncryptFS is handed to the cipher as key; cannot certify")
		return
	}
	var hashStore *ssa.Store
	eachInstr(nf, func(_ *ssa.BasicBlock, _ int, in ssa.Instruction) {
		if st, ok := in.(*ssa.Store); ok {
			if fa, ok := st.Addr.(*ssa.FieldAddr); ok && fieldName(fa) == keyField {
				hashStore = st
			}
		}
	})
	if hashStore == nil {
		c.Bad("R3", "key material in NewEncryptFS", nf.Pos(), "no store to the key field ("+keyField+"); cannot certify")
		return
	}
	stopAtHostID := func(v ssa.Value) (Origin, bool) {
		if call, ok := v.(*ssa.Call); ok {
			if f := call.Call.StaticCallee(); f != nil && strings.HasSuffix(qualName(f), "/idutil.HostID") {
				return Origin{Kind: "call", Name: qualName(f) + "#0", Val: v}, true
			}
		}
		return Origin{}, false
	}
	os := Origins(hashStore.Val, FlowOpts{Interproc: 2, Stop: stopAtHostID})
	has := func(sub string) bool {
		return hasOrigin(os, func(o Origin) bool { return strings.Contains(o.String(), sub) })
	}
	var missing []string
	for _, w := range []string{"encryptfs.Settings.Secret", "encryptfs.Settings.Salt", "idutil.HostID#0"} {
		if !has(w) {
			missing = append(missing, w)
		}
	}
	c.Check(len(missing) == 0, "R3", "key material uses every setting", hashStore.Pos(), "Secret, Salt and the host id all flow into the key material",
		"the key material does not depend on "+strings.Join(missing, ", ")+" — a filespace with a different setting decrypts the data")
	// host id only on the HostOnly edge
	for _, hf := range append([]*ssa.Function{nf}, reachableSamePkg(nf, 2)...) {
		facts := factsFor(hf)
		for _, ci := range Calls(hf) {
			if ci.Static != nil && strings.HasSuffix(qualName(ci.Static), "/idutil.HostID") {
				v, known := knownFieldBool(facts, ci.Block, "HostOnly")
				c.Check(known && v, "R3", "host id bound only when HostOnly is set", ci.Pos(), "on the HostOnly edge", "the host id is mixed in regardless of HostOnly")
			}
		}
	}
	// fresh buffer (no alias of the caller's slices)
	aos := Origins(hashStore.Val, FlowOpts{Alias: true, Interproc: 2, Stop: stopAtHostID})
	fresh := allOrigins(aos, func(o Origin) bool { return o.Kind == "alloc" || o.Kind == "nil" || o.Kind == "zero" })
	c.Check(fresh, "R3", "key material is a private buffer", hashStore.Pos(), "built by appending to a nil/fresh slice",
		"the key material shares its backing store with "+originsString(aos)+" — appending the salt writes into the caller's secret slice, and two filespaces built from one secret corrupt each other's key")
	// every other place that sets a key field: the very key of another filespace (shared, never written
	// again) or a fresh buffer - never an append onto another filespace's key material, which rewrites
	// that filespace's key in place when the capacity allows
	for _, f := range c.P.PkgFuncs(encPkg) {
		eachInstr(f, func(_ *ssa.BasicBlock, _ int, in ssa.Instruction) {
			st, ok := in.(*ssa.Store)
			if !ok || st == hashStore {
				return
			}
			fa, ok := st.Addr.(*ssa.FieldAddr)
			if !ok || fieldName(fa) != keyField {
				return
			}
			v := resolve(st.Val)
			if n, _ := fieldLoadName(v); n != "" && "encryptfs.EncryptFS."+n == keyField {
				c.OK("R3", "key field set in "+fname(f), st.Pos(), "the parent's key itself (shared, read-only)")
				return
			}
			os2 := Origins(v, FlowOpts{Alias: true, Interproc: 2, Stop: stopAtHostID})
			fresh2 := allOrigins(os2, func(o Origin) bool { return o.Kind == "alloc" || o.Kind == "nil" || o.Kind == "zero" })
			c.Check(fresh2, "R3", "key field set in "+fname(f), st.Pos(), "a fresh buffer, or the parent's key unchanged",
				"the new key shares its backing store with "+originsString(os2)+" and is written to (append/slice of an existing key) — the other filespace's key material is overwritten in place: it can no longer read its own files")
		})
	}
	// child view
	cf := c.P.Func(encPkg, "EncryptFS", "Filespace")
	if cf == nil {
		c.Bad("R3", "child view key", 0, "anchor not found")
	} else {
		okH, okC := false, false
		for _, g := range append([]*ssa.Function{cf}, reachableSamePkg(cf, 2)...) {
			eachInstr(g, func(_ *ssa.BasicBlock, _ int, in ssa.Instruction) {
				st, ok := in.(*ssa.Store)
				if !ok {
					return
				}
				fa, ok := st.Addr.(*ssa.FieldAddr)
				if !ok || !freshBase(fa.X) {
					return
				}
				switch fieldName(fa) {
				case keyField:
					okH = allOrigins(Origins(st.Val, FlowOpts{}), func(o Origin) bool { return o.Kind == "field" && o.Name == keyField })
				case "encryptfs.EncryptFS.Cipher":
					okC = allOrigins(Origins(st.Val, FlowOpts{}), func(o Origin) bool { return o.Kind == "field" && o.Name == "encryptfs.EncryptFS.Cipher" })
				}
			})
		}
		c.Check(okH && okC, "R3", "child view carries the same key and cipher", cf.Pos(), "hash and Cipher copied from the parent view", "a child view does not carry its parent's key and cipher — files written through one cannot be read through the other")
	}
	// host id accessor
	hid := c.P.Func("varutil/idutil", "", "HostID")
	if hid == nil {
		c.Bad("R3", "idutil.HostID", 0, "anchor not found")
		return
	}
	okID := false
	var got string
	for _, r := range returnsOf(hid) {
		ros := Origins(r.Results[0], FlowOpts{})
		got = originsString(ros)
		if hasOrigin(ros, func(o Origin) bool { return o.Kind == "global" }) {
			okID = true
		}
	}
	c.Check(okID, "R3", "idutil.HostID returns the machine-derived id", hid.Pos(), "returns the package-level host id",
		"HostID returns "+got+" (its named result shadows the package variable): the host id is always empty, so HostOnly binds nothing — data written with host binding decrypts on any host and with HostOnly off")
}

func ruleCipherTag(c *Ctx) {
	ext := cipherPkg + "/extcfs"
	toBin := c.P.Func(ext, "CipherKey", "ToBinary")
	newKey := c.P.Func(ext, "", "NewCipherKey")
	decR := c.P.Func(ext, "Cipher", "DecryptReader")
	dec := c.P.Func(ext, "Cipher", "Decrypt")
	if toBin == nil || newKey == nil || decR == nil || dec == nil {
		c.Bad("R6", "extcfs tag functions", 0, "anchor not found")
		return
	}
	// written length
	wlen := int64(-1)
	var worder, rorder string
	eachInstr(toBin, func(_ *ssa.BasicBlock, _ int, in ssa.Instruction) {
		if k := constMakeLen(in); k >= 0 {
			wlen = k
		}
		if ci := callInfo(in, nil, 0); ci != nil && ci.Static != nil && strings.HasPrefix(qualName(ci.Static), "encoding/binary.") {
			worder = qualName(ci.Static)
		}
	})
	eachInstr(newKey, func(_ *ssa.BasicBlock, _ int, in ssa.Instruction) {
		if ci := callInfo(in, nil, 0); ci != nil && ci.Static != nil && strings.HasPrefix(qualName(ci.Static), "encoding/binary.") {
			rorder = qualName(ci.Static)
		}
	})
	// read lengths
	rlenStream, rlenData := int64(-1), int64(-1)
	for _, g := range append([]*ssa.Function{decR}, privateHelpersOf(decR)...) {
		eachInstr(g, func(_ *ssa.BasicBlock, _ int, in ssa.Instruction) {
			if k := constMakeLen(in); k >= 0 && rlenStream < 0 {
				rlenStream = k
			}
		})
	}
	for _, g := range append([]*ssa.Function{dec}, privateHelpersOf(dec)...) {
		eachInstr(g, func(_ *ssa.BasicBlock, _ int, in ssa.Instruction) {
			if sl, ok := in.(*ssa.Slice); ok && sl.High != nil && sl.Low == nil && rlenData < 0 {
				if k, ok := constInt(sl.High); ok {
					rlenData = k
				}
			}
		})
	}
	okLen := wlen > 0 && wlen == rlenStream && wlen == rlenData
	c.Check(okLen, "R6", "cipher tag length", toBin.Pos(), fmt.Sprintf("written %d = stream header %d = data header %d", wlen, rlenStream, rlenData),
		fmt.Sprintf("tag length written %d, read from stream %d, read from data %d — reader and writer disagree on the header", wlen, rlenStream, rlenData))
	// the in-memory key keeps every byte of the tag: no narrowing conversion between the header and the table lookup
	sizes := types.SizesFor("gc", "amd64")
	narrow := ""
	for _, f := range []*ssa.Function{newKey, toBin} {
		eachInstr(f, func(_ *ssa.BasicBlock, _ int, in ssa.Instruction) {
			if cv, ok := in.(*ssa.Convert); ok {
				ft, tt := cv.X.Type().Underlying(), cv.Type().Underlying()
				if fb, ok1 := ft.(*types.Basic); ok1 && fb.Info()&types.IsInteger != 0 {
					if tb, ok2 := tt.(*types.Basic); ok2 && tb.Info()&types.IsInteger != 0 && sizes.Sizeof(tt) < sizes.Sizeof(ft) && f == newKey {
						narrow = fmt.Sprintf("%s converts the %d-byte header value to a %d-byte key", fname(f), sizes.Sizeof(ft), sizes.Sizeof(tt))
					}
				}
			}
		})
	}
	if newKey.Signature.Results().Len() == 1 && wlen > 0 && sizes.Sizeof(newKey.Signature.Results().At(0).Type()) < wlen {
		narrow = fmt.Sprintf("the key type %s holds %d of the %d tag bytes", typeString(newKey.Signature.Results().At(0).Type()), sizes.Sizeof(newKey.Signature.Results().At(0).Type()), wlen)
	}
	c.Check(narrow == "", "R6", "cipher tag width", newKey.Pos(), "the key type keeps all tag bytes", narrow+" — stored data whose tag is corrupted in the dropped bytes is still dispatched and opened instead of being refused")
	sameOrder := worder != "" && rorder != "" && strings.Split(worder, ")")[0] == strings.Split(rorder, ")")[0]
	c.Check(sameOrder, "R6", "cipher tag byte order", toBin.Pos(), worder+" / "+rorder, "writer uses "+worder+", reader "+rorder)
	// unknown tag -> error before dispatch
	for _, f := range []*ssa.Function{decR, dec} {
		facts := factsFor(f)
		ok := false
		var lk ssa.Value
		eachInstr(f, func(_ *ssa.BasicBlock, _ int, in ssa.Instruction) {
			if l, isL := in.(*ssa.Lookup); isL {
				if n, _ := fieldLoadName(l.X); n == "mapping" {
					lk = l
					if l.CommaOk {
						lk = nil
						for _, e := range resultN(l, 0) {
							lk = e
						}
					}
				}
			}
		})
		if lk != nil {
			okMiss, okHit := false, true
			// every return reachable from the miss edge carries a (possibly) non-nil error
			eachInstr(f, func(b *ssa.BasicBlock, _ int, in ssa.Instruction) {
				iff, isIf := in.(*ssa.If)
				if !isIf {
					return
				}
				for si, sb := range b.Succs {
					if !knownNilIn(factsOnEdge(facts, b, sb), lk, true) || facts.KnownNil(b, lk, true) {
						continue
					}
					_ = si
					_ = iff
					all, n := true, 0
					for _, r := range returnsReachableFrom(sb) {
						n++
						if isNilConst(resolve(r.Results[len(r.Results)-1])) {
							all = false
						}
					}
					if all && n > 0 {
						okMiss = true
					}
				}
			})
			for _, ci := range Calls(f) {
				if ci.Method != nil && (ci.Method.Name() == "Decrypt" || ci.Method.Name() == "DecryptReader") {
					if !facts.KnownNil(ci.Block, lk, false) {
						okHit = false
					}
				}
			}
			ok = okMiss && okHit
		}
		if lk == nil {
			// the table lookup lives in a private helper h(key) (cipher, error): h fails on a miss and the
			// caller dispatches only on h's nil error
			for _, hc := range Calls(f) {
				h := hc.Static
				call, isCall := hc.Instr.(*ssa.Call)
				if h == nil || !isCall || h.Pkg != f.Pkg || h.Blocks == nil || errResultIndex(h.Signature) < 0 {
					continue
				}
				var hl ssa.Value
				eachInstr(h, func(_ *ssa.BasicBlock, _ int, in ssa.Instruction) {
					if l, isL := in.(*ssa.Lookup); isL {
						if n, _ := fieldLoadName(l.X); n == "mapping" {
							hl = l
							if l.CommaOk {
								hl = firstOr(resultN(l, 0))
							}
						}
					}
				})
				if hl == nil {
					continue
				}
				hf := factsFor(h)
				ei := errResultIndex(h.Signature)
				okH := true
				for _, r := range returnsOf(h) {
					// a possibly-nil error only where the looked-up cipher is known non-nil
					if hf.HoldsOnAllEdges(r.Block(), func(fs factSet) bool { return knownNilIn(fs, r.Results[ei], false) }) {
						continue
					}
					if !hf.HoldsOnAllEdges(r.Block(), func(fs factSet) bool { return knownNilIn(fs, hl, false) }) {
						okH = false
					}
				}
				okD := true
				ev := firstOr(resultN(call, ei))
				for _, ci := range Calls(f) {
					if ci.Method != nil && (ci.Method.Name() == "Decrypt" || ci.Method.Name() == "DecryptReader") {
						if ev == nil || !facts.HoldsOnAllEdges(ci.Block, func(fs factSet) bool { return knownNilIn(fs, ev, true) || nilThroughPhi(facts, fs, ev) }) {
							okD = false
						}
					}
				}
				if okH && okD {
					ok = true
				}
			}
		}
		c.Check(ok, "R6", "unknown cipher tag refused in "+fname(f), f.Pos(), "a table miss returns an error; dispatch only on a hit", "an unknown tag is not refused before dispatch (nil cipher dereference)")
	}
}

func ruleDecryptReaders(c *Ctx, ciphers []*types.Named, ciface *types.Interface) {
	n := 0
	var fns []*ssa.Function
	for _, T := range ciphers {
		if f := c.P.MethodsOf(T, ciface)["DecryptReader"]; f != nil {
			fns = append(fns, f)
		}
	}
	if nr := c.P.Func(cipherPkg+"/aesgcm256cfs", "", "newReader"); nr != nil {
		fns = append(fns, nr)
		// order: ReadAll -> Close -> Decrypt
		var ra, cl, de ssa.Instruction
		for _, ci := range Calls(nr) {
			switch {
			case ci.Static != nil && (qualName(ci.Static) == "io/ioutil.ReadAll" || qualName(ci.Static) == "io.ReadAll"):
				ra = ci.Instr
			case ci.Static != nil && ci.Static.Pkg == nr.Pkg && ra == nil && (len(CallsTo(ci.Static, "io/ioutil.ReadAll"))+len(CallsTo(ci.Static, "io.ReadAll")) > 0):
				ra = ci.Instr // a private helper that reads the whole stream
			case ci.Method != nil && ci.Method.Name() == "Close" && cl == nil && ra != nil && dominates(ra, ci.Instr):
				cl = ci.Instr
			case ci.Method != nil && ci.Method.Name() == "Decrypt":
				de = ci.Instr
			}
		}
		ok := ra != nil && de != nil && dominates(ra, de)
		c.Check(ok, "R8", "stream reader order in aesgcm256cfs.newReader", nr.Pos(), "read all, then open", "the stream reader does not read the whole stored file before opening it")
		// the reader's data is Decrypt's result
		okD := false
		eachInstr(nr, func(_ *ssa.BasicBlock, _ int, in ssa.Instruction) {
			if st, isSt := in.(*ssa.Store); isSt {
				if fa, isFA := st.Addr.(*ssa.FieldAddr); isFA && strings.HasSuffix(fieldName(fa), ".reader.data") {
					okD = allOrigins(Origins(st.Val, FlowOpts{Alias: true}), func(o Origin) bool { return o.Kind == "call" && strings.Contains(o.Name, "(Cipher).Decrypt#0") })
				}
			}
		})
		c.Check(okD, "R5", "stream reader serves only opened data", nr.Pos(), "reader.data = Decrypt's result", "the stream reader serves bytes that did not pass Decrypt")
	}
	// a cipher's DecryptReader hands out only what a decrypting reader constructor produced: a
	// reader of its own making (e.g. an empty stream for an emptied file) serves bytes - or an end
	// of data - that never passed authentication
	for _, f := range fns {
		if f.Signature.Recv() == nil {
			continue
		}
		bad := ""
		for _, r := range returnsOf(f) {
			if len(r.Results) < 2 {
				continue
			}
			rv := resolve(r.Results[0])
			if isNilConst(rv) {
				continue
			}
			okR := false
			if ex, isEx := rv.(*ssa.Extract); isEx && ex.Index == 0 {
				if call, isC := ex.Tuple.(*ssa.Call); isC {
					ci := callInfo(call, nil, 0)
					if ci != nil && ((ci.Method != nil && ci.Method.Name() == "DecryptReader") || (ci.Static != nil && (ci.Static.Name() == "newReader" || ci.Static.Name() == "DecryptReader"))) {
						okR = true
					}
				}
			}
			if !okR {
				bad = c.pos(r.Pos())
			}
		}
		c.Check(bad == "", "R5", "reader handed out by "+fname(f), f.Pos(), "every non-nil reader is the result of the selected cipher's DecryptReader / newReader",
			"the return at "+bad+" hands out a reader that no decrypting constructor produced — stored bytes (or their absence) are answered without authentication, and the stream path disagrees with ReadFile")
	}
	for _, f := range fns {
		// the stream parameter
		var stream *ssa.Parameter
		for _, p := range f.Params {
			if types.IsInterface(p.Type()) {
				stream = p
			}
		}
		if stream == nil {
			continue
		}
		n++
		isRelease := func(in ssa.Instruction) bool {
			ci := callInfo(in, nil, 0)
			if ci == nil {
				return false
			}
			if closesOneOf(ci, []ssa.Value{stream}) {
				return true
			}
			// a private helper that always closes the stream it is given
			if ci.Static != nil && inModule(ci.Static) {
				for i, a := range ci.Common.Args {
					if resolve(a) == ssa.Value(stream) || unwrapChange(a) == ssa.Value(stream) {
						if closesParamAlways(ci.Static, i) {
							return true
						}
					}
				}
			}
			// ownership passed on: the stream is an argument of another decrypting reader
			if (ci.Method != nil && ci.Method.Name() == "DecryptReader") || (ci.Static != nil && ci.Static.Name() == "newReader") {
				for _, a := range ci.Common.Args {
					if resolve(a) == ssa.Value(stream) {
						return true
					}
					if ct, ok := a.(*ssa.ChangeInterface); ok && ct.X == ssa.Value(stream) {
						return true
					}
				}
			}
			return false
		}
		bad := MustPass(f, nil, isRelease)
		leak := ""
		for _, e := range bad {
			r := e.Instr.(*ssa.Return)
			if !isNilConst(resolve(r.Results[len(r.Results)-1])) {
				leak = c.pos(r.Pos())
			}
		}
		c.Check(leak == "", "R8", "stream ownership in "+fname(f), f.Pos(), "every failing return closed the stream (or handed it to the selected cipher's reader)",
			"the error return at "+leak+" leaves the stream it was given open; the caller got no reader back, so nothing can close it (a memory filespace keeps the file locked: the next write blocks forever)")
	}
	c.Floor("R8", n, 3)
}

// constMakeLen: `make([]byte, K)` with constant K (go/ssa lowers it to an
// array allocation plus a slice); -1 otherwise.
func constMakeLen(in ssa.Instruction) int64 {
	switch x := in.(type) {
	case *ssa.MakeSlice:
		if k, ok := constInt(x.Len); ok {
			return k
		}
	case *ssa.Alloc:
		if pt, ok := x.Type().(*types.Pointer); ok {
			if at, ok := pt.Elem().Underlying().(*types.Array); ok && x.Comment == "makeslice" {
				if b, ok := at.Elem().Underlying().(*types.Basic); ok && b.Kind() == types.Byte {
					return at.Len()
				}
			}
		}
	}
	return -1
}

func unwrapChange(v ssa.Value) ssa.Value {
	for {
		switch x := v.(type) {
		case *ssa.ChangeInterface:
			v = x.X
		case *ssa.MakeInterface:
			v = x.X
		case *ssa.ChangeType:
			v = x.X
		default:
			return v
		}
	}
}

// returnsReachableFrom: the returns reachable from block b.
func returnsReachableFrom(b *ssa.BasicBlock) []*ssa.Return {
	var out []*ssa.Return
	seen := map[*ssa.BasicBlock]bool{}
	stack := []*ssa.BasicBlock{b}
	for len(stack) > 0 {
		x := stack[len(stack)-1]
		stack = stack[:len(stack)-1]
		if seen[x] {
			continue
		}
		seen[x] = true
		if len(x.Instrs) > 0 {
			if r, ok := x.Instrs[len(x.Instrs)-1].(*ssa.Return); ok {
				out = append(out, r)
			}
		}
		stack = append(stack, x.Succs...)
	}
	return out
}

// ruleEncryptedWriterClose: the encrypting stream writer's Close seals, writes
// and closes the underlying stream, and returns each of their errors.
func ruleEncryptedWriterClose(c *Ctx, rule string) int {
	// stream writer: what is written to the underlying stream is Encrypt's result
	n8 := 0
	for _, f := range c.P.PkgFuncs(cipherPkg + "/aesgcm256cfs") {
		if f.Name() != "Close" || f.Signature.Recv() == nil {
			continue
		}
		var enc, wr, cl *ssa.Call
		for _, ci := range Calls(f) {
			call, _ := ci.Instr.(*ssa.Call)
			if call == nil {
				continue
			}
			switch {
			case ci.Method != nil && ci.Method.Name() == "Encrypt":
				enc = call
			case ci.Method != nil && ci.Method.Name() == "Write":
				wr = call
			case ci.Method != nil && ci.Method.Name() == "Close":
				cl = call
			}
		}
		if enc == nil && wr == nil {
			continue // the reader's Close
		}
		n8++
		facts := factsFor(f)
		ok := enc != nil && wr != nil && cl != nil
		why := "writer.Close does not seal, write and close"
		if ok {
			os := Origins(wr.Call.Args[0], FlowOpts{Alias: true})
			if !allOrigins(os, func(o Origin) bool { return o.Val == ssa.Value(enc) }) {
				ok, why = false, "the bytes written to the underlying stream are "+originsString(os)+", not Encrypt's result (plaintext reaches the base)"
			} else if !callErrKnownNil(facts, enc, wr.Block()) {
				ok, why = false, "the write is not confined to the edge where Encrypt succeeded"
			} else if !dominates(wr, cl) || !callErrKnownNil(facts, wr, cl.Block()) {
				ok, why = false, "the underlying stream is closed without the write having succeeded"
			} else {
				ret := false
				for _, r := range returnsOf(f) {
					if resolve(r.Results[0]) == ssa.Value(cl) {
						ret = true
					}
				}
				if !ret {
					ok, why = false, "the error of closing the underlying stream is not returned"
				}
			}
		}
		c.Check(ok, rule, "stream writer "+fname(f), f.Pos(), "seal -> write -> close, each error propagated", why)
	}
	return n8
}

// helperMakesRandomBuffer: every return of h with a (possibly) nil error hands
// out a buffer allocated in h and filled from crypto/rand with the read's error
// known nil there.
func helperMakesRandomBuffer(h *ssa.Function) bool {
	ei := errResultIndex(h.Signature)
	if h.Blocks == nil || ei < 0 || h.Signature.Results().Len() != 2 {
		return false
	}
	facts := factsFor(h)
	okAny := false
	for _, r := range returnsOf(h) {
		if facts.HoldsOnAllEdges(r.Block(), func(fs factSet) bool { return knownNilIn(fs, r.Results[ei], false) }) {
			continue
		}
		buf := r.Results[1-ei]
		os := Origins(buf, FlowOpts{Alias: true})
		if !allOrigins(os, func(o Origin) bool { return o.Kind == "alloc" && o.Val.(ssa.Instruction).Parent() == h }) {
			return false
		}
		filled := false
		for _, rc := range Calls(h) {
			if rc.Static == nil || !dominates(rc.Instr, r) {
				continue
			}
			var b ssa.Value
			switch qualName(rc.Static) {
			case "io.ReadFull":
				if isRandReader(rc.Arg(0)) {
					b = rc.Arg(1)
				}
			case "crypto/rand.Read":
				b = rc.Arg(0)
			}
			if b == nil || resolve(b) != resolve(buf) {
				continue
			}
			if call, ok := rc.Instr.(*ssa.Call); ok && callErrKnownNil(facts, call, r.Block()) {
				filled = true
			}
		}
		if !filled {
			return false
		}
		okAny = true
	}
	return okAny
}

// nilThroughPhi: the facts say that a phi P is nil, P merges ev with other
// values, and each of the other values is known non-nil on its incoming edge:
// so P == nil can only have come through ev, i.e. ev == nil.
func nilThroughPhi(facts *Facts, fs factSet, ev ssa.Value) bool {
	for k := range fs {
		bo, ok := k.v.(*ssa.BinOp)
		if !ok || (bo.Op != token.EQL && bo.Op != token.NEQ) {
			continue
		}
		other := bo.X
		if isNilConst(bo.X) {
			other = bo.Y
		} else if !isNilConst(bo.Y) {
			continue
		}
		if (bo.Op == token.EQL) != k.pol {
			continue
		}
		p, ok := resolve(other).(*ssa.Phi)
		if !ok {
			continue
		}
		has, rest := false, true
		for i, e := range p.Edges {
			if resolve(e) == resolve(ev) {
				has = true
				continue
			}
			if !knownNilIn(factsOnEdge(facts, p.Block().Preds[i], p.Block()), e, false) {
				rest = false
			}
		}
		if has && rest {
			return true
		}
	}
	return false
}
