package main

import (
	"fmt"
	"go/constant"
	"go/token"
	"go/types"
	"sort"
	"strings"

	"golang.org/x/tools/go/ssa"
)

const pmPkg = "varutil/plainmap"

func init() {
	register(&PropDef{ID: "C20", Title: "Config and translation maps survive flattening, JSON and loading unchanged", Rules: rulesC20,
		Explanation: "Decided (structural necessary conditions, packages plainmap, fsi18loader, i18mem): R1 the constant used to join keys when flattening (recursive map and JSON), to split them when rebuilding and to find the nesting point when emitting JSON is one and the same one-character string; R2 in the JSON object walk a string leaf reaches the result map only as the result of an unescaping function (jsonparser.ParseString/Unescape, strconv.Unquote, encoding/json) on its nil-error edge — never the raw bytes; number leaves are stored raw; R3 the emitter's escaper delegates to encoding/json (not to Go-syntax quoting), and every non-constant piece of the emitted text is either an escaped string, a recursive emission, the text so far or indentation; R4 the translation table is only touched under its RW mutex, and it is never replaced wholesale from a copy taken in an earlier critical section (read-copy-publish must be one hold); R5 the loader's callback returns read and parse errors and hands the parsed map to Set; Load runs, waits, then returns the loop's error list; R6 the leaf switch recurses on objects and stores exactly string and number leaves. " +
			"R7 the walker behind fsi18loader.Load looks at entry names only to recognise '.' and '..' and leaves a listing loop early only with a non-nil error (no translation file is skipped by name). " +
			"Added in round 6: R3 also judges pieces written with WriteString into a strings.Builder; R5 follows the store method when it is passed down as a bound method value (i18.Set / i18.SetDefault); R8 a traversal mark set by the flatten worker is removed again on every path (an ever-growing visited set rejects a finite map that reaches one sub-map under two keys). " +
			"Added in round 7: R5 follows the loader callback into exported functions of its package; R9 every return of I18Mem.Translate follows a read of the translation table - a verdict from a second store consulted first (a negative cache) is not ordered with Set by the table's lock. " +
			"NOT decided: that flatten/rebuild and write/read are mutually inverse for all maps (round-trip equalities); jsonparser's and encoding/json's own correctness.",
	})
}

func pkgConstInt(p *Prog, pkgPath, name string) (int64, bool) {
	pk := p.ByPath[pkgPath]
	if pk == nil || pk.Types == nil {
		return 0, false
	}
	cn, ok := pk.Types.Scope().Lookup(name).(*types.Const)
	if !ok || cn.Val().Kind() != constant.Int {
		return 0, false
	}
	return constant.Int64Val(cn.Val())
}

func rulesC20(c *Ctx) {
	// ---- R1 one separator -----------------------------------------------------------
	type sepSite struct {
		what string
		val  string
		pos  token.Pos
	}
	var sites []sepSite
	add := func(what string, v ssa.Value, pos token.Pos) {
		if s, ok := constString(v); ok {
			sites = append(sites, sepSite{what, s, pos})
		} else {
			sites = append(sites, sepSite{what, "<non-constant>", pos})
		}
	}
	for _, f := range c.P.PkgFuncs(pmPkg) {
		for _, g := range []*ssa.Function{f} {
			for _, ci := range Calls(g) {
				if ci.Static == nil {
					continue
				}
				switch qualName(ci.Static) {
				case "strings.Split":
					add("split in "+fname(g), ci.Arg(1), ci.Pos())
				case "strings.Index":
					if strings.Contains(fname(g), "ToJSON") || strings.Contains(fname(g), "FormattedJSON") {
						add("nesting search in "+fname(g), ci.Arg(1), ci.Pos())
					}
				case mq(pmPkg, "", "recursiveMapToPlainMapNode"):
					if s, ok := constString(ci.Arg(3)); ok && s == "" {
						continue // top level: no prefix yet
					}
					if _, isParam := ci.Arg(3).(*ssa.Parameter); isParam {
						continue
					}
					add("flatten join in "+fname(g), ci.Arg(3), ci.Pos())
				}
			}
			// JSON walk: resultKey + SEP + string(key)
			if strings.Contains(fname(g), "jsonToPlainStringMap$") {
				eachInstr(g, func(_ *ssa.BasicBlock, _ int, in ssa.Instruction) {
					bo, ok := in.(*ssa.BinOp)
					if !ok || bo.Op != token.ADD || !isStringy(bo.Type()) {
						return
					}
					for _, r := range *bo.Referrers() {
						if p, ok := r.(*ssa.BinOp); ok && p.Op == token.ADD {
							return
						}
					}
					parts := flattenTemplate(bo)
					if len(parts) == 3 && parts[1].hole == "" {
						sites = append(sites, sepSite{"JSON key join in " + fname(g), parts[1].konst, bo.Pos()})
					}
				})
			}
		}
	}
	vals := map[string]bool{}
	var desc []string
	for _, s := range sites {
		vals[s.val] = true
		desc = append(desc, fmt.Sprintf("%s=%q", s.what, s.val))
	}
	sort.Strings(desc)
	one := ""
	for v := range vals {
		one = v
	}
	c.Check(len(vals) == 1 && len(one) == 1, "R1", "key separator agreement", 0, fmt.Sprintf("%d sites all use %q", len(sites), one),
		"the flatten / JSON / rebuild / emit sites do not agree on one one-character separator: "+strings.Join(desc, "; ")+" — flattening and rebuilding are no longer inverse")
	c.Floor("R1", len(sites), 3)

	// ---- R2 / R6 the JSON object walk --------------------------------------------------------
	var walk *ssa.Function
	for _, f := range c.P.PkgFuncs(pmPkg) {
		if strings.Contains(fname(f), "jsonToPlainStringMap$") {
			walk = f
		}
	}
	jsonStr, ok1 := pkgConstInt(c.P, "github.com/buger/jsonparser", "String")
	jsonNum, ok2 := pkgConstInt(c.P, "github.com/buger/jsonparser", "Number")
	jsonObj, ok3 := pkgConstInt(c.P, "github.com/buger/jsonparser", "Object")
	if walk == nil || !ok1 || !ok2 || !ok3 {
		c.Bad("R2", "plainmap JSON walk callback", 0, "anchor not found (callback of jsonparser.ObjectEach / jsonparser value types); cannot certify")
	} else {
		facts := factsFor(walk)
		var dataType *ssa.Parameter
		var value *ssa.Parameter
		for _, p := range walk.Params {
			if strings.HasSuffix(typeString(p.Type()), "jsonparser.ValueType") {
				dataType = p
			}
		}
		if len(walk.Params) >= 2 {
			value = walk.Params[1]
		}
		kindAt := func(b *ssa.BasicBlock) (int64, bool) {
			for k := range facts.At(b) {
				bo, ok := k.v.(*ssa.BinOp)
				if !ok || dataType == nil || bo.X != ssa.Value(dataType) {
					continue
				}
				if !((bo.Op == token.EQL && k.pol) || (bo.Op == token.NEQ && !k.pol)) {
					continue
				}
				if kv, ok := constInt(bo.Y); ok {
					return kv, true
				}
			}
			return 0, false
		}
		unescapers := []string{"jsonparser.ParseString#0", "jsonparser.Unescape#0", "strconv.Unquote#0", "encoding/json."}
		nStr, nNum := 0, 0
		eachInstr(walk, func(b *ssa.BasicBlock, _ int, in ssa.Instruction) {
			mu, ok := in.(*ssa.MapUpdate)
			if !ok {
				return
			}
			kind, known := kindAt(b)
			if !known {
				c.Bad("R6", "leaf store in the JSON walk", mu.Pos(), "a leaf is stored without the value type having been tested — null/boolean/array leaves are not skipped")
				return
			}
			switch kind {
			case jsonStr:
				nStr++
				os := Origins(mu.Value, FlowOpts{})
				okU := allOrigins(os, func(o Origin) bool {
					if o.Kind != "call" {
						return false
					}
					for _, u := range unescapers {
						if strings.Contains(o.Name, u) {
							return true
						}
					}
					return false
				})
				if okU {
					for _, o := range os {
						if call, isC := o.Val.(*ssa.Call); isC && !callErrKnownNil(facts, call, b) {
							okU = false
						}
					}
				}
				// the raw bytes are the decoded string exactly when they contain no backslash: accept a raw
				// store on an edge where that absence is known (IndexByte(v,'\\') < 0 / == -1, !Contains ...)
				if !okU {
					raw := mu.Value
					if cv, isCv := resolve(raw).(*ssa.Convert); isCv {
						raw = cv.X
					}
					if facts.HoldsOnAllEdges(b, func(fs factSet) bool { return noBackslashIn(fs, resolve(raw)) }) {
						okU = true
					}
				}
				c.Check(okU, "R2", fmt.Sprintf("string leaf store #%d in the JSON walk", nStr), mu.Pos(), "value = result of an unescaping function, error checked",
					"a string leaf is stored as "+originsString(os)+" — escapes such as \\\" \\n \\u00f3 stay in the value (differs from a standard JSON decoder)")
			case jsonNum:
				nNum++
				c.OK("R6", "number leaf stored", mu.Pos(), "raw number text")
			default:
				c.Bad("R6", "leaf store in the JSON walk", mu.Pos(), fmt.Sprintf("a leaf of value type %d is stored (only strings and numbers are)", kind))
			}
		})
		c.Floor("R2", nStr, 1)
		// recursion on objects
		rec := false
		for _, ci := range Calls(walk) {
			if ci.Static != nil && ci.Static.Name() == "jsonToPlainStringMap" {
				if k, known := kindAt(ci.Block); known && k == jsonObj {
					rec = true
					// the nested call gets the raw value and the extended key
					if value != nil && ci.Arg(2) != ssa.Value(value) {
						rec = false
					}
				}
			}
		}
		c.Check(rec && nNum >= 1, "R6", "leaf kinds of the JSON walk", walk.Pos(), "recurses on objects; stores strings and numbers", "the walk does not recurse into nested objects with their own bytes, or does not store number leaves")
	}

	// ---- R3 the emitter ------------------------------------------------------------------------------
	fmtF := c.P.Func(pmPkg, "", "formatStringJSON")
	if fmtF == nil {
		c.Bad("R3", "plainmap.formatStringJSON", 0, "anchor not found")
	} else {
		usesJSON, usesOther := false, ""
		for _, ci := range Calls(fmtF) {
			if ci.Static == nil || ci.Static.Pkg == nil {
				continue
			}
			switch ci.Static.Pkg.Pkg.Path() {
			case "encoding/json":
				if ci.Static.Name() == "Encode" || ci.Static.Name() == "Marshal" {
					// the parameter is what is encoded
					for _, a := range ci.Common.Args {
						if unwrapIface(a) == ssa.Value(fmtF.Params[0]) {
							usesJSON = true
						}
					}
				}
			case "strconv":
				if strings.HasPrefix(ci.Static.Name(), "Quote") || strings.HasPrefix(ci.Static.Name(), "AppendQuote") {
					usesOther = "strconv." + ci.Static.Name() + " (Go syntax: \\a \\v \\x01 are not JSON)"
				}
			case "fmt":
				usesOther = "fmt." + ci.Static.Name()
			case "strings":
				if strings.HasPrefix(ci.Static.Name(), "Replace") || ci.Static.Name() == "NewReplacer" {
					usesOther = "a hand-written replacement table (strings." + ci.Static.Name() + ")"
				}
			}
		}
		c.Check(usesJSON && usesOther == "", "R3", "string escaper of the JSON emitter", fmtF.Pos(), "delegates to encoding/json",
			"the escaper uses "+usesOther+" instead of (only) encoding/json — some characters JSON requires to be escaped (quote, backslash, all of U+0000-U+001F) are emitted in a form a JSON reader rejects")
	}
	n3 := 0
	for _, name := range []string{"plainStringMapToJSON", "plainStringMapToFormattedJSON"} {
		f := c.P.Func(pmPkg, "", name)
		if f == nil {
			c.Bad("R3", "plainmap."+name, 0, "anchor not found")
			continue
		}
		eachInstr(f, func(_ *ssa.BasicBlock, _ int, in ssa.Instruction) {
			bo, ok := in.(*ssa.BinOp)
			if !ok || bo.Op != token.ADD || !isStringy(bo.Type()) {
				return
			}
			for _, r := range *bo.Referrers() {
				if p, ok := r.(*ssa.BinOp); ok && p.Op == token.ADD {
					return
				}
			}
			// only concatenations that build the json text (their result flows to the json result)
			parts := flattenTemplate(bo)
			if len(parts) < 2 {
				return
			}
			isJSONText := false
			for _, p := range parts {
				if p.hole == "" && strings.ContainsAny(p.konst, ":{},") {
					isJSONText = true
				}
			}
			if !isJSONText {
				return
			}
			n3++
			bad := ""
			for _, p := range parts {
				if p.hole == "" || p.hole == "ACC" {
					continue
				}
				os := Origins(p.val, FlowOpts{})
				okP := allOrigins(os, func(o Origin) bool {
					switch o.Kind {
					case "call":
						return strings.Contains(o.Name, ".formatStringJSON#") || strings.Contains(o.Name, "."+name+"#")
					case "param":
						return o.Name == "spaces" || o.Name == "sep"
					case "const":
						return true
					}
					return false
				})
				if !okP {
					bad = originsString(os)
				}
			}
			c.Check(bad == "", "R3", fmt.Sprintf("emitted piece #%d in plainmap.%s", n3, name), bo.Pos(), "escaped strings, nested emission and indentation only",
				"the emitted JSON contains a raw piece ("+bad+") that did not pass the escaper")
		})
	}
	// the same emitters writing into a strings.Builder / bytes.Buffer: every written piece is a constant,
	// an escaped string or indentation
	for _, name := range []string{"plainStringMapToJSON", "plainStringMapToFormattedJSON"} {
		f := c.P.Func(pmPkg, "", name)
		if f == nil {
			continue
		}
		for _, ci := range Calls(f) {
			if ci.Static == nil || ci.Kind != "call" {
				continue
			}
			q := qualName(ci.Static)
			if q != "strings.(Builder).WriteString" && q != "bytes.(Buffer).WriteString" {
				continue
			}
			n3++
			bad := ""
			for _, p := range flattenTemplate(ci.Arg(0)) {
				if p.hole == "" || p.hole == "ACC" {
					continue
				}
				os := Origins(p.val, FlowOpts{})
				okP := allOrigins(os, func(o Origin) bool {
					switch o.Kind {
					case "call":
						return strings.Contains(o.Name, ".formatStringJSON#") || strings.Contains(o.Name, "."+name+"#")
					case "param":
						return o.Name == "spaces" || o.Name == "sep"
					case "const":
						return true
					}
					return false
				})
				if !okP {
					bad = originsString(os)
				}
			}
			c.Check(bad == "", "R3", fmt.Sprintf("emitted piece #%d in plainmap.%s", n3, name), ci.Pos(), "escaped strings, nested emission and indentation only",
				"the emitted JSON contains a raw piece ("+bad+") that did not pass the escaper")
		}
	}
	c.Floor("R3", n3, 4)

	// ---- R8 flattening is total on finite maps: a "seen" mark set on the way down is removed on the way up ----
	// (HEAD's worker creates no error of its own; a cycle guard is fine only as an on-the-path set: marks that
	// are never removed make a sub-map that is referenced under two keys look like a cycle)
	if froot := c.P.Func(pmPkg, "", "RecursiveMapToPlainMap"); froot == nil {
		c.Bad("R8", "plainmap.RecursiveMapToPlainMap", 0, "anchor not found")
	} else {
		n8 := 0
		var workers []*ssa.Function
		for _, g := range append([]*ssa.Function{froot}, reachableSamePkg(froot, 2)...) {
			workers = append(workers, withClosures(g)...)
		}
		for _, fw := range workers {
			fw := fw
			eachInstr(fw, func(_ *ssa.BasicBlock, _ int, in ssa.Instruction) {
				mu, ok := in.(*ssa.MapUpdate)
				if !ok {
					return
				}
				if _, isParam := mu.Map.(*ssa.Parameter); !isParam {
					return
				}
				if b, isB := constBool(mu.Value); !isB || !b {
					return
				}
				n8++
				unmark := func(x ssa.Instruction) bool {
					switch y := x.(type) {
					case *ssa.Call:
						if bi, ok := y.Call.Value.(*ssa.Builtin); ok && bi.Name() == "delete" && len(y.Call.Args) == 2 && y.Call.Args[0] == mu.Map && sameValue(resolve(y.Call.Args[1]), resolve(mu.Key)) {
							return true
						}
					case *ssa.MapUpdate:
						if y.Map == mu.Map && y != mu && sameValue(resolve(y.Key), resolve(mu.Key)) {
							if b, isB := constBool(y.Value); isB && !b {
								return true
							}
						}
					case *ssa.Defer:
						if mc, ok := y.Call.Value.(*ssa.MakeClosure); ok {
							if fn, ok := mc.Fn.(*ssa.Function); ok {
								found := false
								eachInstr(fn, func(_ *ssa.BasicBlock, _ int, z ssa.Instruction) {
									if zc, ok := z.(*ssa.Call); ok {
										if bi, ok := zc.Call.Value.(*ssa.Builtin); ok && bi.Name() == "delete" {
											found = true
										}
									}
								})
								return found
							}
						}
					}
					return false
				}
				bad := MustPass(fw, mu, unmark)
				c.Check(len(bad) == 0, "R8", "mark set by the flatten worker is removed on the way up", mu.Pos(), "delete(mark) on every path after the mark was set",
					"the worker marks the maps it has entered and never removes the mark — a finite map that reaches one sub-map under two keys is rejected as cyclic: flatten is no longer defined on every nested map")
			})
		}
		c.Note("R8: %d traversal marks in the flatten worker", n8)
	}

	// ---- R4 translation store --------------------------------------------------------------------------
	memT := c.P.Named("i18n/i18mem", "I18Mem")
	if memT == nil {
		c.Bad("R4", "i18mem.I18Mem", 0, "anchor not found")
	} else {
		le := NewLockEngine(c.P)
		fns := c.P.PkgFuncs("i18n/i18mem")
		n4 := guardedAccessRule(c, le, "R4", fns, memT, "translates", "muTranlsates", nil)
		c.Floor("R4", n4, 2)
		st, fi := fieldIndex(memT, "translates")
		_, gi := fieldIndex(memT, "muTranlsates")
		// R9 every answer of Translate comes after a look at the table itself: a verdict taken from a
		// second store (a negative cache consulted first) is not ordered with Set by the table's mutex
		if tr := c.P.Func("i18n/i18mem", "I18Mem", "Translate"); tr == nil {
			c.Bad("R9", "i18mem.(*I18Mem).Translate", 0, "anchor not found")
		} else {
			isLoad := func(in ssa.Instruction) bool {
				u, ok := in.(*ssa.UnOp)
				if !ok || u.Op != token.MUL {
					return false
				}
				fa, ok := u.X.(*ssa.FieldAddr)
				return ok && fa.Field == fi && structOf(fa.X.Type()) == st
			}
			isEv := func(in ssa.Instruction) bool {
				if isLoad(in) {
					return true
				}
				if ci := callInfo(in, nil, 0); ci != nil && ci.Kind == "call" && ci.Static != nil && ci.Static.Pkg == tr.Pkg && ci.Static.Blocks != nil {
					return len(MustPass(ci.Static, nil, isLoad)) == 0
				}
				return false
			}
			bad := MustPass(tr, nil, isEv)
			at := tr.Pos()
			if len(bad) > 0 {
				at = orPos(bad[0].Instr.Pos(), tr.Pos())
			}
			c.Check(len(bad) == 0, "R9", "Translate answers from the translation table", at, "every return follows a read of the table (under its lock, R4)",
				"Translate can answer without having looked at the translation table (a second store decides first): the answer is not ordered with Set/SetDefault by the table's lock — a key that was just defined keeps being reported unknown")
		}
		for _, f := range fns {
			var stores, loads []ssa.Instruction
			var base ssa.Value
			eachInstr(f, func(_ *ssa.BasicBlock, _ int, in ssa.Instruction) {
				switch x := in.(type) {
				case *ssa.Store:
					if fa, ok := x.Addr.(*ssa.FieldAddr); ok && fa.Field == fi && structOf(fa.X.Type()) == st && !freshBase(fa.X) {
						stores = append(stores, x)
						base = fa.X
					}
				case *ssa.UnOp:
					if fa, ok := x.X.(*ssa.FieldAddr); ok && x.Op == token.MUL && fa.Field == fi && structOf(fa.X.Type()) == st {
						loads = append(loads, x)
					}
				}
			})
			// callees that read the table (copy helpers)
			for _, s := range stores {
				la := le.Analyze(f)
				key := fmt.Sprintf("%s.&f%d", keyP(base), gi)
				okS := true
				why := ""
				if m, held := la.HeldBefore(s)[key]; !held || m != 'W' {
					okS, why = false, "the table is replaced without the write lock"
				}
				// every read of the table in this function and its same-package callees happens in the same hold
				readers := append([]ssa.Instruction{}, loads...)
				for _, ci := range Calls(f) {
					if ci.Static != nil && ci.Static.Pkg == f.Pkg && ci.Static != f {
						reads := false
						eachInstr(ci.Static, func(_ *ssa.BasicBlock, _ int, in ssa.Instruction) {
							if u, ok := in.(*ssa.UnOp); ok && u.Op == token.MUL {
								if fa, ok := u.X.(*ssa.FieldAddr); ok && fa.Field == fi && structOf(fa.X.Type()) == st {
									reads = true
								}
							}
						})
						if reads {
							readers = append(readers, ci.Instr)
						}
					}
				}
				for _, r := range readers {
					if r == ssa.Instruction(s) {
						continue
					}
					if m, held := la.HeldBefore(r)[key]; !held || m != 'W' || la.releasedBetween(key, r, s) {
						okS, why = false, "the new table is built from a read of the old one made outside the write-locked section that publishes it (read-copy-publish is not one critical section)"
					}
				}
				c.Check(okS, "R4", "wholesale replacement of the translation table in "+fname(f), s.Pos(), "read, merge and publish under one write hold", why+" — two concurrent loaders each publish a copy without the other's keys: translations are silently lost")
			}
		}
	}

	// ---- R5 loader reports ---------------------------------------------------------------------------------
	load := c.P.Func("i18n/fsi18loader", "", "Load")
	if load == nil {
		c.Bad("R5", "fsi18loader.Load", 0, "anchor not found")
		return
	}
	// the per-file callback: the function value stored into LoopData.OnFile (a literal, a method value
	// or a named function); its work may be spread over private helpers
	var onFile *ssa.Function
	for _, g := range append(withClosures(load), reachableSamePkg(load, 2)...) {
		eachInstr(g, func(_ *ssa.BasicBlock, _ int, in ssa.Instruction) {
			st, ok := in.(*ssa.Store)
			if !ok {
				return
			}
			fa, ok := st.Addr.(*ssa.FieldAddr)
			if !ok || !strings.HasSuffix(fieldName(fa), "LoopData.OnFile") {
				return
			}
			v := unwrapChange(resolve(st.Val))
			switch x := v.(type) {
			case *ssa.MakeClosure:
				if fn, ok := x.Fn.(*ssa.Function); ok {
					onFile = fn
					if strings.HasSuffix(fn.Name(), "$bound") && fn.Object() != nil {
						if fo, ok := fn.Object().(*types.Func); ok {
							if real := fn.Prog.FuncValue(fo); real != nil {
								onFile = real
							}
						}
					}
				}
			case *ssa.Function:
				onFile = x
			}
		})
	}
	if onFile == nil {
		c.Bad("R5", "translation file callback", load.Pos(), "cannot find the function stored into LoopData.OnFile")
	} else {
		group := append([]*ssa.Function{onFile}, privateHelpersOf(onFile)...)
		// the callback's work may sit in an exported building block of the same package (LoadFile)
		for _, h := range reachableSamePkg(onFile, 2) {
			dup := false
			for _, g := range group {
				if g == h {
					dup = true
				}
			}
			if !dup {
				group = append(group, h)
			}
		}
		n := 0
		// propagates: the error of call (in g) is returned by g on its non-nil edge, and so on up to onFile
		var propagates func(g *ssa.Function, call *ssa.Call, depth int) bool
		propagates = func(g *ssa.Function, call *ssa.Call, depth int) bool {
			idx := errResultIndex(call.Call.Signature())
			gei := errResultIndex(g.Signature)
			if idx < 0 || gei < 0 || depth > 3 {
				return false
			}
			facts := factsFor(g)
			okE := false
			for _, r := range returnsOf(g) {
				rv := resolve(r.Results[gei])
				if ex, ok := rv.(*ssa.Extract); ok && ex.Tuple == ssa.Value(call) && ex.Index == idx {
					if facts.KnownNil(r.Block(), rv, false) {
						okE = true
					}
					// `return f(x)`: the tuple is handed on as it is
					same := true
					for _, o := range r.Results {
						if e2, ok := resolve(o).(*ssa.Extract); !ok || e2.Tuple != ssa.Value(call) {
							same = false
						}
					}
					if same {
						okE = true
					}
				}
				if rv == ssa.Value(call) {
					okE = true
				}
				for _, ev := range resultN(call, idx) {
					// the error itself, or an error built on its failing edge (a wrapper naming the file)
					if facts.KnownNil(r.Block(), ev, false) && (rv == ev || sameValue(rv, ev) || isNonNilErrValue(rv, 0)) {
						okE = true
					}
				}
			}
			if !okE {
				return false
			}
			if g == onFile {
				return true
			}
			// g's own error must travel on from each of its call sites in the group
			sites := 0
			for _, h := range group {
				for _, ci := range Calls(h) {
					if ci.Static == g {
						if hc, ok := ci.Instr.(*ssa.Call); ok {
							sites++
							if !propagates(h, hc, depth+1) {
								return false
							}
						}
					}
				}
			}
			return sites > 0
		}
		for _, g := range group {
			for _, ci := range Calls(g) {
				call, ok := ci.Instr.(*ssa.Call)
				if !ok {
					continue
				}
				isRead := ci.Method != nil && ci.Method.Name() == "ReadFile"
				isParse := ci.Static != nil && ci.Static.Name() == "JSONToPlainStringMap"
				if !isRead && !isParse {
					continue
				}
				n++
				c.Check(propagates(g, call, 0), "R5", "callback returns the error of "+lastSeg(ci.Name()), ci.Pos(), "returned on its non-nil edge (up to the callback's result)", "a read/parse error of a translation file is dropped — Load reports success although keys are missing")
			}
		}
		c.Floor("R5", n, 2)
		// Set gets the parsed map
		okSet := false
		for _, g := range group {
			for _, ci := range Calls(g) {
				if ci.Method != nil && ci.Method.Name() == "Set" {
					isParsed := func(o Origin) bool { return o.Kind == "call" && strings.Contains(o.Name, "JSONToPlainStringMap#0") }
					stopAtParser := func(v ssa.Value) (Origin, bool) {
						if ex, ok := v.(*ssa.Extract); ok && ex.Index == 0 {
							if call, ok := ex.Tuple.(*ssa.Call); ok {
								if f := call.Call.StaticCallee(); f != nil && f.Name() == "JSONToPlainStringMap" {
									return Origin{Kind: "call", Name: qualName(f) + "#0", Val: v}, true
								}
							}
						}
						return Origin{}, false
					}
					okSet = hasOrigin(Origins(ci.Arg(0), FlowOpts{}), isParsed) || hasOrigin(Origins(ci.Arg(0), FlowOpts{Interproc: 3, Stop: stopAtParser}), isParsed)
				}
			}
		}
		// the store method may travel as a function value: store(tmap) with store = i18.Set / i18.SetDefault
		// at every place the loader is entered
		if !okSet {
			var wide []*ssa.Function
			seenW := map[*ssa.Function]bool{}
			for _, g := range group {
				for _, h := range append([]*ssa.Function{g}, reachableSamePkg(g, 2)...) {
					if !seenW[h] {
						seenW[h] = true
						wide = append(wide, h)
					}
				}
			}
			for _, g := range wide {
				for _, ci := range Calls(g) {
					pp, isP := ci.Common.Value.(*ssa.Parameter)
					if !isP || ci.Static != nil || ci.Method != nil || len(ci.Common.Args) != 1 {
						continue
					}
					isParsed := func(o Origin) bool { return o.Kind == "call" && strings.Contains(o.Name, "JSONToPlainStringMap#0") }
					if !hasOrigin(Origins(ci.Arg(0), FlowOpts{}), isParsed) {
						continue
					}
					vals := []ssa.Value{pp}
					okAll := true
					for depth := 0; depth < 4; depth++ {
						var next []ssa.Value
						again := false
						for _, v := range vals {
							// a captured variable of the enclosing function
							rv := resolve(v)
							var fv *ssa.FreeVar
							if x, isFV := rv.(*ssa.FreeVar); isFV {
								fv = x
							} else if u, isU := rv.(*ssa.UnOp); isU && u.Op == token.MUL {
								fv, _ = u.X.(*ssa.FreeVar)
							}
							if fv != nil {
								b := bindingOf(fv)
								if a, isA := b.(*ssa.Alloc); isA {
									if st := uniqueStore(a); st != nil {
										b = st.Val
									}
								}
								if b != nil {
									next = append(next, b)
									again = true
									continue
								}
							}
							if p2, isP2 := resolve(v).(*ssa.Parameter); isP2 {
								ls := liftSites(p2)
								if len(ls) == 0 {
									okAll = false
								}
								next = append(next, ls...)
								again = true
								continue
							}
							next = append(next, v)
						}
						vals = next
						if !again {
							break
						}
					}
					for _, v := range vals {
						mc, isMC := resolve(v).(*ssa.MakeClosure)
						if !isMC {
							okAll = false
							continue
						}
						fn, _ := mc.Fn.(*ssa.Function)
						if fn == nil || !(strings.HasSuffix(fn.Name(), "Set$bound") || strings.HasSuffix(fn.Name(), "SetDefault$bound")) {
							okAll = false
						}
					}
					if okAll && len(vals) > 0 {
						okSet = true
					}
				}
			}
		}
		c.Check(okSet, "R5", "callback merges the parsed map", onFile.Pos(), "i18.Set(parsed map)", "the parsed translations are not handed to the store")
	}
	// Run -> Wait -> Errors, in Load or in a private helper whose result Load returns
	runFn := load
	find := func(g *ssa.Function) (runC, waitC, errsC ssa.Instruction) {
		for _, ci := range Calls(g) {
			if ci.Static == nil {
				continue
			}
			switch qualName(ci.Static) {
			case mq(loopPkg, "Loop", "Run"):
				runC = ci.Instr
			case mq(loopPkg, "Loop", "Wait"):
				waitC = ci.Instr
			case mq(loopPkg, "Loop", "Errors"):
				errsC = ci.Instr
			}
		}
		return
	}
	runC, waitC, errsC := find(load)
	handsOn := true
	if runC == nil {
		for _, g := range reachableSamePkg(load, 2) {
			if r, w, e := find(g); r != nil && w != nil && e != nil {
				runC, waitC, errsC, runFn = r, w, e, g
				handsOn = false
				for _, ci := range Calls(load) {
					if ci.Static == g {
						for _, r := range returnsOf(load) {
							if resolve(r.Results[0]) == ci.Value() {
								handsOn = true
							}
						}
					}
				}
			}
		}
	}
	okL := handsOn && runC != nil && waitC != nil && errsC != nil && dominates(runC, waitC) && dominates(waitC, errsC)
	if okL {
		okL = false
		for _, r := range returnsOf(runFn) {
			if derivesFrom(r.Results[0], errsC.(ssa.Value), 0) {
				okL = true
			}
		}
	}
	c.Check(okL, "R5", "fsi18loader.Load runs, waits, reports", load.Pos(), "Run -> Wait -> return ToError(Errors())", "Load does not wait for the walk before collecting (or does not return) the loop's errors")

	// ---- R7 the walker behind Load visits every entry ----
	c.Floor("R7", ruleWalkersVisitAll(c, "R7"), 2)
}

// noBackslashIn: the facts say that byte slice / string v contains no backslash.
func noBackslashIn(fs factSet, v ssa.Value) bool { return charAbsentIn(fs, v, '\\') }

// charAbsentIn: the facts say that byte slice / string v does not contain the byte ch
// (IndexByte(v, ch) == -1 / < 0, !Contains(v, "ch"), ...).
func charAbsentIn(fs factSet, v ssa.Value, ch byte) bool {
	isCh := func(a ssa.Value) bool {
		if k, ok := constInt(a); ok && k == int64(ch) {
			return true
		}
		if s, ok := constString(a); ok && s == string([]byte{ch}) {
			return true
		}
		if cv, ok := a.(*ssa.Convert); ok {
			if s, ok := constString(cv.X); ok && s == string([]byte{ch}) {
				return true
			}
		}
		return false
	}
	for k := range fs {
		if call, ok := k.v.(*ssa.Call); ok && !k.pol {
			if f := call.Call.StaticCallee(); f != nil {
				switch qualName(f) {
				case "bytes.Contains", "strings.Contains", "bytes.ContainsRune", "strings.ContainsRune", "bytes.ContainsAny", "strings.ContainsAny":
					if (resolve(call.Call.Args[0]) == v || sameValue(resolve(call.Call.Args[0]), v)) && isCh(call.Call.Args[1]) {
						return true
					}
				}
			}
		}
		bo, ok := k.v.(*ssa.BinOp)
		if !ok {
			continue
		}
		call, ok := resolve(bo.X).(*ssa.Call)
		if !ok {
			continue
		}
		f := call.Call.StaticCallee()
		if f == nil {
			continue
		}
		switch qualName(f) {
		case "bytes.IndexByte", "strings.IndexByte", "bytes.IndexRune", "strings.IndexRune", "bytes.Index", "strings.Index":
		default:
			continue
		}
		if !(resolve(call.Call.Args[0]) == v || sameValue(resolve(call.Call.Args[0]), v)) || !isCh(call.Call.Args[1]) {
			continue
		}
		kk, isK := constInt(bo.Y)
		if !isK {
			continue
		}
		absent := (bo.Op == token.EQL && kk == -1 && k.pol) || (bo.Op == token.NEQ && kk == -1 && !k.pol) ||
			(bo.Op == token.LSS && kk == 0 && k.pol) || (bo.Op == token.GEQ && kk == 0 && !k.pol) ||
			(bo.Op == token.LEQ && kk == -1 && k.pol) || (bo.Op == token.GTR && kk == -1 && !k.pol)
		if absent {
			return true
		}
	}
	return false
}
