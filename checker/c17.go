package main

import (
	"fmt"
	"go/token"
	"go/types"
	"strconv"
	"strings"

	"golang.org/x/tools/go/ssa"
)

func init() {
	register(&PropDef{ID: "C17", Title: "Command-line splitting is total, byte-preserving and reversible for quoted input", Rules: rulesC17,
		Explanation: "Decided (structural necessary conditions, varutil.ReadArguments and argscope): R1 predicate abstraction over the joint state (isEscaped, isSeparated, emptiness of args): at every `args[len(args)-1]` the argument list is non-empty in every reachable abstract state (no index -1 panic, no gluing onto a previous argument's slot that does not exist); R2 no integer->string conversion of a value derived from an input byte unless branch facts bound it below 0x80 on every incoming edge (bytes are appended as bytes, not re-encoded as runes); R3 every Read on the input uses a buffer of constant length 1 and the reader is handed to nothing else (reading stops exactly at the command's newline); R4 every cycle of the CFG contains a Read whose failing edge leaves the loop (termination on finite input); R5 every tail slice x[:len(x)-k] is dominated by strings.HasSuffix(x, s) with len(s) >= k; R6 the escape flag covers exactly one byte: it is true on a back edge of the main loop only on the edge that has just consumed the backslash; R7 the heredoc body is trimmed only with a constant cutset of blanks (space, tab); R8 positional arguments reach the scope unchanged (no prefix trimming) and are numbered $0,$1,... in order, named ones are split at the first '='. " +
			"Added in round 2: R3 also covers the callers — every reader handed to ReadArguments in the module is the caller's own reader, never a read-ahead wrapper (bufio.NewReader ...) created for the call, and varutil.SplitArguments returns nothing but ReadArguments' results (no second tokeniser); R8 also requires that no iteration of InjectArgs' argument loop goes round without a SetValue (a skipped argument shifts the positional numbering). " +
			"Added in round 5: R5 also requires that the end of the heredoc body is decided by strings.HasSuffix(body, terminator) with the terminator built from the input (an incremental matcher that resets on mismatch misses a terminator preceded by a partial match); R9 between two Reads the byte just read was put into an argument / marker / body or was found equal to a constant on that path (path-sensitive over short-circuit conditions) — no input byte is dropped silently (e.g. by a comment option whose zero default is the NUL byte). " +
			"Added in round 6: R1 also accepts the last-element index inside a function literal of the tokeniser when it is guarded by a non-emptiness test of the same list; R5 treats two String() readings of one strings.Builder with no write in between as the same string; R8 follows a positional-key helper with a precomputed table of the first keys. " +
			"Added in round 7: R5 accepts bytes.HasSuffix beside strings.HasSuffix and judges tail cuts of byte slices as well. " +
			"NOT decided: the tokenisation semantics as a whole (quotes, escapes, heredoc content), reversibility against a reference quoting function.",
	})
}

func rulesC17(c *Ctx) {
	f := c.P.Func("varutil", "", "ReadArguments")
	if f == nil {
		c.Bad("anchor", "varutil.ReadArguments", 0, "anchor not found; cannot certify")
		return
	}
	api := f
	// the tokeniser itself may be a private worker the exported function only forwards to
	if w := workerOf(f); w != f {
		c.Note("varutil.ReadArguments forwards to %s", fname(w))
		f = w
	}
	facts := factsFor(f)
	abs := AbsExplore(f)
	c.Stats["abs_tracked_phis"] = len(abs.Phis)
	nst := 0
	for _, m := range abs.States {
		nst += len(m)
	}
	c.Stats["abs_states"] = nst

	// ---- R1 last-argument index ----------------------------------------------------
	n1 := 0
	eachInstr(f, func(b *ssa.BasicBlock, _ int, in ssa.Instruction) {
		ia, ok := in.(*ssa.IndexAddr)
		if !ok {
			return
		}
		bo, ok := ia.Index.(*ssa.BinOp)
		if !ok || bo.Op != token.SUB || !isLenOf(bo.X, ia.X) {
			return
		}
		if k, ok := constInt(bo.Y); !ok || k != 1 {
			return
		}
		n1++
		con := fmt.Sprintf("last-element index #%d in varutil.ReadArguments", n1)
		bad := ""
		envs := abs.EnvsAt(b)
		for _, env := range envs {
			if absEval(ia.X, env, 0) != absTrue {
				bad = env.String()
			}
		}
		if len(envs) == 0 {
			bad = "unreachable in the abstraction"
		}
		c.Check(bad == "", "R1", con, ia.Pos(), fmt.Sprintf("the list is non-empty in all %d reachable abstract states", len(envs)),
			"the list may be empty in abstract state ("+bad+") — input such as a leading backslash indexes at -1 (panic) or glues the byte onto the previous argument")
	})
	// the index may sit in a function literal of the tokeniser (flush()): there it is guarded by an
	// explicit non-emptiness test of the same list
	for _, an := range f.AnonFuncs {
		afacts := factsFor(an)
		eachInstr(an, func(b *ssa.BasicBlock, _ int, in ssa.Instruction) {
			ia, ok := in.(*ssa.IndexAddr)
			if !ok {
				return
			}
			bo, ok := ia.Index.(*ssa.BinOp)
			if !ok || bo.Op != token.SUB || !isLenOf(bo.X, ia.X) {
				return
			}
			if k, ok := constInt(bo.Y); !ok || k != 1 {
				return
			}
			n1++
			guarded := afacts.HoldsOnAllEdges(b, func(fs factSet) bool {
				for k := range fs {
					cmp, ok := k.v.(*ssa.BinOp)
					if !ok {
						continue
					}
					kv, isK := constInt(cmp.Y)
					if !isK || !isLenOf(cmp.X, ia.X) && !sameLenOperand(cmp.X, ia.X) {
						continue
					}
					nonEmpty := (cmp.Op == token.NEQ && k.pol && kv == 0) || (cmp.Op == token.EQL && !k.pol && kv == 0) || (cmp.Op == token.GTR && k.pol && kv == 0) || (cmp.Op == token.GEQ && k.pol && kv == 1)
					if nonEmpty {
						return true
					}
				}
				return false
			})
			c.Check(guarded, "R1", fmt.Sprintf("last-element index #%d in %s", n1, fname(an)), ia.Pos(), "guarded by a non-emptiness test of the same list",
				"the list may be empty where its last element is addressed — index -1 (panic)")
		})
	}
	c.Floor("R1", n1, 1)

	// ---- R2 bytes are not re-encoded ---------------------------------------------------
	n2 := 0
	eachInstr(f, func(b *ssa.BasicBlock, _ int, in ssa.Instruction) {
		cv, ok := in.(*ssa.Convert)
		if !ok || !isStringy(cv.Type()) {
			return
		}
		bt, ok := cv.X.Type().Underlying().(*types.Basic)
		if !ok || bt.Info()&types.IsInteger == 0 {
			return
		}
		n2++
		con := fmt.Sprintf("integer->string conversion #%d in varutil.ReadArguments", n2)
		ub, okb := upperBoundAt(facts, b, cv.X, 0)
		if !okb || ub >= 0x80 {
			// guarded by a private predicate over the value (isMarkerChar(ch)) that only accepts ASCII
			if facts.HoldsOnAllEdges(b, func(fs factSet) bool {
				for k := range fs {
					call, isCall := k.v.(*ssa.Call)
					if !isCall || !k.pol {
						continue
					}
					g := call.Call.StaticCallee()
					if g == nil || !inModule(g) || len(call.Call.Args) != 1 || !(call.Call.Args[0] == cv.X || sameValue(call.Call.Args[0], cv.X)) {
						continue
					}
					if predicateImpliesASCII(g) {
						return true
					}
				}
				return false
			}) {
				ub, okb = 0x7f, true
			}
		}
		c.Check(okb && ub < 0x80, "R2", con, cv.Pos(), fmt.Sprintf("operand proven <= %d (ASCII) on every incoming edge", ub),
			"a byte-derived integer is converted with string(rune) without being proven ASCII — bytes >= 0x80 come back as two bytes")
	})
	c.Stats["instances:R2"] = n2

	// ---- R3 no over-read ----------------------------------------------------------------------
	reader := f.Params[0]
	n3 := 0
	okUse := true
	for _, r := range *reader.Referrers() {
		switch x := r.(type) {
		case *ssa.DebugRef:
		case *ssa.Call:
			if x.Call.IsInvoke() && x.Call.Value == ssa.Value(reader) && x.Call.Method.Name() == "Read" {
				n3++
				buf := x.Call.Args[0]
				one := false
				if sl, ok := buf.(*ssa.Slice); ok {
					if a, ok := sl.X.(*ssa.Alloc); ok && constMakeLen(a) == 1 {
						one = true
					}
				}
				if ms, ok := buf.(*ssa.MakeSlice); ok {
					if k, ok := constInt(ms.Len); ok && k == 1 {
						one = true
					}
				}
				if !one {
					// the buffer is handed in by the callers: every one of them passes a one-byte buffer
					one = oneByteBuf(c.P, buf, 0)
				}
				c.Check(one, "R3", fmt.Sprintf("Read #%d on the input", n3), x.Pos(), "buffer of constant length 1", "the input is read with a buffer longer than one byte — bytes after the command's newline are swallowed and the next call misses the start of the next command")
				continue
			}
			// a private helper that itself only Reads, with the caller's one-byte buffer
			if cf := x.Call.StaticCallee(); cf != nil && inModule(cf) {
				okHelper := false
				for ai, a := range x.Call.Args {
					if a == ssa.Value(reader) && ai < len(cf.Params) {
						okHelper = helperOnlyReadsOneByte(cf, ai, x.Call.Args)
					}
				}
				if okHelper {
					n3++
					continue
				}
			}
			okUse = false
		default:
			okUse = false
		}
	}
	c.Check(okUse, "R3", "the input reader is only Read from", f.Pos(), "no wrapper (bufio, ReadAll, ...)", "the reader is handed to something else that may read ahead")
	c.Floor("R3", n3, 2)
	ruleSplitterCallers(c, api)

	// ---- R4 every cycle consumes input -------------------------------------------------------------
	{
		hasRead := map[*ssa.BasicBlock]bool{}
		for _, ci := range Calls(f) {
			if ci.Method != nil && ci.Method.Name() == "Read" && ci.Recv() == ssa.Value(reader) {
				hasRead[ci.Block] = true
			}
		}
		// a cycle avoiding all Read blocks?
		color := map[*ssa.BasicBlock]int{}
		var cyc *ssa.BasicBlock
		var dfs func(b *ssa.BasicBlock)
		dfs = func(b *ssa.BasicBlock) {
			color[b] = 1
			for _, s := range b.Succs {
				if hasRead[s] {
					continue
				}
				if color[s] == 1 {
					cyc = s
				} else if color[s] == 0 {
					dfs(s)
				}
			}
			color[b] = 2
		}
		for _, b := range f.Blocks {
			if color[b] == 0 && !hasRead[b] {
				dfs(b)
			}
		}
		okc := cyc == nil
		why := ""
		if !okc {
			why = "a loop (through the block at " + c.pos(firstPos(cyc)) + ") can iterate without reading input"
		}
		// the failing edge of each Read leaves: no back edge under "err != nil"
		for _, ci := range Calls(f) {
			if ci.Method == nil || ci.Method.Name() != "Read" || ci.Recv() != ssa.Value(reader) {
				continue
			}
			call := ci.Instr.(*ssa.Call)
			for _, ev := range resultN(call, 1) {
				for _, e := range loopBackEdges(f) {
					if knownNilIn(factsOnEdge(facts, e[0], e[1]), ev, false) {
						okc, why = false, "a loop continues after the input reported an error"
					}
				}
			}
		}
		c.Check(okc, "R4", "every loop iteration consumes input or exits", f.Pos(), "no cycle without a Read; a failing Read leaves", why+" — splitting may not terminate")
	}

	// ---- R5 tail slicing ---------------------------------------------------------------------------
	n5 := 0
	for _, f := range append([]*ssa.Function{f}, privateHelpersOf(f)...) {
		facts := factsFor(f)
		eachInstr(f, func(b *ssa.BasicBlock, _ int, in ssa.Instruction) {
			sl, ok := in.(*ssa.Slice)
			if !ok || sl.High == nil || (!isStringy(sl.X.Type()) && !isByteSlice(sl.X.Type())) {
				return
			}
			bo, ok := sl.High.(*ssa.BinOp)
			if !ok || bo.Op != token.SUB || !isLenOf(bo.X, sl.X) {
				return
			}
			n5++
			con := fmt.Sprintf("tail slice #%d in varutil.ReadArguments", n5)
			okS := false
			for k := range facts.At(b) {
				call, isCall := k.v.(*ssa.Call)
				if !isCall || !k.pol {
					continue
				}
				if cf := call.Call.StaticCallee(); cf == nil || !isHasSuffixFn(cf) {
					continue
				}
				if !sameStringValue(call.Call.Args[0], sl.X, call, sl) {
					continue
				}
				suf := call.Call.Args[1]
				if kk, isK := constInt(bo.Y); isK {
					if s, isS := constString(suf); isS && int64(len(s)) >= kk {
						okS = true
					}
				} else if isLenOf(bo.Y, suf) {
					okS = true
				}
			}
			// the guarantee may be the helper's precondition: the sliced string is a parameter and
			// every call site passes a value already known to end with a long-enough constant suffix
			if pp, isP := sl.X.(*ssa.Parameter); isP && !okS {
				if kk, isK := constInt(bo.Y); isK {
					pi := -1
					for i, q := range f.Params {
						if q == pp {
							pi = i
						}
					}
					sites, good := 0, true
					for _, g := range append([]*ssa.Function{c.P.Func("varutil", "", "ReadArguments")}, privateHelpersOf(c.P.Func("varutil", "", "ReadArguments"))...) {
						if g == nil {
							continue
						}
						gf := factsFor(g)
						for _, ci := range Calls(g) {
							if ci.Static != f || pi < 0 || pi >= len(ci.Common.Args) {
								continue
							}
							sites++
							arg := ci.Common.Args[pi]
							found := false
							for k := range gf.At(ci.Block) {
								call, isCall := k.v.(*ssa.Call)
								if !isCall || !k.pol {
									continue
								}
								if cf := call.Call.StaticCallee(); cf == nil || !isHasSuffixFn(cf) {
									continue
								}
								if !sameStringValue(call.Call.Args[0], arg, call, ci.Instr) {
									continue
								}
								if sfx, isS := constString(call.Call.Args[1]); isS && int64(len(sfx)) >= kk {
									found = true
								}
							}
							if !found {
								good = false
							}
						}
					}
					if sites > 0 && good {
						okS = true
					}
				}
			}
			c.Check(okS, "R5", con, sl.Pos(), "dominated by HasSuffix of the same string with a suffix at least as long as what is cut", "the tail is cut without a dominating HasSuffix guarantee — a short string slices out of range (panic)")
		})
	}
	c.Floor("R5", n5, 1)
	// the heredoc body ends where the accumulated body has the terminator ("\n"+marker, built from the
	// input) as a suffix: a suffix test on the whole accumulated value cannot miss a terminator that
	// overlaps a partial match (an incremental matcher that resets on mismatch can)
	{
		var term *CallInfo
		for _, g := range append([]*ssa.Function{f}, privateHelpersOf(f)...) {
			for _, ci := range Calls(g) {
				if ci.Static != nil && isHasSuffixFn(ci.Static) {
					if _, isConst := constString(ci.Arg(1)); !isConst {
						term = ci
					}
				}
			}
		}
		c.Check(term != nil, "R5", "heredoc terminator found by a suffix test", f.Pos(), "strings.HasSuffix(body, \"\\n\"+marker) decides the end of the body",
			"the tokeniser no longer tests the accumulated heredoc body for the terminator with strings.HasSuffix — cannot certify that a terminator preceded by a partial match (an empty last line, a line that is a prefix of the marker) is found")
	}

	// ---- R6 the escape flag covers one byte -------------------------------------------------------------
	esc := abs.PhiNamed("isEscaped")
	if esc == nil {
		c.Bad("R6", "escape flag of varutil.ReadArguments", f.Pos(), "cannot find the loop-carried escape flag; cannot certify")
	} else {
		h := esc.Block()
		bad := ""
		n := 0
		for i, p := range h.Preds {
			if !h.Dominates(p) {
				continue // entry edge
			}
			n++
			setHere := false
			if b, ok := constBool(esc.Edges[i]); ok && b {
				setHere = true
			}
			for _, env := range abs.Edges[[2]*ssa.BasicBlock{p, h}] {
				v, _ := env.get(esc)
				if v != absFalse && !setHere {
					bad = fmt.Sprintf("the loop is re-entered from the block at %s with the escape flag %s without a backslash having just been consumed", c.pos(firstPos(p)), v)
				}
			}
		}
		c.Check(bad == "" && n >= 3, "R6", "escape flag of varutil.ReadArguments", esc.Pos(), fmt.Sprintf("false on %d back edges, true only right after the backslash", n),
			bad+" — the escape leaks onto a later byte (a continuation line's first quote, the next command's newline)")
	}

	// ---- R9 no input byte is dropped: between two Reads the byte just read was either put into an
	// argument / the heredoc marker or body, or it was found equal to a constant (a syntax byte) ----
	{
		n9 := 0
		for _, g := range append([]*ssa.Function{f}, privateHelpersOf(f)...) {
			var reads []*ssa.Call
			for _, ci := range Calls(g) {
				if call, ok := ci.Instr.(*ssa.Call); ok && call.Call.IsInvoke() && call.Call.Method.Name() == "Read" && len(call.Call.Args) == 1 {
					reads = append(reads, call)
				}
			}
			isRead := map[ssa.Instruction]bool{}
			for _, r := range reads {
				isRead[r] = true
			}
			for _, R := range reads {
				bufv := R.Call.Args[0]
				var isD func(v ssa.Value, d int) bool
				isD = func(v ssa.Value, d int) bool {
					if v == nil || d > 6 {
						return false
					}
					switch x := v.(type) {
					case *ssa.UnOp:
						if x.Op == token.MUL {
							if ia, ok := x.X.(*ssa.IndexAddr); ok && (ia.X == bufv || resolve(ia.X) == resolve(bufv)) {
								return true
							}
							// a local variable that holds the byte (ch)
							if a, ok := x.X.(*ssa.Alloc); ok {
								for _, rf := range *a.Referrers() {
									if st, ok := rf.(*ssa.Store); ok && st.Addr == ssa.Value(a) && isD(st.Val, d+1) {
										return true
									}
								}
							}
						}
					case *ssa.Convert:
						return x.X == bufv || isD(x.X, d+1)
					case *ssa.ChangeType:
						return isD(x.X, d+1)
					case *ssa.Slice:
						return x.X == bufv
					case *ssa.Phi:
						for _, e := range x.Edges {
							if e != v && isD(e, d+1) {
								return true
							}
						}
					}
					return v == bufv
				}
				isUse := func(in ssa.Instruction) bool {
					if isRead[in] {
						return false
					}
					switch x := in.(type) {
					case *ssa.BinOp:
						return x.Op == token.ADD && (isD(x.X, 0) || isD(x.Y, 0))
					case *ssa.Call:
						for _, a := range x.Call.Args {
							if isD(a, 0) {
								return true
							}
						}
					case *ssa.Store:
						if _, local := x.Addr.(*ssa.Alloc); !local && isD(x.Val, 0) {
							return true
						}
					}
					return false
				}
				n9++
				type st struct {
					b, pred *ssa.BasicBlock
					acc     bool
				}
				seen := map[st]bool{}
				bad := token.NoPos
				var walk func(b *ssa.BasicBlock, from int, acc bool, pred *ssa.BasicBlock)
				walk = func(b *ssa.BasicBlock, from int, acc bool, pred *ssa.BasicBlock) {
					for i := from; i < len(b.Instrs); i++ {
						in := b.Instrs[i]
						if isRead[in] {
							if !acc && bad == token.NoPos {
								bad = in.Pos()
							}
							return
						}
						if _, isRet := in.(*ssa.Return); isRet {
							return
						}
						if isUse(in) {
							acc = true
						}
					}
					var iff *ssa.If
					if len(b.Instrs) > 0 {
						iff, _ = b.Instrs[len(b.Instrs)-1].(*ssa.If)
					}
					// the condition as this path computed it: `a || b` evaluated as a value is a phi of
					// constants and the last operand
					var cond ssa.Value
					if iff != nil {
						cond = iff.Cond
						if ph, isPhi := cond.(*ssa.Phi); isPhi && ph.Block() == b && pred != nil {
							for pi, pb := range b.Preds {
								if pb == pred && pi < len(ph.Edges) {
									cond = ph.Edges[pi]
								}
							}
						}
					}
					for si, sc := range b.Succs {
						a2 := acc
						if cb, isConst := constBool(cond); isConst && iff != nil && len(b.Succs) == 2 {
							if cb != (si == 0) {
								continue // not taken on this path
							}
						}
						if iff != nil && len(b.Succs) == 2 {
							if bo, ok := cond.(*ssa.BinOp); ok && (bo.Op == token.EQL || bo.Op == token.NEQ) {
								_, cy := bo.Y.(*ssa.Const)
								_, cx := bo.X.(*ssa.Const)
								if (cy && isD(bo.X, 0)) || (cx && isD(bo.Y, 0)) {
									if (bo.Op == token.EQL) == (si == 0) {
										a2 = true
									}
								}
							}
						}
						k := st{sc, b, a2}
						if seen[k] {
							continue
						}
						seen[k] = true
						walk(sc, 0, a2, b)
					}
				}
				walk(R.Block(), instrIndex(R)+1, false, nil)
				c.Check(bad == token.NoPos, "R9", fmt.Sprintf("byte of Read #%d in %s is accounted for", n9, fname(g)), R.Pos(), "used in an argument / marker / body, or equal to a syntax constant, before the next Read",
					"the next Read at "+c.pos(bad)+" is reachable with the byte neither kept nor recognised as a syntax byte — input bytes are dropped silently (words no longer come back byte for byte)")
			}
		}
		c.Floor("R9", n9, 3)
	}

	// ---- R7 heredoc trimming --------------------------------------------------------------------------------
	n7 := 0
	for _, ci := range Calls(f) {
		if ci.Static == nil || ci.Static.Pkg == nil || ci.Static.Pkg.Pkg.Path() != "strings" || !strings.HasPrefix(ci.Static.Name(), "Trim") {
			continue
		}
		n7++
		con := "trim of the heredoc body (" + ci.Static.Name() + ")"
		switch ci.Static.Name() {
		case "Trim", "TrimLeft", "TrimRight":
			cut, ok := constString(ci.Arg(1))
			okc := ok && cut != ""
			for _, r := range cut {
				if r != ' ' && r != '\t' {
					okc = false
				}
			}
			c.Check(okc, "R7", con, ci.Pos(), fmt.Sprintf("constant cutset %q (blanks only)", cut), fmt.Sprintf("the cutset %q removes more than blanks — heredoc text between the marker lines is altered", cut))
		case "TrimSpace":
			c.Bad("R7", con, ci.Pos(), "TrimSpace also removes newlines, carriage returns and Unicode spaces (e.g. bytes C2 A0): leading/trailing empty lines and non-ASCII bytes of the heredoc body are lost")
		default:
			c.OK("R7", con, ci.Pos(), "prefix/suffix trim with an explicit argument")
		}
	}
	c.Stats["instances:R7"] = n7

	// ---- R8 argscope mapping ------------------------------------------------------------------------------------
	ruleArgMapping(c)
}

func firstPos(b *ssa.BasicBlock) token.Pos {
	for _, in := range b.Instrs {
		if in.Pos().IsValid() {
			return in.Pos()
		}
	}
	for _, s := range b.Succs {
		for _, in := range s.Instrs {
			if in.Pos().IsValid() {
				return in.Pos()
			}
		}
	}
	return token.NoPos
}

// sameStringValue: a and b are the same register, or loads of the same
// address with no store to it between the two uses.
func sameStringValue(a, b ssa.Value, from, to ssa.Instruction) bool {
	if a == b || sameValue(a, b) {
		return true
	}
	la, ok1 := a.(*ssa.UnOp)
	lb, ok2 := b.(*ssa.UnOp)
	if ok1 && ok2 && la.Op == token.MUL && lb.Op == token.MUL && la.X == lb.X {
		for _, r := range *la.X.Referrers() {
			if st, ok := r.(*ssa.Store); ok && st.Addr == la.X {
				if dominates(la, lb) && reachAvoiding(la, st, la.Block()) && reachAvoiding(st, lb, la.Block()) {
					return false
				}
			}
		}
		return true
	}
	// b is a phi/slice of a?  (value := value[:...] patterns use the same register)
	return false
}

func ruleArgMapping(c *Ctx) {
	inj := c.P.Func("app/scope/argscope", "", "InjectArgs")
	if inj == nil {
		c.Bad("R8", "argscope.InjectArgs", 0, "anchor not found")
		return
	}
	n := 0
	for _, ci := range Calls(inj) {
		if ci.Method == nil || ci.Method.Name() != "SetValue" {
			continue
		}
		key, val := ci.Arg(0), ci.Arg(1)
		kv := unwrapIface(key)
		// the key may be built by a tiny private helper (positionalKey(i)): use what it returns
		if call, isCall := resolve(kv).(*ssa.Call); isCall {
			if h := call.Call.StaticCallee(); h != nil && h.Pkg == inj.Pkg && h.Blocks != nil && len(returnsOf(h)) == 1 {
				kv = returnsOf(h)[0].Results[0]
			} else if h != nil && h.Pkg == inj.Pkg && h.Blocks != nil && len(returnsOf(h)) > 1 {
				// "$"+Itoa(i), with a precomputed table of the first keys ("$0", "$1", ...) in front of it
				var gen ssa.Value
				okAll := true
				for _, r := range returnsOf(h) {
					rv := resolve(r.Results[0])
					if ps := flattenTemplate(rv); len(ps) > 0 && ps[0].hole == "" && strings.HasPrefix(ps[0].konst, "$") && len(ps) > 1 {
						gen = rv
						continue
					}
					if !isPositionalKeyTable(rv, h) {
						okAll = false
					}
				}
				if okAll && gen != nil {
					kv = gen
				}
			}
		}
		kparts := flattenTemplate(kv)
		if len(kparts) == 0 || !(kparts[0].hole == "" && strings.HasPrefix(kparts[0].konst, "$")) {
			continue
		}
		n++
		// positional: value is the range element itself
		os := Origins(unwrapIface(val), FlowOpts{})
		clean := true
		why := ""
		for _, o := range os {
			for _, st := range o.Path {
				if strings.HasPrefix(st, "Trim") || strings.HasPrefix(st, "Replace") || strings.HasPrefix(st, "To") {
					clean, why = false, "a positional argument passes through strings."+st
				}
			}
			if o.Kind == "call" && !strings.Contains(o.Name, "argscope.SeparateArgs#") {
				clean, why = false, "a positional argument is the result of "+o.Name
			}
		}
		// an argument is positional exactly when it contains no '=': the store is reached only where that
		// is established - directly, or through a private classifier that says "not named" only there
		{
			facts := factsFor(inj)
			argv := resolve(unwrapIface(val))
			noEq := facts.HoldsOnAllEdges(ci.Block, func(fs factSet) bool {
				if charAbsentIn(fs, argv, '=') {
					return true
				}
				for k := range fs {
					ex, isEx := resolve(k.v).(*ssa.Extract)
					if !isEx || k.pol {
						continue
					}
					call, isCall := ex.Tuple.(*ssa.Call)
					if !isCall {
						continue
					}
					h := call.Call.StaticCallee()
					if h == nil || h.Pkg != inj.Pkg || h.Blocks == nil {
						continue
					}
					pi := -1
					for i, a := range call.Call.Args {
						if resolve(a) == argv {
							pi = i
						}
					}
					if pi < 0 || pi >= len(h.Params) {
						continue
					}
					hf := factsFor(h)
					good, any := true, false
					for _, r := range returnsOf(h) {
						if ex.Index >= len(r.Results) {
							continue
						}
						if b, isC := constBool(resolve(r.Results[ex.Index])); isC && b {
							continue
						}
						any = true
						if !hf.HoldsOnAllEdges(r.Block(), func(fs2 factSet) bool { return charAbsentIn(fs2, h.Params[pi], '=') }) {
							good = false
						}
					}
					if good && any {
						return true
					}
				}
				return false
			})
			c.Check(noEq, "R8", "an argument is positional exactly when it has no '='", ci.Pos(), "the positional store is reached only where the argument is known to contain no '='",
				"the positional store can be reached with an argument that contains '=' (e.g. '=raw value', or any argument the classifier mislabels) — it takes a $n slot and shifts every later positional key")
		}
		c.Check(clean, "R8", "positional arguments are stored unchanged", ci.Pos(), "value = the argument as split", why+" — '-5' or '-' lose their dashes")
		// numbering: key = "$" + Itoa(counter) with counter a phi 0,+1 incremented after the store
		okN := false
		if len(kparts) == 2 {
			for _, o := range Origins(kparts[1].val, FlowOpts{LiftParams: 2, Transparent: func(ci *CallInfo) []ssa.Value {
				if ci.Static != nil && qualName(ci.Static) == "strconv.Itoa" {
					return ci.Common.Args
				}
				return nil
			}}) {
				if k, ok := constInt(o.Val); ok && k == 0 {
					okN = true
				}
			}
		}
		c.Check(okN, "R8", "positional arguments are numbered from $0", ci.Pos(), "\"$\" + Itoa(counter starting at 0)", "the positional key is not \"$\" followed by a counter that starts at 0")
	}
	c.Floor("R8", n, 1)
	// separate: first '='
	okS := false
	for _, g := range reachableSamePkg(inj, 2) {
		for _, ci := range Calls(g) {
			if ci.Static == nil {
				continue
			}
			switch qualName(ci.Static) {
			case "strings.Index", "strings.IndexByte", "strings.Cut":
				if s, ok := constString(ci.Arg(1)); ok && s == "=" {
					okS = true
				}
				if k, ok := constInt(ci.Arg(1)); ok && k == '=' {
					okS = true
				}
			case "strings.SplitN":
				if s, ok := constString(ci.Arg(1)); ok && s == "=" {
					if k, ok := constInt(ci.Arg(2)); ok && k == 2 {
						okS = true
					}
				}
			}
		}
	}
	// or a hand-written scan: an ascending loop from index 0 that stops at the first byte equal to '='
	if !okS {
		for _, g := range reachableSamePkg(inj, 2) {
			eachInstr(g, func(_ *ssa.BasicBlock, _ int, in ssa.Instruction) {
				bo, ok := in.(*ssa.BinOp)
				if !ok || (bo.Op != token.EQL && bo.Op != token.NEQ) {
					return
				}
				k, isK := constInt(bo.Y)
				if !isK || k != '=' {
					return
				}
				if ix, ok := bo.X.(*ssa.Index); ok && isStringy(ix.X.Type()) && ascendingIndex(ix.Index) {
					okS = true
				}
				if ld, ok := bo.X.(*ssa.UnOp); ok {
					if ia, ok := ld.X.(*ssa.IndexAddr); ok && ascendingIndex(ia.Index) {
						okS = true
					}
				}
			})
		}
	}
	c.Check(okS, "R8", "named arguments split at the first '='", inj.Pos(), "strings.Index(arg, \"=\")", "name/value are not separated at the first '=' (a value containing '=' is cut)")
	// every argument is mapped: no iteration of the argument loop goes round without a SetValue
	setEv := ipEvent(func(in ssa.Instruction) bool {
		ci := callInfo(in, nil, 0)
		return ci != nil && ci.Method != nil && ci.Method.Name() == "SetValue"
	}, 2)
	hasSet := func(b *ssa.BasicBlock) bool {
		for _, in := range b.Instrs {
			if setEv(in) {
				return true
			}
		}
		return false
	}
	skips := ""
	loops := 0
	// the argument loop: its counter indexes a []string
	isArgLoop := func(header *ssa.BasicBlock) bool {
		found := false
		eachInstr(inj, func(_ *ssa.BasicBlock, _ int, in ssa.Instruction) {
			ia, ok := in.(*ssa.IndexAddr)
			if !ok {
				return
			}
			sl, ok := ia.X.Type().Underlying().(*types.Slice)
			if !ok || !isStringy(sl.Elem()) {
				return
			}
			ix := ia.Index
			if bo, ok := ix.(*ssa.BinOp); ok {
				ix = bo.X
			}
			if ph, ok := ix.(*ssa.Phi); ok && ph.Block() == header {
				found = true
			}
		})
		return found
	}
	for _, e := range loopBackEdges(inj) {
		header := e[1]
		if !isArgLoop(header) {
			continue // an inner loop over the bytes of one argument
		}
		loops++
		seen := map[*ssa.BasicBlock]bool{}
		var work []*ssa.BasicBlock
		for _, sb := range header.Succs {
			if inSameLoop(inj, header, sb) {
				work = append(work, sb)
			}
		}
		for len(work) > 0 {
			b := work[len(work)-1]
			work = work[:len(work)-1]
			if b == header {
				skips = "an iteration of the argument loop returns to the loop head without having stored the argument"
				continue
			}
			if seen[b] || hasSet(b) {
				continue
			}
			seen[b] = true
			work = append(work, b.Succs...)
		}
	}
	c.Check(skips == "" && loops > 0, "R8", "every argument is mapped to a key", inj.Pos(), "each iteration passes SetValue (or returns)",
		skips+" — a skipped argument (e.g. an empty quoted one) shifts every later positional argument down by one: $1, $2, ... are no longer the arguments in order")
}

// ruleSplitterCallers (R3, callers): what is handed to ReadArguments is the
// caller's own reader, never a read-ahead wrapper created for the call; and
// SplitArguments is nothing but ReadArguments on the string.
func ruleSplitterCallers(c *Ctx, ra *ssa.Function) {
	n := 0
	readAhead := map[string]bool{"bufio.NewReader": true, "bufio.NewReaderSize": true, "bufio.NewReadWriter": true, "bufio.NewScanner": true, "io.TeeReader": true, "io.MultiReader": true}
	for _, f := range c.P.AllModuleFuncs() {
		for _, g := range withClosures(f) {
			for _, ci := range CallsTo(g, qualName(ra)) {
				n++
				bad := ""
				for _, o := range Origins(ci.Arg(0), FlowOpts{}) {
					if o.Kind == "call" {
						name := o.Name
						if i := strings.Index(name, "#"); i >= 0 {
							name = name[:i]
						}
						if readAhead[name] {
							bad = "the reader handed to ReadArguments is wrapped in " + name + " for this call"
						}
					}
				}
				c.Check(bad == "", "R3", "reader handed to ReadArguments in "+fname(g), ci.Pos(), "the caller's own reader (or a reader over the whole string)",
					bad+" — the wrapper reads ahead past the command's newline and is then dropped: the next call on the same input misses the following command(s)")
			}
		}
	}
	c.Floor("R3", n, 2)
	if sa := c.P.Func("varutil", "", "SplitArguments"); sa != nil {
		calls := CallsTo(sa, qualName(ra))
		bad := ""
		var pos token.Pos = sa.Pos()
		if len(calls) == 0 {
			bad = "SplitArguments no longer calls ReadArguments"
		}
		for _, r := range returnsOf(sa) {
			if len(r.Results) == 0 {
				continue
			}
			okR := false
			for _, call := range calls {
				for _, e := range resultN(call.Value(), 0) {
					if resolve(r.Results[0]) == e {
						okR = true
					}
				}
			}
			if !okR && len(calls) > 0 {
				// a constant answer for a special input cannot be judged here; a second tokeniser can
				derived := false
				for _, o := range Origins(r.Results[0], FlowOpts{Alias: true}) {
					if o.Kind == "call" || o.Kind == "param" || o.Kind == "unknown" {
						derived = true
					}
				}
				if derived {
					bad, pos = "a result of SplitArguments ("+vdesc(resolve(r.Results[0]))+") is not ReadArguments' result", r.Pos()
				}
			}
		}
		c.Check(bad == "", "R3", "varutil.SplitArguments is ReadArguments on the string", pos, "every return hands on ReadArguments' results",
			bad+" — a second tokeniser (e.g. strings.Fields, which also splits at \\v, \\f, U+0085, U+00A0) disagrees with the byte-level splitter on some inputs")
	}
}

func unwrapIface(v ssa.Value) ssa.Value {
	if mi, ok := v.(*ssa.MakeInterface); ok {
		return mi.X
	}
	return v
}

// reachAvoiding: a path from (after) a to b exists that does not enter block
// `avoid` again (a's own block may be left, not re-entered).
func reachAvoiding(a, b ssa.Instruction, avoid *ssa.BasicBlock) bool {
	if a.Block() == b.Block() && instrIndex(a) < instrIndex(b) {
		return true
	}
	seen := map[*ssa.BasicBlock]bool{}
	stack := append([]*ssa.BasicBlock{}, a.Block().Succs...)
	for len(stack) > 0 {
		x := stack[len(stack)-1]
		stack = stack[:len(stack)-1]
		if seen[x] {
			continue
		}
		seen[x] = true
		if x == b.Block() {
			return true
		}
		if x == avoid {
			continue
		}
		stack = append(stack, x.Succs...)
	}
	return false
}

// predicateImpliesASCII: g(x) bool returns true only for x < 0x80.
func predicateImpliesASCII(g *ssa.Function) bool {
	if g.Blocks == nil || len(g.Params) != 1 || g.Signature.Results().Len() != 1 || !isBoolT(g.Signature.Results().At(0).Type()) {
		return false
	}
	p := g.Params[0]
	facts := factsFor(g)
	var trueImplies func(v ssa.Value, fs factSet, depth int) bool
	trueImplies = func(v ssa.Value, fs factSet, depth int) bool {
		if depth > 6 {
			return false
		}
		if b, ok := constBool(v); ok {
			if !b {
				return true
			}
			ub, okb := ubFromFacts(fs, p)
			return okb && ub < 0x80
		}
		switch x := v.(type) {
		case *ssa.Phi:
			for i, e := range x.Edges {
				if !trueImplies(e, factsOnEdge(facts, x.Block().Preds[i], x.Block()), depth+1) {
					return false
				}
			}
			return true
		case *ssa.BinOp:
			if x.X == ssa.Value(p) {
				if k, ok := constInt(x.Y); ok {
					switch x.Op {
					case token.EQL, token.LEQ:
						return k < 0x80
					case token.LSS:
						return k <= 0x80
					}
				}
			}
			// a lower-bound comparison is only acceptable when an upper bound is already known
			ub, okb := ubFromFacts(fs, p)
			return okb && ub < 0x80
		}
		return false
	}
	for _, r := range returnsOf(g) {
		if !trueImplies(r.Results[0], facts.At(r.Block()), 0) {
			return false
		}
	}
	return true
}

// helperOnlyReadsOneByte: helper h uses its reader parameter (index ri) only to
// Read into a buffer that is itself a parameter bound, at the call, to a
// one-byte buffer.
func helperOnlyReadsOneByte(h *ssa.Function, ri int, callArgs []ssa.Value) bool {
	argOK := make([]bool, len(callArgs))
	for i, a := range callArgs {
		argOK[i] = isOneByteBuf(a)
	}
	return helperOnlyReadsOneByteD(h, ri, argOK, 0)
}

func isOneByteBuf(v ssa.Value) bool {
	if sl, ok := v.(*ssa.Slice); ok {
		if a, ok := sl.X.(*ssa.Alloc); ok && constMakeLen(a) == 1 {
			return true
		}
	}
	return false
}

// helperOnlyReadsOneByteD: parameter ri of h (the input reader) is only Read
// from with a one-byte buffer, or handed on to another private helper of the
// package for which the same holds.
func helperOnlyReadsOneByteD(h *ssa.Function, ri int, argOK []bool, depth int) bool {
	if h.Blocks == nil || depth > 3 || ri >= len(h.Params) {
		return false
	}
	rp := h.Params[ri]
	bufOK := func(v ssa.Value) bool {
		if isOneByteBuf(v) {
			return true
		}
		for bi, bp := range h.Params {
			if v == ssa.Value(bp) && bi < len(argOK) && argOK[bi] {
				return true
			}
		}
		return false
	}
	n := 0
	for _, r := range *rp.Referrers() {
		switch x := r.(type) {
		case *ssa.DebugRef:
		case *ssa.Call:
			if x.Call.IsInvoke() && x.Call.Value == ssa.Value(rp) && x.Call.Method.Name() == "Read" {
				n++
				if !bufOK(x.Call.Args[0]) {
					return false
				}
				continue
			}
			cf := x.Call.StaticCallee()
			if cf == nil || cf.Pkg != h.Pkg || cf.Blocks == nil {
				return false
			}
			inner := make([]bool, len(x.Call.Args))
			idx := -1
			for ai, a := range x.Call.Args {
				inner[ai] = bufOK(a)
				if a == ssa.Value(rp) {
					idx = ai
				}
			}
			if idx < 0 || !helperOnlyReadsOneByteD(cf, idx, inner, depth+1) {
				return false
			}
			n++
		default:
			return false
		}
	}
	return n > 0
}

// privateHelpersOf: unexported functions of f's package reachable from f that nobody else calls.
func privateHelpersOf(f *ssa.Function) []*ssa.Function {
	var out []*ssa.Function
	for _, g := range reachableSamePkg(f, 3) {
		if g != f && g.Parent() == nil && (g.Object() == nil || !g.Object().Exported()) {
			out = append(out, g)
		}
	}
	return out
}

// oneByteBuf: v is a byte slice of constant length 1: made so, or a parameter that every
// caller in the module fills with one, or a field that is only ever assigned one.
func oneByteBuf(p *Prog, v ssa.Value, depth int) bool {
	if depth > 3 {
		return false
	}
	v = resolve(v)
	switch x := v.(type) {
	case *ssa.MakeSlice:
		k, ok := constInt(x.Len)
		return ok && k == 1
	case *ssa.Slice:
		if a, ok := x.X.(*ssa.Alloc); ok && x.Low == nil {
			if x.High != nil {
				if k, isK := constInt(x.High); !isK || k != 1 {
					return false
				}
			}
			return constMakeLen(a) == 1
		}
		return false
	case *ssa.Parameter:
		g := x.Parent()
		idx := -1
		for i, pp := range g.Params {
			if pp == x {
				idx = i
			}
		}
		if idx < 0 || (g.Object() != nil && g.Object().Exported()) {
			return false
		}
		n := 0
		for _, h := range p.AllModuleFuncs() {
			for _, ci := range Calls(h) {
				if ci.Static != g {
					continue
				}
				n++
				if idx >= len(ci.Common.Args) || !oneByteBuf(p, ci.Common.Args[idx], depth+1) {
					return false
				}
			}
		}
		return n > 0
	case *ssa.UnOp:
		if x.Op != token.MUL {
			return false
		}
		fa, ok := x.X.(*ssa.FieldAddr)
		if !ok {
			return false
		}
		fld := fieldName(fa)
		n := 0
		okAll := true
		for _, h := range p.AllModuleFuncs() {
			eachInstr(h, func(_ *ssa.BasicBlock, _ int, in ssa.Instruction) {
				st, isSt := in.(*ssa.Store)
				if !isSt {
					return
				}
				if fa2, isFA := st.Addr.(*ssa.FieldAddr); isFA && fieldName(fa2) == fld {
					n++
					if !oneByteBuf(p, st.Val, depth+1) {
						okAll = false
					}
				}
			})
		}
		return n > 0 && okAll
	}
	return false
}

// sameLenOperand: lenCall is len(x) with x the same variable as y (two loads of one captured variable).
func sameLenOperand(lenCall, y ssa.Value) bool {
	lc, ok := lenCall.(*ssa.Call)
	if !ok {
		return false
	}
	if b, ok := lc.Call.Value.(*ssa.Builtin); !ok || b.Name() != "len" || len(lc.Call.Args) != 1 {
		return false
	}
	la, ok1 := lc.Call.Args[0].(*ssa.UnOp)
	lb, ok2 := y.(*ssa.UnOp)
	return ok1 && ok2 && la.Op == token.MUL && lb.Op == token.MUL && la.X == lb.X
}

// isPositionalKeyTable: v is T[i] for a package-level array T that init fills with "$0", "$1", ...
// (element k is "$"+k) and nothing else writes, and i is a parameter of h.
func isPositionalKeyTable(v ssa.Value, h *ssa.Function) bool {
	u, ok := v.(*ssa.UnOp)
	if !ok || u.Op != token.MUL {
		return false
	}
	ia, ok := u.X.(*ssa.IndexAddr)
	if !ok {
		return false
	}
	g, ok := ia.X.(*ssa.Global)
	if !ok || g.Pkg == nil {
		return false
	}
	if _, isParam := resolve(ia.Index).(*ssa.Parameter); !isParam {
		return false
	}
	n := 0
	okAll := true
	for _, m := range g.Pkg.Members {
		fn, isFn := m.(*ssa.Function)
		if !isFn {
			continue
		}
		for _, f := range withClosures(fn) {
			eachInstr(f, func(_ *ssa.BasicBlock, _ int, in ssa.Instruction) {
				st, isSt := in.(*ssa.Store)
				if !isSt {
					return
				}
				if st.Addr == ssa.Value(g) {
					okAll = false
					return
				}
				ea, isIA := st.Addr.(*ssa.IndexAddr)
				if !isIA || ea.X != ssa.Value(g) {
					return
				}
				k, isK := constInt(ea.Index)
				sv, isS := constString(st.Val)
				if f.Name() != "init" || !isK || !isS || sv != "$"+strconv.FormatInt(k, 10) {
					okAll = false
					return
				}
				n++
			})
		}
	}
	return okAll && n > 0
}

// isHasSuffixFn: strings.HasSuffix or its byte-slice twin.
func isHasSuffixFn(f *ssa.Function) bool {
	n := qualName(f)
	return n == "strings.HasSuffix" || n == "bytes.HasSuffix"
}
