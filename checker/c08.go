package main

import (
	"fmt"
	"go/token"
	"go/types"
	"strings"

	"golang.org/x/tools/go/ssa"
)

const loopPkg = "filesystem/fsloop"
const jobPkg = "workers/jobsync"

func init() {
	register(&PropDef{ID: "C08", Title: "Concurrent tree walk visits every selected node exactly once and then stops", Rules: rulesC08,
		Explanation: "Decided (structural necessary conditions, packages fsloop and jobsync, all paths): R1 the OnDir/OnFile callbacks are invoked only inside Consumer.Loop (never by a producer); R2 consumer goroutines are started only in a loop bounded by the amount the consumer pool granted, the pool's capacity derives from the configured consumer count, and Pool.Add grants at most max-counter; R3 Consumer.Loop defers pool.Done before its first callback and Loop.Wait reaches consumerPool.Wait on every path; producer goroutines are started only on the granted edge of Add(1) and defer Done first; R4 the error result of every OnDir/OnFile/ReadDir call in fsloop reaches Lifecycle.Error on every path of its non-nil edge; R5 the completion goroutine waits for the producer pool, then announces the close step, then closes the queues, and every queue send happens synchronously inside a producer (before its deferred Done); R6 a consumer return justified by the close step observes both queues empty with the length reads made after the step read on that path; R7 Pool.counter, Lifecycle.errors (writes) and Lifecycle.step are accessed under their mutex. " +
			"R8 the walkers look at an entry's name only to recognise '.' and '..' (no other selection by name) and leave a listing loop early only with a non-nil error: every selected node is handed on; R9 inside the producers every send on the directory queue, every listing of a sub-directory and every producer started for one is made only where DirFilter is unset or accepted that directory, and every send on the file queue only where FileFilter is unset or accepted the file (judged in the function itself or, for a helper, at all its call sites): nothing below a rejected directory is visited. " +
			"Added in round 4: R4 also requires that jobsync.Lifecycle.Error appends every argument to the error list on every path (no error kind is filtered out on its way into the list); R7 accepts a field that is touched only through sync/atomic (a mix of atomic and plain accesses is still flagged). " +
			"Added in round 5: R4 also requires that Loop.Errors returns Lifecycle.Errors() itself (nothing is filtered on the way out). " +
			"Added in round 6: R5/R9 find queue sends as send statements, as the send case of a select, and as calls that hand a queue to a function sending on that parameter. " +
			"NOT decided: exactly-once delivery under all schedules (R1-R7 are its necessary shape; the interleaving argument itself is a model-checking job), callback concurrency measured at run time.",
	})
}

func dynCalleeField(call *ssa.Call) string {
	if call.Call.IsInvoke() || call.Call.StaticCallee() != nil {
		return ""
	}
	if _, isB := call.Call.Value.(*ssa.Builtin); isB {
		return ""
	}
	n, _ := fieldLoadName(call.Call.Value)
	if n == "" {
		// the callback was handed to a private helper as a parameter (consume(queue, data.OnFile))
		if p, isP := call.Call.Value.(*ssa.Parameter); isP {
			names := map[string]bool{}
			for _, a := range liftSites(p) {
				ln, _ := fieldLoadName(a)
				names[ln] = true
			}
			if len(names) > 0 {
				ok := true
				for k := range names {
					if k != "OnDir" && k != "OnFile" {
						ok = false
					}
				}
				if ok {
					if names["OnFile"] && !names["OnDir"] {
						return "OnFile"
					}
					return "OnDir"
				}
			}
		}
	}
	return n
}

func rulesC08(c *Ctx) {
	fns := c.P.PkgFuncs(loopPkg)
	consLoop := c.P.Func(loopPkg, "Consumer", "Loop")
	prodLoop := c.P.Func(loopPkg, "Producer", "Loop")
	run := c.P.Func(loopPkg, "Loop", "Run")
	lwait := c.P.Func(loopPkg, "Loop", "Wait")
	poolT := c.P.Named(jobPkg, "Pool")
	lifeT := c.P.Named(jobPkg, "Lifecycle")
	padd := c.P.Func(jobPkg, "Pool", "Add")
	if consLoop == nil || prodLoop == nil || run == nil || lwait == nil || poolT == nil || lifeT == nil || padd == nil {
		c.Bad("anchor", "fsloop Consumer/Producer/Loop, jobsync Pool/Lifecycle", 0, "anchor not found; cannot certify")
		return
	}
	poolDone := mq(jobPkg, "Pool", "Done")
	poolWait := mq(jobPkg, "Pool", "Wait")
	poolAdd := mq(jobPkg, "Pool", "Add")
	lifeErr := mq(jobPkg, "Lifecycle", "Error")

	// ---- R1 callbacks only in consumers --------------------------------------------
	// Consumer.Loop may be split into private helpers that only it calls, synchronously
	consGroup := map[*ssa.Function]bool{}
	for _, g := range privateGroup(c.P, consLoop, true) {
		consGroup[g] = true
	}
	n1 := 0
	for _, f := range c.P.AllModuleFuncs() {
		eachInstr(f, func(_ *ssa.BasicBlock, _ int, in ssa.Instruction) {
			call, ok := in.(ssa.CallInstruction)
			if !ok {
				return
			}
			cc := call.Common()
			if cc.IsInvoke() || cc.StaticCallee() != nil {
				return
			}
			nm, base := fieldLoadName(cc.Value)
			if nm == "" {
				if cl, isCall := in.(*ssa.Call); isCall {
					if ln := dynCalleeField(cl); ln == "OnDir" || ln == "OnFile" {
						nm = ln
					}
				}
				if nm == "" {
					return
				}
			} else {
				if (nm != "OnDir" && nm != "OnFile") || base == nil {
					return
				}
				if pt, ok := base.Type().Underlying().(*types.Pointer); !ok || !strings.HasSuffix(typeString(pt.Elem()), "fsloop.LoopData") {
					return
				}
			}
			n1++
			_, isCall := in.(*ssa.Call)
			c.Check(consGroup[f] && isCall, "R1", fmt.Sprintf("%s invoked in %s", nm, fname(f)), in.Pos(), "callback runs in a consumer",
				"a callback is invoked outside Consumer.Loop (or asynchronously) — more callbacks run at once than the configured consumer count, and Wait does not cover it")
		})
	}
	c.Floor("R1", n1, 1)

	// ---- R2 bounded consumers ----------------------------------------------------------
	{
		// Loop.Run may be split into private stages that only it calls (startConsumers, ...)
		runGroup := map[*ssa.Function]bool{}
		for _, g := range privateGroup(c.P, run, false) {
			runGroup[g] = true
		}
		runOrig := run
		var goCons []*ssa.Go
		for g := range runGroup {
			eachInstr(g, func(_ *ssa.BasicBlock, _ int, in ssa.Instruction) {
				if gi, ok := in.(*ssa.Go); ok {
					ci := callInfo(gi, nil, 0)
					if ci.Static == consLoop {
						goCons = append(goCons, gi)
						run = g // the stage that starts the consumers
					}
				}
			})
		}
		_ = runOrig
		for _, f := range c.P.AllModuleFuncs() {
			if runGroup[f] {
				continue
			}
			eachInstr(f, func(_ *ssa.BasicBlock, _ int, in ssa.Instruction) {
				if g, ok := in.(*ssa.Go); ok {
					if ci := callInfo(g, nil, 0); ci.Static == consLoop {
						c.Bad("R2", "consumer goroutine started in "+fname(f), g.Pos(), "consumers are started outside Loop.Run: not bounded by the consumer pool")
					}
				}
			})
		}
		ok := len(goCons) == 1
		why := fmt.Sprintf("%d places start consumer goroutines", len(goCons))
		if ok {
			g := goCons[0]
			// loop bound: the back edge condition compares the counter with the result of Pool.Add on the consumer pool
			bounded := false
			eachInstr(run, func(_ *ssa.BasicBlock, _ int, in ssa.Instruction) {
				iff, isIf := in.(*ssa.If)
				if !isIf {
					return
				}
				bo, isBo := iff.Cond.(*ssa.BinOp)
				if !isBo {
					return
				}
				if !iff.Block().Succs[0].Dominates(g.Block()) && iff.Block().Succs[0] != g.Block() {
					return
				}
				// counting up to the grant (i < granted) or counting the grant down (left > 0, left--)
				bound := bo.Y
				switch {
				case bo.Op == token.LSS:
				case bo.Op == token.GTR:
					if k, isK := constInt(bo.Y); !isK || k != 0 {
						return
					}
					ph, isPhi := bo.X.(*ssa.Phi)
					if !isPhi {
						return
					}
					dec := false
					bound = nil
					for _, e := range ph.Edges {
						if sub, isSub := e.(*ssa.BinOp); isSub && sub.Op == token.SUB && sub.X == ssa.Value(ph) {
							if k, isK := constInt(sub.Y); isK && k == 1 {
								dec = true
								continue
							}
						}
						bound = e
					}
					if !dec || bound == nil {
						return
					}
				default:
					return
				}
				for _, o := range Origins(bound, FlowOpts{}) {
					if o.Kind == "call" && strings.HasPrefix(o.Name, poolAdd+"#") {
						call := o.Val.(*ssa.Call)
						if n, _ := fieldLoadName(call.Call.Args[0]); n == "consumerPool" {
							bounded = true
						}
					}
				}
			})
			if !bounded {
				ok, why = false, "the loop that starts consumers is not bounded by the amount consumerPool.Add granted"
			}
			if !inLoop(run, g.Block()) {
				ok, why = false, "consumers are not started from a counted loop"
			}
		}
		// capacity derives from Consumers
		capOK := false
		eachInstr(run, func(_ *ssa.BasicBlock, _ int, in ssa.Instruction) {
			st, isSt := in.(*ssa.Store)
			if !isSt {
				return
			}
			if fa, isFA := st.Addr.(*ssa.FieldAddr); isFA && strings.HasSuffix(fieldName(fa), "fsloop.Loop.consumerPool") {
				for _, o := range Origins(st.Val, FlowOpts{}) {
					if call, isC := o.Val.(*ssa.Call); isC && o.Kind == "call" && strings.Contains(o.Name, "jobsync.NewPool#") {
						if hasOrigin(Origins(call.Call.Args[0], FlowOpts{Interproc: 2, LiftParams: 2}), func(x Origin) bool { return x.Kind == "field" && strings.HasSuffix(x.Name, "LoopData.Consumers") }) {
							capOK = true
						}
					}
				}
			}
		})
		if ok && !capOK {
			ok, why = false, "the consumer pool's capacity does not derive from LoopData.Consumers"
		}
		c.Check(ok, "R2", "consumers bounded by the consumer pool", run.Pos(), "go consumer.Loop() only in a loop bounded by consumerPool.Add(...); capacity from Consumers", why+" — more callbacks can run at once than configured")
		// Pool.Add grants at most max - counter
		okA := false
		facts := factsFor(padd)
		for _, r := range returnsOf(padd) {
			v := resolve(r.Results[0])
			if p, isPhi := v.(*ssa.Phi); isPhi {
				all := true
				for i, e := range p.Edges {
					if isAvail(e) {
						continue
					}
					// the edge carrying the request: `avail < amount` must be false there
					fs := factsOnEdge(facts, p.Block().Preds[i], p.Block())
					good := false
					for k := range fs {
						if bo, isBo := k.v.(*ssa.BinOp); isBo && bo.Op == token.LSS && isAvail(bo.X) && bo.Y == e && !k.pol {
							good = true
						}
						if bo, isBo := k.v.(*ssa.BinOp); isBo && bo.Op == token.GTR && isAvail(bo.Y) && bo.X == e && !k.pol {
							good = true
						}
					}
					if !good {
						all = false
					}
				}
				okA = all
			}
		}
		c.Check(okA, "R2", "Pool.Add grants at most max-counter", padd.Pos(), "granted = min(requested, max-counter)", "Pool.Add can grant more than the free capacity")
	}

	run = c.P.Func(loopPkg, "Loop", "Run") // (R2 looked at the stage that starts the consumers)
	// ---- R3 Wait covers the last callback; producers accounted ----------------------------
	{
		deferDoneFirst := func(f *ssa.Function, what string) {
			var dd ssa.Instruction
			eachInstr(f, func(_ *ssa.BasicBlock, _ int, in ssa.Instruction) {
				if d, ok := in.(*ssa.Defer); ok && dd == nil {
					if cf := d.Call.StaticCallee(); cf != nil && qualName(cf) == poolDone {
						dd = in
					}
				}
			})
			ok := dd != nil
			if ok {
				// dominates every call other than field loads
				for _, ci := range Calls(f) {
					if ci.Instr != dd && !dominates(dd, ci.Instr) {
						ok = false
					}
				}
			}
			c.Check(ok, "R3", what+" defers pool.Done first", f.Pos(), "defer pool.Done() dominates everything the goroutine does", what+" can do work (or exit) without its pool.Done being registered — Wait returns early or never")
		}
		deferDoneFirst(consLoop, "fsloop.(*Consumer).Loop")
		deferDoneFirst(prodLoop, "fsloop.(*Producer).Loop")
		// Loop.Wait
		var wc *CallInfo
		for _, ci := range Calls(lwait) {
			if ci.Static != nil && qualName(ci.Static) == poolWait {
				if n, _ := fieldLoadName(ci.Recv()); n == "consumerPool" && ci.Kind == "call" {
					wc = ci
				}
			}
		}
		ok := wc != nil && len(MustPass(lwait, nil, func(in ssa.Instruction) bool { return in == wc.Instr })) == 0
		c.Check(ok, "R3", "fsloop.(*Loop).Wait waits for the consumer pool", lwait.Pos(), "consumerPool.Wait() on every path", "Wait can return without (synchronously) waiting for the consumer pool — it returns while a callback is still running")
		// producer goroutines: only on the granted edge
		k := 0
		for _, f := range fns {
			facts := factsFor(f)
			eachInstr(f, func(b *ssa.BasicBlock, _ int, in ssa.Instruction) {
				g, isGo := in.(*ssa.Go)
				if !isGo {
					return
				}
				if ci := callInfo(g, nil, 0); ci.Static != prodLoop {
					return
				}
				k++
				granted := false
				for _, ac := range CallsTo(f, poolAdd) {
					call, _ := ac.Instr.(*ssa.Call)
					if call == nil || !dominates(call, g) {
						continue
					}
					for kf := range facts.At(b) {
						bo, isBo := kf.v.(*ssa.BinOp)
						if !isBo || bo.X != ssa.Value(call) {
							continue
						}
						kv, isC := constInt(bo.Y)
						if !isC {
							continue
						}
						if (bo.Op == token.EQL && kv == 0 && !kf.pol) || (bo.Op == token.NEQ && kv == 0 && kf.pol) || (bo.Op == token.NEQ && kv == 1 && !kf.pol) || (bo.Op == token.EQL && kv == 1 && kf.pol) || (bo.Op == token.GTR && kv == 0 && kf.pol) {
							granted = true
						}
					}
				}
				c.Check(granted, "R3", "producer goroutine started in "+fname(f), g.Pos(), "only on the edge where pool.Add(1) granted the slot", "a producer goroutine is started without a granted pool slot: its Done drives the pool negative / completion is announced early")
			})
		}
		c.Floor("R3", k, 2)
	}

	// ---- R4 errors are recorded ------------------------------------------------------------
	n4 := 0
	for _, f := range fns {
		if !strings.Contains(fname(f), "(*Producer)") && !strings.Contains(fname(f), "(*Consumer)") {
			continue // other walkers of the package (WalkFS) return their errors directly
		}
		facts := factsFor(f)
		for _, ci := range Calls(f) {
			call, isCall := ci.Instr.(*ssa.Call)
			if !isCall {
				continue
			}
			what := ""
			if n := dynCalleeField(call); n == "OnDir" || n == "OnFile" {
				what = n
			} else if ci.Method != nil && ci.Method.Name() == "ReadDir" {
				what = "ReadDir"
			}
			if what == "" {
				continue
			}
			idx := errResultIndex(call.Call.Signature())
			if idx < 0 {
				continue
			}
			n4++
			con := fmt.Sprintf("error of %s in %s", what, fname(f))
			errs := resultN(call, idx)
			if len(errs) == 0 {
				c.Bad("R4", con, call.Pos(), "the error result is dropped — a failing callback/listing is not reported and nodes are silently skipped")
				continue
			}
			ev := errs[0]
			isRecord := func(in ssa.Instruction) bool {
				rc := callInfo(in, nil, 0)
				if rc == nil || rc.Static == nil || qualName(rc.Static) != lifeErr {
					return false
				}
				a := rc.Arg(0)
				if sl, ok := a.(*ssa.Slice); ok {
					for _, e := range arrayElems(sl.X) {
						if sameValue(resolve(e), resolve(ev)) || resolve(e) == resolve(ev) {
							return true
						}
					}
				}
				return false
			}
			bad := MustPassF(f, call, isRecord, func(st int, pred, succ *ssa.BasicBlock) bool {
				// follow only the non-nil edge of this error
				fs := factsOnEdge(facts, pred, succ)
				return !knownNilIn(fs, ev, true)
			})
			// exits where the error is known non-nil (or unknown) without record
			viol := ""
			for _, e := range bad {
				viol = c.pos(e.Instr.Pos())
			}
			// also a loop that continues (back edge) without recording: detect by checking every
			// block on the non-nil edge
			if viol == "" {
				recorded := false
				eachInstr(f, func(b *ssa.BasicBlock, _ int, in ssa.Instruction) {
					if isRecord(in) && facts.KnownNil(b, ev, false) {
						recorded = true
					}
				})
				if !recorded {
					viol = "the non-nil edge"
				}
			}
			c.Check(viol == "", "R4", con, call.Pos(), "reaches Lifecycle.Error on every path of its non-nil edge", "the error can leave through "+viol+" without being handed to Lifecycle.Error — it never appears in the loop's error list")
		}
	}
	c.Floor("R4", n4, 2)
	// Loop.Errors hands out the lifecycle's error list as it is (nothing is filtered on the way out)
	if lerrs := c.P.Func(loopPkg, "Loop", "Errors"); lerrs == nil {
		c.Bad("R4", "fsloop.(*Loop).Errors reports the whole list", 0, "anchor not found")
	} else {
		okL := len(returnsOf(lerrs)) > 0
		for _, r := range returnsOf(lerrs) {
			call, isCall := resolve(r.Results[0]).(*ssa.Call)
			if !isCall || call.Call.StaticCallee() == nil || !strings.HasSuffix(qualName(call.Call.StaticCallee()), mq(jobPkg, "Lifecycle", "Errors")) {
				okL = false
			}
		}
		c.Check(okL, "R4", "fsloop.(*Loop).Errors reports the whole list", lerrs.Pos(), "returns Lifecycle.Errors() itself", "Loop.Errors does not return the lifecycle's error list unchanged (errors are filtered or rebuilt) — a callback or listing error can be missing from the loop's error list")
	}
	// Lifecycle.Error records everything it is handed: on every path the whole argument list is appended
	// to the error list (no error is filtered out on the way into the list)
	if le4 := c.P.Func(jobPkg, "Lifecycle", "Error"); le4 == nil {
		c.Bad("R4", "jobsync.(*Lifecycle).Error records its arguments", 0, "anchor not found")
	} else {
		var evar *ssa.Parameter
		for _, p := range le4.Params {
			if sl, ok := p.Type().Underlying().(*types.Slice); ok && isErrorType(sl.Elem()) {
				evar = p
			}
		}
		isErrsStore := func(in ssa.Instruction) (*ssa.Call, bool) {
			st, ok := in.(*ssa.Store)
			if !ok {
				return nil, false
			}
			fa, ok := st.Addr.(*ssa.FieldAddr)
			if !ok || fieldName(fa) != "jobsync.Lifecycle.errors" {
				return nil, false
			}
			app, ok := resolve(st.Val).(*ssa.Call)
			if !ok {
				return nil, false
			}
			if b, ok := app.Call.Value.(*ssa.Builtin); !ok || b.Name() != "append" || len(app.Call.Args) != 2 {
				return nil, false
			}
			return app, true
		}
		okRec, why := false, "the error list is not extended with the arguments"
		if evar != nil {
			// form 1: errors = append(errors, e...) on every path
			whole := func(in ssa.Instruction) bool {
				app, ok := isErrsStore(in)
				return ok && resolve(app.Call.Args[1]) == ssa.Value(evar)
			}
			any := false
			eachInstr(le4, func(_ *ssa.BasicBlock, _ int, in ssa.Instruction) {
				if whole(in) {
					any = true
				}
			})
			if any {
				if bad := MustPass(le4, nil, whole); len(bad) == 0 {
					okRec = true
				} else {
					why = "a return is reachable without the arguments having been appended to the error list"
				}
			} else {
				// form 2: a loop over e whose body appends the element unconditionally
				eachInstr(le4, func(b *ssa.BasicBlock, _ int, in ssa.Instruction) {
					app, ok := isErrsStore(in)
					if !ok {
						return
					}
					for _, el := range appendedElemsOfCall(app) {
						ia := elementSource(el)
						if ia == nil || ia.X != ssa.Value(evar) || !ascendingIndex(ia.Index) {
							continue
						}
						if ia.Block() == b {
							okRec = true
						} else {
							why = "an argument is appended to the error list only on some paths of the loop (errors are filtered out): a callback or listing error of that kind never shows up"
						}
					}
				})
			}
		}
		c.Check(okRec, "R4", "jobsync.(*Lifecycle).Error records its arguments", le4.Pos(), "every argument is appended to the error list on every path", why+" — the walk reports success although a callback or listing failed")
	}

	// ---- R5 completion order -------------------------------------------------------------------
	{
		var comp *ssa.Function
		compStarted := false
		for _, g0 := range privateGroup(c.P, run, false) {
			for _, g := range withClosures(g0) {
				if g != g0 && len(CallsTo(g, poolWait)) > 0 {
					comp = g
				}
				// a named method started with go (go loop.closeAfter(pool))
				for _, ci := range Calls(g) {
					if ci.Kind == "go" && ci.Static != nil && ci.Static.Pkg == run.Pkg && len(CallsTo(ci.Static, poolWait)) > 0 {
						comp = ci.Static
						compStarted = true
					}
				}
			}
		}
		if comp == nil {
			c.Bad("R5", "completion goroutine of Loop.Run", run.Pos(), "no goroutine that waits for the producer pool found — completion is never (or too early) announced")
		} else {
			var w, ns ssa.Instruction
			var closes []ssa.Instruction
			for _, ci := range Calls(comp) {
				switch {
				case ci.Static != nil && qualName(ci.Static) == poolWait:
					w = ci.Instr
				case ci.Static != nil && qualName(ci.Static) == mq(jobPkg, "Lifecycle", "NextStep"):
					ns = ci.Instr
				}
				if b, isB := ci.Common.Value.(*ssa.Builtin); isB && b.Name() == "close" {
					closes = append(closes, ci.Instr)
				}
			}
			ok := w != nil && ns != nil && len(closes) == 2 && dominates(w, ns)
			why := "the completion goroutine does not wait, announce the close step and close both queues"
			if ok {
				for _, cl := range closes {
					if !dominates(ns, cl) {
						ok, why = false, "a queue is closed before the close step is announced"
					}
				}
				if call, isCall := ns.(*ssa.Call); isCall {
					want := intConstOf(c.P, loopPkg, "StepClose")
					if k, isK := constInt(call.Call.Args[len(call.Call.Args)-1]); !isK || k != want {
						ok, why = false, "the announced step is not StepClose"
					}
				}
			} else if w != nil && ns != nil && !dominates(w, ns) {
				why = "the close step is announced before the producer pool has drained"
			}
			// started with go
			started := compStarted
			eachInstr(run, func(_ *ssa.BasicBlock, _ int, in ssa.Instruction) {
				if g, isGo := in.(*ssa.Go); isGo {
					if mc, isMC := g.Call.Value.(*ssa.MakeClosure); isMC && mc.Fn == ssa.Value(comp) {
						started = true
					}
				}
			})
			c.Check(ok && started, "R5", "completion goroutine of Loop.Run", comp.Pos(), "producerPool.Wait -> NextStep(StepClose) -> close(dirChan), close(fileChan)", why)
		}
		// sends only in producer code reachable synchronously from Producer.Loop
		sync := map[*ssa.Function]bool{}
		var walk func(f *ssa.Function)
		walk = func(f *ssa.Function) {
			if sync[f] {
				return
			}
			sync[f] = true
			for _, ci := range Calls(f) {
				if ci.Kind == "call" && ci.Static != nil && inModule(ci.Static) {
					walk(ci.Static)
				}
			}
		}
		walk(prodLoop)
		ns := 0
		for _, f := range c.P.AllModuleFuncs() {
			for _, qs := range queueSendsIn(f) {
				ns++
				c.Check(sync[f], "R5", fmt.Sprintf("send on %s in %s", qs.name, fname(f)), qs.in.Pos(), "runs synchronously inside a producer, before its deferred Done", "a queue send happens outside the producers' synchronous call tree: it can follow the close step / the channel close (lost item or panic)")
			}
		}
		c.Floor("R5", ns, 2)
	}

	// ---- R6 consumer exit test -------------------------------------------------------------------
	{
		facts := factsFor(consLoop)
		stepClose := intConstOf(c.P, loopPkg, "StepClose")
		n6 := 0
		for _, r := range returnsOf(consLoop) {
			b := r.Block()
			con := fmt.Sprintf("return of Consumer.Loop at line %d", c.P.Fset.Position(r.Pos()).Line)
			killed, byStep, byClosed := false, false, false
			var stepCall *ssa.Call
			for k := range facts.At(b) {
				if call, ok := k.v.(*ssa.Call); ok && k.pol {
					if ci := callInfo(call, nil, 0); ci.Static != nil && ci.Static.Name() == "IsKilled" {
						killed = true
					}
				}
				if bo, ok := k.v.(*ssa.BinOp); ok && bo.Op == token.EQL && k.pol {
					if kv, isC := constInt(bo.Y); isC && kv == stepClose {
						if call, isCall := resolve(bo.X).(*ssa.Call); isCall {
							if ci := callInfo(call, nil, 0); ci.Static != nil && ci.Static.Name() == "Step" {
								byStep = true
								stepCall = call
							}
						}
					}
				}
				if ex, ok := k.v.(*ssa.Extract); ok && !k.pol {
					if _, isSel := ex.Tuple.(*ssa.Select); isSel {
						byClosed = true
					}
				}
			}
			switch {
			case killed:
				c.OK("R6", con, r.Pos(), "exit on a killed lifecycle")
			case byStep:
				n6++
				// emptiness facts with len reads after the step read
				empties := 0
				for k := range facts.At(b) {
					bo, ok := k.v.(*ssa.BinOp)
					if !ok {
						continue
					}
					kv, isC := constInt(bo.Y)
					if !isC || kv != 0 {
						continue
					}
					zero := (bo.Op == token.EQL && k.pol) || (bo.Op == token.NEQ && !k.pol)
					if !zero {
						continue
					}
					lc, isCall := bo.X.(*ssa.Call)
					if !isCall {
						continue
					}
					if bi, isB := lc.Call.Value.(*ssa.Builtin); !isB || bi.Name() != "len" {
						continue
					}
					if n, _ := fieldLoadName(lc.Call.Args[0]); n != "dirChan" && n != "fileChan" {
						continue
					}
					if dominates(stepCall, lc) {
						empties++
					}
				}
				// the emptiness test may live in a private predicate called after the step was read
				for k := range facts.At(b) {
					if call, ok := k.v.(*ssa.Call); ok && k.pol && dominates(stepCall, call) {
						if h := call.Call.StaticCallee(); h != nil && h.Pkg == consLoop.Pkg && h.Blocks != nil {
							te := trueImpliesEmpty(h)
							if te["dirChan"] && te["fileChan"] {
								empties = 2
							}
						}
					}
				}
				c.Check(empties >= 2, "R6", con, r.Pos(), "both queues observed empty after the close step was read",
					"the consumer leaves on the close step with queue emptiness observed before the step was read: a producer can enqueue an item and finish in between — the item is never consumed and Wait returns with no error")
			case byClosed:
				n6++
				c.OK("R6", con, r.Pos(), "exit on a receive from the closed queue")
			default:
				n6++
				c.Bad("R6", con, r.Pos(), "the consumer can return for a reason that is neither a killed lifecycle nor the close step with empty queues")
			}
		}
		c.Floor("R6", n6, 1)
	}

	// ---- R7 guarded state ----------------------------------------------------------------------------
	le := NewLockEngine(c.P)
	jfns := c.P.PkgFuncs(jobPkg)
	n7 := guardedAccessRule(c, le, "R7", jfns, poolT, "counter", "mutex", nil)
	n7 += guardedAccessRule(c, le, "R7", jfns, lifeT, "step", "muStep", nil)
	n7 += guardedAccessRule(c, le, "R7", jfns, lifeT, "errors", "mutex", func(v GuardVerdict) string {
		if strings.HasSuffix(fname(v.Acc.Fn), "(*Lifecycle).Errors") && v.Acc.Kind == "read" {
			return "Errors() is read by the owner after Wait() returned (all writers finished); named exemption: Lifecycle.Errors"
		}
		return ""
	})
	c.Floor("R7", n7, 5)

	// ---- R8 every listed entry is visited ----
	c.Floor("R8", ruleWalkersVisitAll(c, "R8"), 2)

	// ---- R9 the filters gate what is queued and entered ----
	c.Floor("R9", ruleFiltersGate(c, "R9", prodLoop), 4)
}

// isAvail: v is `p.max - p.counter`.
func isAvail(v ssa.Value) bool {
	bo, ok := v.(*ssa.BinOp)
	if !ok || bo.Op != token.SUB {
		return false
	}
	a, _ := fieldLoadName(bo.X)
	b, _ := fieldLoadName(bo.Y)
	return a == "max" && b == "counter"
}

func intConstOf(p *Prog, relPkg, name string) int64 {
	pk := p.ByPath[modPath+"/"+relPkg]
	if pk == nil || pk.Types == nil {
		return -1 << 40
	}
	cn, ok := pk.Types.Scope().Lookup(name).(*types.Const)
	if !ok {
		return -1 << 40
	}
	v, _ := constantInt64(cn)
	return v
}
