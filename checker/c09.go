package main

import (
	"fmt"
	"go/token"
	"go/types"
	"strings"

	"golang.org/x/tools/go/ssa"
)

const memfsPkg = "filesystem/filespace/memfs"

func init() {
	register(&PropDef{ID: "C09", Title: "In-memory filespace stays consistent under concurrent use", Rules: rulesC09,
		Explanation: "Decided (structural necessary conditions, all paths of package memfs): L1 every access to Dir.nodes/Dir.index/File.data holds the owning mutex in the required mode (lockset analysis with computed wrapper summaries); L2 the stream handle is the only code that touches File.data outside a lock, it is constructed only by NewFileHandler which returns with the data lock held, and Close releases it; L3 every function that changes Dir.nodes also changes Dir.index under the same hold; L4 every insert into Dir.index is preceded, under one continuous hold of the W lock, by a miss of the same key, and WriteFile/Writer keep the directory's outer lock from the leaf lookup to the create/replace; L5 every lock acquired in the package is released on every path to every return; L6 the lock-class order graph is acyclic apart from the parent->child recursion of copyDir. " +
			"Added in round 2: L1 extends to any further content-bearing field of Dir/File (slices, maps, atomic.Value, sync.Map: a cached listing or memo is only touched under the node's mutex); L4 also requires that Writer builds its stream handle (which takes the file's data lock) under the same hold of the directory's outer lock as the reset/create; L7 a buffer that receives a copy of File.data is sized from len(File.data) read under the same hold that copies (length before the lock + content under it = a value nobody wrote). " +
			"Added in round 5: L8 a value stored into a field of a node under its lock is computed only from fields of that node read under the same continuous hold (read under RLock, unlock, publish under Lock installs a stale value over a newer state). " +
			"Added in round 6: L9 ReadDir/ReadFile hand out fresh copies (same rule as C01.R5): a clipped view of Dir.nodes is rewritten in place by a later Remove. " +
			"Added in round 7: the lock engine reads once.Do(mu.Unlock) (sync.Once with a bound Unlock/RUnlock) as the release of that lock. " +
			"NOT decided: linearizability, visibility and atomicity of overlapping operations (e.g. Remove(d) racing WriteFile(d/x)), liveness under real schedules; those need a dynamic or model-checking technique.",
		Assumptions: []string{"two SSA values denote the same object when they are the same register or the same field path from the same parameter (fields holding sub-objects are not reassigned between lock and use)"}})
}

// guardedAccessRule runs CheckGuardedBy and records one obligation per access;
// `exempt` may claim an access with a reason.
func guardedAccessRule(c *Ctx, le *LockEngine, rule string, fns []*ssa.Function, T *types.Named, field, guard string,
	exempt func(v GuardVerdict) string) int {
	// the guard is discovered: the mutex field of T under which the accesses are
	// (best) covered; `guard` is only a hint that wins ties, so renaming the
	// mutex does not matter.
	var vs []GuardVerdict
	var err error
	best := -1
	if st, ok := T.Underlying().(*types.Struct); ok {
		for i := 0; i < st.NumFields(); i++ {
			ts := st.Field(i).Type().String()
			if ts != "sync.Mutex" && ts != "sync.RWMutex" {
				continue
			}
			cand, cerr := le.CheckGuardedBy(fns, T, field, st.Field(i).Name())
			if cerr != nil {
				err = cerr
				continue
			}
			bad := 0
			for _, v := range cand {
				if v.Exempt == "" && !v.OK && (exempt == nil || exempt(v) == "") {
					bad++
				}
			}
			if best < 0 || bad < best || (bad == best && st.Field(i).Name() == guard) {
				best, vs = bad, cand
			}
		}
	}
	if best < 0 {
		if err == nil {
			err = fmt.Errorf("no mutex field in %s guards %s", T.Obj().Name(), field)
		}
		c.Bad(rule, T.Obj().Name()+"."+field, 0, "anchor: "+err.Error())
		return 0
	}
	n := 0
	counts := map[string]int{}
	for _, v := range vs {
		base := fmt.Sprintf("%s.%s %s in %s (%s)", T.Obj().Name(), field, v.Acc.Kind, fname(v.Acc.Fn), v.Acc.Why)
		counts[base]++
		con := base
		if counts[base] > 1 {
			con = fmt.Sprintf("%s #%d", base, counts[base])
		}
		switch {
		case v.Exempt != "":
			c.Exempt(rule, con, v.Acc.Pos, v.Exempt)
		case v.OK:
			c.OK(rule, con, v.Acc.Pos, "guard held: "+v.Need)
			n++
		default:
			if exempt != nil {
				if why := exempt(v); why != "" {
					c.Exempt(rule, con, v.Acc.Pos, why)
					continue
				}
			}
			c.Bad(rule, con, v.Acc.Pos, fmt.Sprintf("guard not held: needs %s, held %s — a concurrent caller can observe or corrupt the field", v.Need, fmtLockset(v.Held)))
			n++
		}
	}
	return n
}

// loadOfField: v is a load of field `idx` of struct pointed to by some base;
// returns the base.
func loadOfField(v ssa.Value, st *types.Struct, idx int) (ssa.Value, bool) {
	u, ok := v.(*ssa.UnOp)
	if !ok || u.Op != token.MUL {
		return nil, false
	}
	fa, ok := u.X.(*ssa.FieldAddr)
	if !ok || fa.Field != idx {
		return nil, false
	}
	pt, ok := fa.X.Type().Underlying().(*types.Pointer)
	if !ok {
		return nil, false
	}
	if s, ok := pt.Elem().Underlying().(*types.Struct); !ok || s != st {
		return nil, false
	}
	return fa.X, true
}

func fieldIndex(T *types.Named, name string) (*types.Struct, int) {
	st, ok := T.Underlying().(*types.Struct)
	if !ok {
		return nil, -1
	}
	for i := 0; i < st.NumFields(); i++ {
		if st.Field(i).Name() == name {
			return st, i
		}
	}
	// renamed: the field that stands for the reference name
	if actual, ok := fieldAliasFromRef[lastSeg(typeString(T))+"."+name]; ok {
		for i := 0; i < st.NumFields(); i++ {
			if st.Field(i).Name() == actual {
				return st, i
			}
		}
	}
	return st, -1
}

// checkThenInsert: every MapUpdate on T.field in fns (outside constructors)
// must be preceded by a comma-ok lookup of the same key on the same map whose
// miss edge dominates the insert, with T.guard held in W mode continuously.
func checkThenInsert(c *Ctx, le *LockEngine, rule string, fns []*ssa.Function, T *types.Named, field, guard string) int {
	st, fi := fieldIndex(T, field)
	_, gi := fieldIndex(T, guard)
	if fi < 0 || gi < 0 {
		c.Bad(rule, T.Obj().Name()+"."+field, 0, "anchor: field or guard not found")
		return 0
	}
	n := 0
	for _, f := range fns {
		eachInstr(f, func(b *ssa.BasicBlock, i int, in ssa.Instruction) {
			mu, ok := in.(*ssa.MapUpdate)
			if !ok {
				return
			}
			base, ok := loadOfField(mu.Map, st, fi)
			if !ok {
				return
			}
			con := fmt.Sprintf("insert into %s.%s in %s", T.Obj().Name(), field, fname(f))
			if freshBase(base) {
				c.Exempt(rule, con, mu.Pos(), "object under construction")
				return
			}
			n++
			key := fmt.Sprintf("%s.&f%d", keyP(base), gi)
			found, why := missEvidence(le, f, st, fi, key, keyP(base), mu.Key, mu)
			if !found {
				// the insert may sit in a private helper whose callers hold the lock and made the test
				if kp, isParam := mu.Key.(*ssa.Parameter); isParam && f.Object() != nil && !f.Object().Exported() {
					if le.sites == nil {
						le.buildCallIndex()
					}
					sites := le.sites[f]
					all := len(sites) > 0 && !le.escapes[f]
					lwhy := ""
					for _, sct := range sites {
						if sct.ci.Kind != "call" {
							all = false
							continue
						}
						var keyArg, baseArg ssa.Value
						for pi, p := range f.Params {
							if pi < len(sct.ci.Common.Args) {
								if p == kp {
									keyArg = sct.ci.Common.Args[pi]
								}
								if keyP(base) == "param:"+p.Name() {
									baseArg = sct.ci.Common.Args[pi]
								}
							}
						}
						if keyArg == nil || baseArg == nil {
							all = false
							continue
						}
						ckey := fmt.Sprintf("%s.&f%d", keyP(baseArg), gi)
						okSite, w := missEvidence(le, sct.caller, st, fi, ckey, keyP(baseArg), keyArg, sct.ci.Instr)
						if !okSite {
							all, lwhy = false, w+" (at the call in "+fname(sct.caller)+")"
						}
					}
					if all {
						found = true
					} else if lwhy != "" {
						why = lwhy
					}
				}
			}
			// the helper inserts a node under node.Name(): at each call site a miss of a key that is that
			// node's name (k = n.Name(), or n = NewDir/NewFile(k, ...)) must have been seen under the hold
			if !found && f.Object() != nil && !f.Object().Exported() {
				if nc, isCall := resolve(mu.Key).(*ssa.Call); isCall && nc.Call.IsInvoke() && nc.Call.Method.Name() == "Name" {
					if np, isParam := nc.Call.Value.(*ssa.Parameter); isParam {
						if le.sites == nil {
							le.buildCallIndex()
						}
						sites := le.sites[f]
						all := len(sites) > 0 && !le.escapes[f]
						for _, sct := range sites {
							if sct.ci.Kind != "call" {
								all = false
								continue
							}
							var nodeArg, baseArg ssa.Value
							for pi, p := range f.Params {
								if pi < len(sct.ci.Common.Args) {
									if p == np {
										nodeArg = sct.ci.Common.Args[pi]
									}
									if keyP(base) == "param:"+p.Name() {
										baseArg = sct.ci.Common.Args[pi]
									}
								}
							}
							if nodeArg == nil || baseArg == nil {
								all = false
								continue
							}
							ckey := fmt.Sprintf("%s.&f%d", keyP(baseArg), gi)
							okSite := false
							eachInstr(sct.caller, func(_ *ssa.BasicBlock, _ int, in2 ssa.Instruction) {
								lk, isLk := in2.(*ssa.Lookup)
								if !isLk || !lk.CommaOk || okSite {
									return
								}
								// is the looked-up key the node's name?
								related := false
								if kc, isKC := resolve(lk.Index).(*ssa.Call); isKC && kc.Call.IsInvoke() && kc.Call.Method.Name() == "Name" && unwrapIface(resolve(kc.Call.Value)) == unwrapIface(resolve(nodeArg)) {
									related = true
								}
								if ctor, isCtor := unwrapIface(resolve(nodeArg)).(*ssa.Call); isCtor && len(ctor.Call.Args) > 0 && sameValue(resolve(ctor.Call.Args[0]), resolve(lk.Index)) {
									related = true
								}
								if mi, isMI := resolve(nodeArg).(*ssa.MakeInterface); isMI {
									if ctor, isCtor := resolve(mi.X).(*ssa.Call); isCtor && len(ctor.Call.Args) > 0 && sameValue(resolve(ctor.Call.Args[0]), resolve(lk.Index)) {
										related = true
									}
								}
								if !related {
									return
								}
								if ok2, _ := missEvidence(le, sct.caller, st, fi, ckey, keyP(baseArg), lk.Index, sct.ci.Instr); ok2 {
									okSite = true
								}
							})
							if !okSite {
								all = false
								why = "no miss of the node's own name is established under the write lock at the call in " + fname(sct.caller)
							}
						}
						if all {
							found = true
						}
					}
				}
			}
			c.Check(found, rule, con, mu.Pos(),
				"miss of the same key observed under the same hold of "+key+" dominates the insert",
				why+" — two concurrent creators can both insert (duplicate or lost node)")
		})
	}
	return n
}

func rulesC09(c *Ctx) {
	le := NewLockEngine(c.P)
	fns := c.P.PkgFuncs(memfsPkg)
	dir := c.P.Named(memfsPkg, "Dir")
	file := c.P.Named(memfsPkg, "File")
	handler := c.P.Named(memfsPkg, "FileHandler")
	if dir == nil || file == nil || handler == nil || len(fns) == 0 {
		c.Bad("anchor", "memfs.Dir/File/FileHandler", 0, "types not found: the mechanism this property is anchored in is gone; cannot certify")
		return
	}
	c.Stats["functions_analysed"] = len(fns)

	// ---- L2 typestate of the stream handle --------------------------------
	// roles are discovered: the constructor is the function that allocates a
	// FileHandler; the handle's file field is its *File field; the data lock is
	// the File mutex the constructor still holds when it returns.
	hfile := -1
	if hst, ok := handler.Underlying().(*types.Struct); ok {
		for i := 0; i < hst.NumFields(); i++ {
			if isPtrTo(hst.Field(i).Type(), file) {
				hfile = i
			}
		}
	}
	var nfh *ssa.Function
	built := 0
	var builders []*ssa.Function
	for _, f := range c.P.AllModuleFuncs() {
		eachInstr(f, func(b *ssa.BasicBlock, i int, in ssa.Instruction) {
			if a, ok := in.(*ssa.Alloc); ok {
				if pt, ok := a.Type().(*types.Pointer); ok && types.Identical(pt.Elem(), handler) {
					built++
					builders = append(builders, f)
				}
			}
		})
	}
	if len(builders) > 0 {
		nfh = builders[0]
	}
	dataMU := -1
	l2ok := true
	if nfh == nil || hfile < 0 {
		c.Bad("L2", "stream handle constructor", 0, "no function constructs a memfs.FileHandler (or the handle has no *File field); cannot certify")
		l2ok = false
	} else {
		sum := le.summary(nfh, 0)
		fst := file.Underlying().(*types.Struct)
		for k, m := range sum.HeldAtExit {
			if !strings.HasPrefix(k, "param:") || m != 'W' {
				continue
			}
			for i := 0; i < fst.NumFields(); i++ {
				ts := fst.Field(i).Type().String()
				if (ts == "sync.Mutex" || ts == "sync.RWMutex") && strings.HasSuffix(k, fmt.Sprintf(".&f%d", i)) {
					dataMU = i
				}
			}
		}
		l2ok = c.Check(dataMU >= 0, "L2", "the handle constructor returns holding the file's data lock", nfh.Pos(),
			"every return is reached with a mutex of the file held in W mode", "some return of the stream-handle constructor does not hold a write lock of the file: the handle's unlocked accesses race") && l2ok
		for _, f := range builders {
			l2ok = c.Check(f == nfh, "L2", "FileHandler constructed in "+fname(f), f.Pos(),
				"constructed by the lock-taking constructor", "a FileHandler is built in a second place: it would touch File.data without owning the lock") && l2ok
		}
		c.Floor("L2", built, 1)
		closeFn := c.P.Func(memfsPkg, "FileHandler", "Close")
		if closeFn == nil || dataMU < 0 {
			c.Bad("L2", "FileHandler.Close", 0, "anchor not found")
			l2ok = false
		} else {
			want := fmt.Sprintf("*param:%s.&f%d.&f%d", closeFn.Params[0].Name(), hfile, dataMU)
			la := le.Analyze(closeFn)
			bad := MustPass(closeFn, nil, func(x ssa.Instruction) bool {
				for _, m := range []map[ssa.Instruction][]LockOp{la.ops, la.def} {
					for _, o := range m[x] {
						if !o.Acquire && o.Key == want && o.Mode == 'W' {
							return true
						}
					}
				}
				return false
			})
			l2ok = c.Check(len(bad) == 0, "L2", "FileHandler.Close releases the file's data lock", closeFn.Pos(),
				"every return passes Unlock of the handle's file data lock", "a return of Close is reachable without unlocking: the file stays locked forever") && l2ok
		}
	}

	// ---- L1 guarded-by ------------------------------------------------------
	n := 0
	n += guardedAccessRule(c, le, "L1", fns, dir, "nodes", "mu", nil)
	n += guardedAccessRule(c, le, "L1", fns, dir, "index", "mu", nil)
	n += guardedAccessRule(c, le, "L1", fns, file, "data", "dataMU", func(v GuardVerdict) string {
		// accesses through the handle's own file pointer inside FileHandler methods
		if l2ok && v.Acc.Fn.Signature.Recv() != nil && len(v.Acc.Fn.Params) > 0 {
			rt := v.Acc.Fn.Signature.Recv().Type()
			if pt, ok := rt.(*types.Pointer); ok && types.Identical(pt.Elem(), handler) {
				if keyP(v.Acc.Base) == fmt.Sprintf("*param:%s.&f%d", v.Acc.Fn.Params[0].Name(), hfile) {
					return "stream handle owns the data lock from NewFileHandler to Close (rule L2)"
				}
			}
		}
		return ""
	})
	c.Floor("L1", n, 20)
	// secondary state: any further content-bearing field of a node (a cached listing,
	// a memo, an atomic.Value, a sync.Map) follows the same discipline - it is only
	// touched under the node's mutex.  A lock-free side copy needs an invalidation
	// protocol the lockset analysis cannot vouch for.
	for _, T := range []*types.Named{dir, file} {
		st, ok := T.Underlying().(*types.Struct)
		if !ok {
			continue
		}
		for i := 0; i < st.NumFields(); i++ {
			fld := st.Field(i)
			if fld.Name() == "nodes" || fld.Name() == "index" || fld.Name() == "data" {
				continue
			}
			ts := fld.Type().String()
			switch fld.Type().Underlying().(type) {
			case *types.Slice, *types.Map:
				guardedAccessRule(c, le, "L1", fns, T, fld.Name(), "", nil)
				continue
			}
			if !(strings.HasPrefix(ts, "sync/atomic.") || strings.HasPrefix(ts, "*sync/atomic.") || ts == "sync.Map" || ts == "*sync.Map") {
				continue
			}
			qn := "memfs." + T.Obj().Name() + "." + fld.Name()
			for _, f := range fns {
				la := le.Analyze(f)
				for _, ci := range Calls(f) {
					r := ci.Recv()
					if r == nil {
						continue
					}
					fa, ok := r.(*ssa.FieldAddr)
					if !ok {
						if u, isU := r.(*ssa.UnOp); isU {
							fa, ok = u.X.(*ssa.FieldAddr)
						}
					}
					if !ok || fieldName(fa) != qn {
						continue
					}
					if _, fresh := resolve(fa.X).(*ssa.Alloc); fresh {
						continue
					}
					held := false
					for k := range la.HeldBefore(ci.Instr) {
						if strings.HasPrefix(k, keyP(fa.X)+".") {
							held = true
						}
					}
					c.Check(held, "L1", fmt.Sprintf("%s.%s %s in %s", T.Obj().Name(), fld.Name(), lastSeg(ci.Name()), fname(f)), ci.Pos(), "under the node's mutex",
						"a second copy of the node's content ("+fld.Name()+") is read or published outside the node's mutex — a reader that computed its snapshot before a mutation can publish it after the mutator invalidated the copy, and the stale content is then served forever")
				}
			}
		}
	}

	// ---- L3 list and index change together ----------------------------------
	rulesListIndexInStep(c, le, "L3")

	// ---- L4 check-then-create -------------------------------------------------
	k := checkThenInsert(c, le, "L4", fns, dir, "index", "mu")
	k += ruleOuterLockAroundLeaf(c, le, "L4")
	c.Floor("L4", k, 3)

	// ---- L7 a copy of guarded bytes is sized under the hold that copies them --------
	// (length read before the lock + content read under it = a value nobody wrote:
	// truncated or zero-padded when a stream write lands in between)
	if _, di := fieldIndex(file, "data"); di >= 0 && dataMU >= 0 {
		n7 := 0
		for _, f := range fns {
			la := le.Analyze(f)
			for _, ci := range Calls(f) {
				b, isB := ci.Common.Value.(*ssa.Builtin)
				if !isB || b.Name() != "copy" || len(ci.Common.Args) != 2 {
					continue
				}
				srcFromData := false
				for _, o := range Origins(ci.Common.Args[1], FlowOpts{Alias: true}) {
					if o.Kind == "field" && o.Name == "memfs.File.data" {
						srcFromData = true
					}
				}
				if !srcFromData {
					continue
				}
				n7++
				bad := ""
				for _, o := range Origins(ci.Common.Args[0], FlowOpts{Alias: true}) {
					ms, isMS := o.Val.(*ssa.MakeSlice)
					if !isMS {
						continue
					}
					ln := resolve(ms.Len)
					if cv, ok := ln.(*ssa.Convert); ok {
						ln = resolve(cv.X)
					}
					okLen := false
					if lc, ok := ln.(*ssa.Call); ok {
						if lb, ok := lc.Call.Value.(*ssa.Builtin); ok && lb.Name() == "len" {
							if ld, ok := resolve(lc.Call.Args[0]).(*ssa.UnOp); ok {
								if fa, ok := ld.X.(*ssa.FieldAddr); ok && fieldName(fa) == "memfs.File.data" {
									for k := range la.HeldBefore(ld) {
										if strings.HasSuffix(k, fmt.Sprintf(".&f%d", dataMU)) {
											okLen = true
										}
									}
									if !okLen {
										bad = "the buffer is sized from len(File.data) read before the data lock is taken"
									}
								}
							}
						}
					}
					if !okLen && bad == "" {
						bad = "the buffer is sized from " + vdesc(ln) + ", not from len(File.data) read under the lock that protects the copy"
					}
				}
				c.Check(bad == "", "L7", "copy of File.data in "+fname(f)+" is sized under the same hold", ci.Pos(), "length and content are read under one hold of the data lock",
					bad+" — a stream write between the two reads makes the copy a truncated or zero-padded value that was never written")
			}
		}
		c.Floor("L7", n7, 1)
	}
	// ---- L8 what is stored into a node under its lock was read under the same hold --------------
	// (read under RLock, unlock, publish under Lock: between the two holds a writer can change the
	// node, and the stale value is installed over the newer state)
	{
		n8 := 0
		for _, T := range []*types.Named{dir, file} {
			st, okS := T.Underlying().(*types.Struct)
			if !okS {
				continue
			}
			var guards []int
			for i := 0; i < st.NumFields(); i++ {
				ts := st.Field(i).Type().String()
				if ts == "sync.Mutex" || ts == "sync.RWMutex" {
					guards = append(guards, i)
				}
			}
			for _, f := range fns {
				la := le.Analyze(f)
				f := f
				eachInstr(f, func(_ *ssa.BasicBlock, _ int, in ssa.Instruction) {
					sto, ok := in.(*ssa.Store)
					if !ok {
						return
					}
					fa, ok := sto.Addr.(*ssa.FieldAddr)
					if !ok || structOf(fa.X.Type()) != st || freshBase(fa.X) {
						return
					}
					// reads of the same object's fields the stored value is computed from
					var reads []*ssa.UnOp
					seen := map[ssa.Value]bool{}
					var walk func(v ssa.Value, d int)
					walk = func(v ssa.Value, d int) {
						if v == nil || seen[v] || d > 8 {
							return
						}
						seen[v] = true
						if u, isU := v.(*ssa.UnOp); isU && u.Op == token.MUL {
							if rfa, isFA := u.X.(*ssa.FieldAddr); isFA && structOf(rfa.X.Type()) == st && keyP(rfa.X) == keyP(fa.X) {
								reads = append(reads, u)
								return
							}
						}
						if call, isC := v.(*ssa.Call); isC {
							if _, isB := call.Call.Value.(*ssa.Builtin); !isB {
								return
							}
						}
						if ins, isI := v.(ssa.Instruction); isI {
							for _, op := range ins.Operands(nil) {
								if op != nil && *op != nil {
									walk(*op, d+1)
								}
							}
						}
					}
					walk(sto.Val, 0)
					if len(reads) == 0 {
						return
					}
					n8++
					bad := ""
					for _, r := range reads {
						for _, gi := range guards {
							key := fmt.Sprintf("%s.&f%d", keyP(fa.X), gi)
							if _, held := la.HeldBefore(sto)[key]; held && la.releasedBetween(key, r, sto) {
								bad = "the value stored at " + c.pos(sto.Pos()) + " is computed from " + fieldName(r.X.(*ssa.FieldAddr)) + " read at " + c.pos(r.Pos()) + ", and the node's lock is released in between"
							}
						}
					}
					c.Check(bad == "", "L8", fmt.Sprintf("store to %s in %s uses what it read under the same hold", fieldName(fa), fname(f)), sto.Pos(), "no release of the node's lock between the read and the store",
						bad+" — a writer that runs in the gap is overwritten by the stale value (a finished write is missing from later listings / reads)")
				})
			}
		}
		c.Floor("L8", n8, 1)
	}

	// ---- L9 listings and contents are handed out as copies (same rule as C01.R5) ----
	// (a clipped view d.nodes[:n:n] is rewritten in place by a later Remove: the reader's listing
	// changes under it without any lock)
	if fsT9 := c.P.Named(memfsPkg, "Filespace"); fsT9 != nil {
		if fi9 := c.P.Iface("filesystem", "Filespace"); fi9 != nil {
			c.Floor("L9", ruleSnapshotOut(c, "L9", c.P.MethodsOf(fsT9, fi9)), 2)
		}
	}

	// ---- L5 no lock leak -------------------------------------------------------
	acq := 0
	for _, f := range fns {
		leaks, a := le.Leaks(f)
		acq += a
		if a == 0 {
			continue
		}
		if f == nfh && l2ok {
			c.Exempt("L5", "acquisitions in "+fname(f), f.Pos(), "hands the lock to the stream handle (rule L2)")
			continue
		}
		if len(leaks) == 0 {
			c.OK("L5", "acquisitions in "+fname(f), f.Pos(), fmt.Sprintf("%d acquisition(s), each released on every path to every return", a))
		} else {
			l := leaks[0]
			c.Bad("L5", "acquisitions in "+fname(f), l.Op.At.Pos(), fmt.Sprintf("lock %s (%s) acquired at %s is still held at the return at %s — the next caller blocks forever",
				l.Op.Key, l.Op.Class, c.pos(l.Op.At.Pos()), c.pos(l.Exit.Instr.Pos())))
		}
	}
	c.Floor("L5", acq, 12)

	// ---- L6 lock order ----------------------------------------------------------
	edges := le.OrderEdges(fns)
	cyc := findCycle(edges, map[string]bool{"memfs.Dir.mu": true})
	seenE := map[string]bool{}
	var es []string
	for _, e := range edges {
		k := e.From + " -> " + e.To
		if !seenE[k] {
			seenE[k] = true
			es = append(es, k)
		}
	}
	c.Note("C09.L6 lock-class edges: %s", strings.Join(es, "; "))
	c.Check(cyc == nil, "L6", "lock-class order graph of memfs", 0,
		fmt.Sprintf("acyclic (%d distinct edges; self edge Dir.mu->Dir.mu is the parent->child recursion of copyDir)", len(es)),
		"cycle "+strings.Join(cyc, " -> ")+": two operations can deadlock")
	// the self edge is only legitimate inside copyDir
	for _, e := range edges {
		if e.From == e.To {
			c.Check(strings.HasSuffix(fname(e.Fn), ".copyDir") && e.From == "memfs.Dir.mu", "L6", "self edge "+e.From+" in "+fname(e.Fn), e.At.Pos(),
				"parent->child recursion (a tree has no cycles)", "a lock class is re-acquired while held: self-deadlock or ABBA between two objects of the class")
		}
	}
	c.Floor("L6", len(es), 2)
}

// rulesListIndexInStep (C01.R2 = C09.L3): a function that stores Dir.nodes must
// also update Dir.index under the same continuous W hold, and vice versa.
func rulesListIndexInStep(c *Ctx, le *LockEngine, rule string) {
	dir := c.P.Named(memfsPkg, "Dir")
	st, ni := fieldIndex(dir, "nodes")
	_, ii := fieldIndex(dir, "index")
	_, gi := fieldIndex(dir, "mu")
	if ni < 0 || ii < 0 || gi < 0 {
		c.Bad(rule, "Dir.nodes/index/mu", 0, "anchor not found")
		return
	}
	n := 0
	for _, f := range c.P.PkgFuncs(memfsPkg) {
		var nodeW, idxW []ssa.Instruction
		var base ssa.Value
		fresh := false
		eachInstr(f, func(b *ssa.BasicBlock, i int, in ssa.Instruction) {
			switch x := in.(type) {
			case *ssa.Store:
				if fa, ok := x.Addr.(*ssa.FieldAddr); ok && fa.Field == ni {
					if pt, ok := fa.X.Type().Underlying().(*types.Pointer); ok && pt.Elem().Underlying() == st {
						nodeW = append(nodeW, x)
						base = fa.X
						fresh = fresh || freshBase(fa.X)
					}
				}
			case *ssa.MapUpdate:
				if bs, ok := loadOfField(x.Map, st, ii); ok {
					idxW = append(idxW, x)
					base = bs
					fresh = fresh || freshBase(bs)
				}
			case *ssa.Call:
				if b, ok := x.Call.Value.(*ssa.Builtin); ok && b.Name() == "delete" && len(x.Call.Args) > 0 {
					if bs, ok := loadOfField(x.Call.Args[0], st, ii); ok {
						idxW = append(idxW, x)
						base = bs
					}
				}
			}
		})
		if len(nodeW) == 0 && len(idxW) == 0 {
			continue
		}
		con := "list+index update in " + fname(f)
		if fresh {
			// constructor: the index must be built from the list
			ok := len(nodeW) > 0 && len(idxW) > 0
			c.Check(ok, rule, con, f.Pos(), "constructor fills both the list and the index", "constructor sets only one of list/index: nodes listed but not found (or the reverse)")
			n++
			continue
		}
		n++
		if len(nodeW) == 0 || len(idxW) == 0 {
			c.Bad(rule, con, f.Pos(), fmt.Sprintf("function changes %s without changing %s: the listing and the name index disagree after this call",
				map[bool]string{true: "Dir.index", false: "Dir.nodes"}[len(nodeW) == 0], map[bool]string{true: "Dir.nodes", false: "Dir.index"}[len(nodeW) == 0]))
			continue
		}
		la := le.Analyze(f)
		key := fmt.Sprintf("%s.&f%d", keyP(base), gi)
		ok := true
		why := ""
		// every list write is paired with an index write on every path: the
		// index write post-dominates or the list write dominates it without
		// an intervening return/unlock.
		for _, nw := range nodeW {
			paired := false
			for _, iw := range idxW {
				var a, b ssa.Instruction = nw, iw
				if dominates(iw, nw) {
					a, b = iw, nw
				}
				if !dominates(a, b) {
					continue
				}
				if la.releasedBetween(key, a, b) {
					continue
				}
				// no exit between a and b: every path from a to a return passes b
				bb := b
				if len(MustPass(f, a, func(x ssa.Instruction) bool { return x == bb })) == 0 {
					paired = true
				}
			}
			if !paired {
				ok = false
				why = "a store to Dir.nodes at " + c.pos(nw.Pos()) + " is not followed on every path by an index update under the same hold"
			}
		}
		for _, iw := range idxW {
			paired := false
			for _, nw := range nodeW {
				var a, b ssa.Instruction = nw, iw
				if dominates(iw, nw) {
					a, b = iw, nw
				}
				if dominates(a, b) && !la.releasedBetween(key, a, b) {
					paired = true
				}
			}
			if !paired {
				ok = false
				why = "an index update at " + c.pos(iw.Pos()) + " has no list update under the same hold"
			}
		}
		c.Check(ok, rule, con, f.Pos(), "list store and index update are paired under one hold of "+key, why+" — a node becomes listed-but-not-found (or found-but-not-listed)")
	}
	c.Floor(rule, n, 2)
}

// ruleOuterLockAroundLeaf (C01.R7): in WriteFile and Writer the leaf lookup
// (getNode) and the create (addNode) / replace (setData) happen under one
// continuous hold of the destination directory's outer lock.
func ruleOuterLockAroundLeaf(c *Ctx, le *LockEngine, rule string) int {
	n := 0
	dir := c.P.Named(memfsPkg, "Dir")
	_, outer := fieldIndex(dir, "RWMutex")
	for _, m := range []string{"WriteFile", "Writer"} {
		f := c.P.Func(memfsPkg, "Filespace", m)
		con := "leaf create-or-replace in memfs.(*Filespace)." + m
		if f == nil || outer < 0 {
			c.Bad(rule, con, 0, "anchor not found")
			continue
		}
		n++
		// the create-or-replace may live in a private helper of the method
		method := f
		for _, g := range reachableSamePkg(method, 2) {
			if len(CallsTo(g, mq(memfsPkg, "Dir", "addNode"))) > 0 && len(CallsTo(g, mq(memfsPkg, "Dir", "getNode"))) > 0 {
				f = g
				break
			}
		}
		la := le.Analyze(f)
		gets := CallsTo(f, mq(memfsPkg, "Dir", "getNode"))
		muts := append(CallsTo(f, mq(memfsPkg, "Dir", "addNode")), CallsTo(f, mq(memfsPkg, "File", "setData"))...)
		if len(gets) == 0 || len(muts) == 0 {
			c.Bad(rule, con, f.Pos(), "cannot find the leaf lookup (Dir.getNode) or the create/replace (Dir.addNode / File.setData) — mechanism changed shape; cannot certify")
			continue
		}
		ok := true
		why := ""
		for _, mu := range muts {
			var g *CallInfo
			for _, x := range gets {
				if dominates(x.Instr, mu.Instr) {
					g = x
				}
			}
			if g == nil {
				ok, why = false, "a create/replace is not dominated by the leaf lookup"
				continue
			}
			key := fmt.Sprintf("%s.&f%d", keyP(g.Recv()), outer)
			if mm, has := la.HeldBefore(g.Instr)[key]; !has || mm != 'W' {
				ok, why = false, "the leaf lookup is not made under the directory's outer write lock"
				continue
			}
			if mm, has := la.HeldBefore(mu.Instr)[key]; !has || mm != 'W' {
				ok, why = false, "the create/replace is not made under the directory's outer write lock"
				continue
			}
			if la.releasedBetween(key, g.Instr, mu.Instr) {
				ok, why = false, "the outer lock is released between lookup and create/replace"
			}
			if mu.Name() == mq(memfsPkg, "Dir", "addNode") && keyP(mu.Recv()) != keyP(g.Recv()) {
				ok, why = false, "lookup and create address different directory objects"
			}
		}
		c.Check(ok, rule, con, f.Pos(), "lookup and create/replace under one continuous hold of the directory's outer lock",
			why+" — two concurrent writers of the same new path can both miss and one write is lost or fails")
		if m == "Writer" {
			// the stream handle (which takes the file's data lock) is acquired under the same hold:
			// otherwise a second Writer can reset the content in the gap and both streams append
			isHandleCtor := func(ci *CallInfo) bool {
				if ci.Static == nil || ci.Kind != "call" {
					return false
				}
				res := ci.Static.Signature.Results()
				for i := 0; i < res.Len(); i++ {
					if pt, ok := res.At(i).Type().(*types.Pointer); ok {
						if nt, ok := pt.Elem().(*types.Named); ok && nt.Obj().Name() == "FileHandler" && nt.Obj().Pkg() != nil && strings.HasSuffix(nt.Obj().Pkg().Path(), memfsPkg) {
							return true
						}
					}
				}
				return false
			}
			var ctor *CallInfo
			inSame := false
			for _, ci := range Calls(f) {
				if isHandleCtor(ci) {
					ctor, inSame = ci, true
				}
			}
			if ctor == nil {
				for _, ci := range Calls(method) {
					if isHandleCtor(ci) {
						ctor = ci
					}
				}
			}
			okH, whyH := true, ""
			switch {
			case ctor == nil:
				okH, whyH = false, "cannot find where Writer builds its stream handle; cannot certify"
			case !inSame:
				// fine if the method itself holds the directory's outer write lock from the helper call to the constructor
				okH, whyH = false, "the stream handle is built in "+fname(method)+" after the helper "+fname(f)+" has released the directory lock"
				la2 := le.Analyze(method)
				for _, hc := range Calls(method) {
					if hc.Static != f {
						continue
					}
					for k, m := range la2.HeldBefore(ctor.Instr) {
						if m == 'W' && strings.HasSuffix(k, fmt.Sprintf(".&f%d", outer)) && la2.HeldBefore(hc.Instr)[k] == 'W' && !la2.releasedBetween(k, hc.Instr, ctor.Instr) {
							okH, whyH = true, ""
						}
					}
				}
			default:
				key := fmt.Sprintf("%s.&f%d", keyP(gets[0].Recv()), outer)
				if mm, has := la.HeldBefore(ctor.Instr)[key]; !has || mm != 'W' {
					okH, whyH = false, "the stream handle is built without the directory's outer write lock"
				} else if la.releasedBetween(key, gets[0].Instr, ctor.Instr) {
					okH, whyH = false, "the outer lock is released between the leaf lookup and the construction of the stream handle"
				}
			}
			n++
			c.Check(okH, rule, "stream handle acquired under the directory lock in memfs.(*Filespace).Writer", orPos(posOf(ctor), f.Pos()), "reset/create and handle construction under one hold",
				whyH+" — a second Writer() on the same file can truncate in the gap; the two streams then append one after the other (the file holds a value nobody wrote)")
		}
	}
	return n
}

func posOf(ci *CallInfo) token.Pos {
	if ci == nil {
		return token.NoPos
	}
	return ci.Pos()
}

// reachableSamePkg: f and the functions of its package reachable from it by
// synchronous static calls, up to the given depth (f first).
func reachableSamePkg(f *ssa.Function, depth int) []*ssa.Function {
	var out []*ssa.Function
	seen := map[*ssa.Function]bool{}
	var rec func(g *ssa.Function, d int)
	rec = func(g *ssa.Function, d int) {
		if g == nil || seen[g] || g.Blocks == nil {
			return
		}
		seen[g] = true
		out = append(out, g)
		if d >= depth {
			return
		}
		for _, ci := range Calls(g) {
			if ci.Kind == "call" && ci.Static != nil && ci.Static.Pkg == f.Pkg {
				rec(ci.Static, d+1)
			}
		}
	}
	rec(f, 0)
	return out
}

// missEvidence: in function g, a comma-ok lookup of keyVal in field fi of the
// object keyed baseKey dominates `point`, `point` is confined to its miss
// edge, and the guard lockKey is held in W mode from the lookup to `point`.
func missEvidence(le *LockEngine, g *ssa.Function, st *types.Struct, fi int, lockKey, baseKey string, keyVal ssa.Value, point ssa.Instruction) (bool, string) {
	facts := factsFor(g)
	la := le.Analyze(g)
	found := false
	why := "no comma-ok lookup of the same key on the same map dominates the insert"
	eachInstr(g, func(b2 *ssa.BasicBlock, j int, in2 ssa.Instruction) {
		lk, ok := in2.(*ssa.Lookup)
		if !ok || !lk.CommaOk || found {
			return
		}
		b2base, ok := loadOfField(lk.X, st, fi)
		if !ok || keyP(b2base) != baseKey || !sameValue(lk.Index, keyVal) {
			return
		}
		if !dominates(lk, point) {
			return
		}
		miss := false
		for _, ex := range resultN(lk, 1) {
			if facts.KnownBool(point.Block(), ex, false) {
				miss = true
			}
		}
		if !miss {
			why = "the insert is not confined to the miss edge of the lookup"
			return
		}
		if m, ok := la.HeldBefore(lk)[lockKey]; !ok || m != 'W' {
			why = "the lookup is not made under the write lock " + lockKey
			return
		}
		if m, ok := la.HeldBefore(point)[lockKey]; !ok || m != 'W' {
			why = "the insert is not made under the write lock " + lockKey
			return
		}
		if la.releasedBetween(lockKey, lk, point) {
			why = "the lock is released between the lookup and the insert"
			return
		}
		found = true
	})
	return found, why
}
