package main

import (
	"fmt"
	"go/token"
	"strings"

	"golang.org/x/tools/go/ssa"
)

func init() {
	register(&PropDef{ID: "C16", Title: "pip:try runs exactly the matching handler and contains the body's failure", Rules: rulesC16,
		Explanation: "Submissions are identified by the command argument that feeds their input (?body/?success/?fail/?finally struct tags), not by position. Decided (structural necessary conditions, pipc.Try and its goroutine): R1 the body is submitted with a scope built by scope.New without a shared ContextScope (its own context), never the surrounding scope; R2 every handler submission is dominated by Wait() on that body scope; R3 the fail handler is submitted only on the non-nil edge of that Wait's result, the success handler only on its nil edge, the finally handler on an edge that does not depend on the result, and no return is reachable after the Wait without passing the finally test; R4 AddTasks(1) on the surrounding scope succeeded before the body is submitted and DoneTask is reached on every path (directly, or deferred in the handler goroutine that is started on every remaining path); R5 handlers run in the surrounding scope and a failing handler submission is appended to it; R6 the Wait the handlers are ordered after (scope.Scope.Wait) really waits for the scope's task group on every path, so 'finished' includes the tasks the body spawned. " +
			"R6 also: Scope.Close reaches Wait on every path and scope.NewChild registers every child with its parent on every path (so 'the body has finished' includes failed scopes' tasks and children that use their own context). " +
			"Added in round 4: R7 on the failing edge of Sandbox.Run the runner (runGo or a private stage of it) appends the error to a scope on every path — only the 'self' sandbox records its own errors, so without this a nested task in another sandbox fails silently and the try body counts as successful; handler submissions may go through a function literal kept in a local variable that records a failed submission itself. " +
			"NOT decided: timing of nested tasks at run time (covered structurally by C11.R4 and C14.R3).",
	})
}

// literalStores: all stores into (nested) fields of a local struct alloc:
// field path "Context.Scope" -> stored value.
func literalStores(a *ssa.Alloc) map[string]ssa.Value {
	out := map[string]ssa.Value{}
	var walk func(addr ssa.Value, prefix string)
	walk = func(addr ssa.Value, prefix string) {
		refs := addr.Referrers()
		if refs == nil {
			return
		}
		for _, r := range *refs {
			switch x := r.(type) {
			case *ssa.FieldAddr:
				n := fieldName(x)
				n = n[strings.LastIndex(n, ".")+1:]
				p := n
				if prefix != "" {
					p = prefix + "." + n
				}
				walk(x, p)
			case *ssa.Store:
				if x.Addr == addr && prefix != "" {
					out[prefix] = x.Val
					// a nested literal built in its own local and copied in
					if ld, ok := x.Val.(*ssa.UnOp); ok && ld.Op == token.MUL {
						if inner, ok := ld.X.(*ssa.Alloc); ok && structOf(inner.Type()) != nil {
							walk(inner, prefix)
						}
					}
				}
			}
		}
	}
	walk(a, "")
	return out
}

type trySubmission struct {
	selfRecords bool // the helper that submits records a failed submission in the surrounding scope itself
	call        *ssa.Call
	fn          *ssa.Function
	kind        string // body | success | fail | finally
	fields      map[string]ssa.Value
}

func rulesC16(c *Ctx) {
	try := c.P.Func(pipcPkg, "", "Try")
	if try == nil {
		c.Bad("anchor", "pipc.Try", 0, "anchor not found; cannot certify")
		return
	}
	tagOf := map[string]string{}
	// struct tags of the deps struct: field name -> command tag
	eachInstr(try, func(_ *ssa.BasicBlock, _ int, in ssa.Instruction) {
		if a, ok := in.(*ssa.Alloc); ok {
			if st := structOf(a.Type()); st != nil {
				for i := 0; i < st.NumFields(); i++ {
					tag := st.Tag(i)
					for _, k := range []string{"?body", "?success", "?fail", "?finally"} {
						if strings.Contains(tag, `command:"`+k+`"`) {
							tagOf[st.Field(i).Name()] = strings.TrimPrefix(k, "?")
						}
					}
				}
			}
		}
	})
	if len(tagOf) < 4 {
		c.Bad("anchor", "pip:try argument tags", try.Pos(), fmt.Sprintf("found %d of the 4 body/success/fail/finally argument tags", len(tagOf)))
		return
	}
	var subs []*trySubmission
	for _, g := range withClosures(try) {
		for _, ci := range Calls(g) {
			if ci.Method == nil || ci.Method.Name() != "Run" || !strings.HasSuffix(qualObj(ci.Method), "(Runner).Run") {
				continue
			}
			call, ok := ci.Instr.(*ssa.Call)
			if !ok {
				c.Bad("R2", "submission in "+fname(g), ci.Pos(), "a submission is deferred or spawned")
				continue
			}
			var fields map[string]ssa.Value
			switch x := ci.Arg(0).(type) {
			case *ssa.UnOp:
				if a, ok := x.X.(*ssa.Alloc); ok {
					fields = literalStores(a)
				}
			case *ssa.Call:
				// the Pip is built by a helper (function or function literal): take its literal and map
				// the helper's parameters to the arguments of this call
				var h *ssa.Function
				if hf := x.Call.StaticCallee(); hf != nil {
					h = hf
				} else if u, isU := x.Call.Value.(*ssa.UnOp); isU {
					// call through a local variable holding a function literal
					al, isA := u.X.(*ssa.Alloc)
					if fv, isFV := u.X.(*ssa.FreeVar); isFV {
						al, isA = bindingOf(fv).(*ssa.Alloc)
					}
					if isA && al != nil {
						if st := uniqueStore(al); st != nil {
							if mc, isMC := st.Val.(*ssa.MakeClosure); isMC {
								h, _ = mc.Fn.(*ssa.Function)
							}
						}
					}
				} else if mc, isMC := x.Call.Value.(*ssa.MakeClosure); isMC {
					h, _ = mc.Fn.(*ssa.Function)
				}
				if h != nil && h.Blocks != nil {
					for _, r := range returnsOf(h) {
						if ld, isLd := r.Results[0].(*ssa.UnOp); isLd {
							if a, isA := ld.X.(*ssa.Alloc); isA {
								fields = literalStores(a)
							}
						}
					}
					args := x.Call.Args
					for k, v := range fields {
						fields[k] = substParams(v, h, args, 0)
					}
				}
			}
			if fields == nil {
				continue
			}
			s := &trySubmission{call: call, fn: g, fields: fields}
			if in := s.fields["Context.In"]; in != nil {
				for _, o := range Origins(in, FlowOpts{Transparent: func(ci *CallInfo) []ssa.Value {
					if ci.Static != nil {
						return ci.Common.Args
					}
					return nil
				}}) {
					nm := o.Name
					if o.Kind == "field" || o.Kind == "freevar" {
						nm = nm[strings.LastIndex(nm, ".")+1:]
						if k, ok := tagOf[nm]; ok {
							s.kind = k
						}
					}
				}
			}
			// loads through the captured deps struct: origin is field of freevar
			if s.kind == "" {
				if in := s.fields["Context.In"]; in != nil {
					s.kind = kindByFieldWalk(in, tagOf)
				}
			}
			subs = append(subs, s)
		}
	}
	helperFns := map[*ssa.Function]bool{}
	// submissions made through a private helper that builds the Pip and calls Runner.Run itself
	// (starter.start(scope, name, body, ...)): the helper call is the submission
	for _, g := range withClosures(try) {
		for _, ci := range Calls(g) {
			h := ci.Static
			call, isCall := ci.Instr.(*ssa.Call)
			if h == nil && isCall {
				h = closureCallee(call) // a function literal kept in a local variable
			}
			if h == nil || !isCall || h.Pkg != try.Pkg || h.Blocks == nil || h == try {
				continue
			}
			selfRecords := false
			var fields map[string]ssa.Value
			for _, hc := range Calls(h) {
				if hc.Method == nil || hc.Method.Name() != "Run" || !strings.HasSuffix(qualObj(hc.Method), "(Runner).Run") {
					continue
				}
				if x, ok := hc.Arg(0).(*ssa.UnOp); ok {
					if a, ok := x.X.(*ssa.Alloc); ok {
						fields = literalStores(a)
					}
				}
				// the helper hands on Run's error
				okRet := false
				for _, r := range returnsOf(h) {
					if len(r.Results) > 0 && resolve(r.Results[len(r.Results)-1]) == hc.Value() {
						okRet = true
					}
				}
				// ... or records it in the surrounding scope itself, on the failing edge
				if !okRet && hc.Value() != nil {
					hf := factsFor(h)
					for _, ac := range Calls(h) {
						if ac.Method != nil && ac.Method.Name() == "AppendError" && hf.KnownNil(ac.Block, hc.Value(), false) && isSurroundingScope(ac.Recv()) {
							okRet, selfRecords = true, true
						}
					}
				}
				if !okRet {
					fields = nil
				}
			}
			if fields == nil {
				continue
			}
			for k, v := range fields {
				fields[k] = substParams(v, h, ci.Common.Args, 0)
			}
			helperFns[h] = true
			s := &trySubmission{call: call, fn: g, fields: fields, selfRecords: selfRecords}
			if in := s.fields["Context.In"]; in != nil {
				for _, o := range Origins(in, FlowOpts{Transparent: func(ci *CallInfo) []ssa.Value {
					if ci.Static != nil {
						return ci.Common.Args
					}
					return nil
				}}) {
					nm := o.Name
					if o.Kind == "field" || o.Kind == "freevar" {
						nm = nm[strings.LastIndex(nm, ".")+1:]
						if k, ok := tagOf[nm]; ok {
							s.kind = k
						}
					}
				}
				if s.kind == "" {
					s.kind = kindByFieldWalk(in, tagOf)
				}
			}
			subs = append(subs, s)
		}
	}
	byKind := map[string]*trySubmission{}
	for _, s := range subs {
		if s.kind == "" && helperFns[s.fn] {
			continue // the Run call inside a submitting helper: judged at the helper's call sites
		}
		if s.kind == "" {
			c.Bad("anchor", "submission at "+c.pos(s.call.Pos()), s.call.Pos(), "cannot tell which argument feeds this submission")
			continue
		}
		if byKind[s.kind] != nil {
			c.Bad("R3", s.kind+" submitted once", s.call.Pos(), "the "+s.kind+" text is submitted at more than one place")
		}
		byKind[s.kind] = s
	}
	for _, k := range []string{"body", "success", "fail", "finally"} {
		if byKind[k] == nil {
			c.Bad("anchor", k+" submission", try.Pos(), "no submission fed by the ?"+k+" argument found; cannot certify")
		}
	}
	body := byKind["body"]
	if body == nil {
		return
	}

	// ---- R1 own context for the body ---------------------------------------------
	bscope := body.fields["Context.Scope"]
	okR1 := false
	why := "the body's scope is not built by scope.New"
	var newCall *ssa.Call
	if bscope != nil {
		if call, ok := resolve(bscope).(*ssa.Call); ok {
			if cf := call.Call.StaticCallee(); cf != nil && qualName(cf) == mq(scopePkg, "", "New") {
				newCall = call
				okR1 = true
				// Params literal: no ContextScope
				if ld, ok := call.Call.Args[0].(*ssa.UnOp); ok {
					if a, ok := ld.X.(*ssa.Alloc); ok {
						if v, has := literalStores(a)["ContextScope"]; has && !isNilConst(v) {
							okR1, why = false, "the body's scope is created with a shared ContextScope"
						}
					}
				}
			} else if cf != nil && cf.Pkg == try.Pkg && cf.Blocks != nil && helperBuildsOwnContextScope(cf) {
				// a private constructor helper whose only result is scope.New(...) without a ContextScope
				newCall = call
				okR1 = true
			} else if cf != nil {
				why = "the body runs in a scope from " + cf.Name() + " (shares the surrounding context)"
			}
		}
	}
	c.Check(okR1, "R1", "body runs in its own context", body.call.Pos(), "scope.New(...) without a ContextScope", why+" — a failing body marks the surrounding scope as failed")

	// the Wait on that scope
	var waitCall *ssa.Call
	var waitFn *ssa.Function
	for _, g := range withClosures(try) {
		for _, ci := range Calls(g) {
			if ci.Method != nil && ci.Method.Name() == "Wait" && newCall != nil {
				if sameScopeValue(ci.Recv(), newCall, g, try) {
					waitCall, _ = ci.Instr.(*ssa.Call)
					waitFn = g
				}
			}
		}
	}
	if waitCall == nil {
		c.Bad("R2", "handlers wait for the body", try.Pos(), "no Wait() on the body's scope found — handlers can start before the body (and the tasks it spawned) finished")
		return
	}

	// ---- R2/R3/R5 per handler ---------------------------------------------------------
	facts := factsFor(waitFn)
	for _, k := range []string{"finally", "fail", "success"} {
		s := byKind[k]
		if s == nil {
			continue
		}
		if s.fn != waitFn || !dominates(waitCall, s.call) {
			c.Bad("R2", k+" handler starts after the body finished", s.call.Pos(), "the submission is not dominated by Wait() on the body's scope")
			continue
		}
		c.OK("R2", k+" handler starts after the body finished", s.call.Pos(), "dominated by Wait() on the body's scope")
		isNil := facts.KnownNil(s.call.Block(), waitCall, true)
		nonNil := facts.KnownNil(s.call.Block(), waitCall, false)
		switch k {
		case "fail":
			c.Check(nonNil, "R3", "fail handler only after a failed body", s.call.Pos(), "on the non-nil edge of the body's Wait()", "the fail handler is not confined to the failed-body edge")
		case "success":
			c.Check(isNil, "R3", "success handler only after a clean body", s.call.Pos(), "on the nil edge of the body's Wait()", "the success handler is not confined to the clean-body edge — it runs after a failed body")
		case "finally":
			okF := !isNil && !nonNil
			whyF := "the finally handler depends on the body's outcome"
			if okF {
				// no return after Wait without passing the finally test (the If that leads to the finally submission)
				testBlk := s.call.Block()
				for len(testBlk.Preds) == 1 && !endsWithIf(testBlk.Preds[0]) {
					testBlk = testBlk.Preds[0]
				}
				var test ssa.Instruction
				if len(testBlk.Preds) == 1 && endsWithIf(testBlk.Preds[0]) {
					p := testBlk.Preds[0]
					test = p.Instrs[len(p.Instrs)-1]
				}
				if test == nil {
					// unconditional submission
					test = s.call
				}
				if bad := MustPass(waitFn, waitCall, func(in ssa.Instruction) bool { return in == test }); len(bad) > 0 {
					okF, whyF = false, "a return at "+c.pos(bad[0].Instr.Pos())+" is reachable after the body finished without reaching the finally handler"
				}
			}
			c.Check(okF, "R3", "finally handler in both cases", s.call.Pos(), "independent of the body's outcome and reached on every path after Wait()", whyF)
		}
		// R5: runs in the surrounding scope; submission error appended
		hs := s.fields["Context.Scope"]
		okS := hs != nil && isSurroundingScope(hs)
		c.Check(okS, "R5", k+" handler runs in the surrounding scope", s.call.Pos(), "Scope = the command's own scope", "the handler is not submitted in the surrounding scope — a failing handler does not fail it")
		app := s.selfRecords
		for _, ci := range Calls(s.fn) {
			if ci.Method != nil && ci.Method.Name() == "AppendError" && facts.KnownNil(ci.Block, s.call, false) && isSurroundingScope(ci.Recv()) {
				app = true
			}
		}
		c.Check(app, "R5", k+" handler submission error is recorded", s.call.Pos(), "AppendError on the surrounding scope on the failing edge", "a handler that cannot be submitted is silently dropped")
	}

	// ---- R4 surrounding scope held open -----------------------------------------------
	var add *ssa.Call
	for _, ci := range Calls(try) {
		if ci.Method != nil && ci.Method.Name() == "AddTasks" && isSurroundingScope(ci.Recv()) {
			add, _ = ci.Instr.(*ssa.Call)
		}
	}
	if add == nil {
		c.Bad("R4", "surrounding scope held open", try.Pos(), "no AddTasks on the surrounding scope — it can close before the handlers are submitted")
		return
	}
	tf := factsFor(try)
	okA := body.fn == try && tf.KnownNil(body.call.Block(), add, true)
	whyA := "the body is submitted without AddTasks(1) on the surrounding scope having succeeded"
	if okA {
		isDone := func(in ssa.Instruction) bool {
			ci := callInfo(in, nil, 0)
			return ci != nil && ci.Method != nil && ci.Method.Name() == "DoneTask" && isSurroundingScope(ci.Recv())
		}
		bad := MustPassF(try, add, func(in ssa.Instruction) bool {
			if isDone(in) {
				return true
			}
			if g, ok := in.(*ssa.Go); ok {
				if mc, ok := g.Call.Value.(*ssa.MakeClosure); ok {
					if fn, ok := mc.Fn.(*ssa.Function); ok {
						return len(MustPass(fn, nil, isDone)) == 0
					}
				}
			}
			return false
		}, func(st int, pred, succ *ssa.BasicBlock) bool {
			// only paths on which AddTasks succeeded
			fs := factsOnEdge(tf, pred, succ)
			return !knownNilIn(fs, add, false)
		})
		if len(bad) > 0 {
			okA, whyA = false, "a return at "+c.pos(bad[0].Instr.Pos())+" is reachable after a successful AddTasks without DoneTask (directly or in the handler goroutine)"
		}
	}
	ruleScopeWaitWaits(c, "R6")
	ruleRunGoRecordsFailure(c, "R7")
	c.Check(okA, "R4", "surrounding scope held open", add.Pos(), "AddTasks(1) succeeded before the body; DoneTask on every path", whyA+" — the surrounding scope never finishes (or closes too early)")
}

func endsWithIf(b *ssa.BasicBlock) bool {
	if len(b.Instrs) == 0 {
		return false
	}
	_, ok := b.Instrs[len(b.Instrs)-1].(*ssa.If)
	return ok
}

// kindByFieldWalk: walk back over operands looking for a field load whose
// field carries one of the command tags.
func kindByFieldWalk(v ssa.Value, tagOf map[string]string) string {
	seen := map[ssa.Value]bool{}
	var rec func(v ssa.Value, d int) string
	rec = func(v ssa.Value, d int) string {
		if v == nil || seen[v] || d > 12 {
			return ""
		}
		seen[v] = true
		if fa, ok := v.(*ssa.FieldAddr); ok {
			n := fieldName(fa)
			n = n[strings.LastIndex(n, ".")+1:]
			if k, ok := tagOf[n]; ok {
				return k
			}
		}
		in, ok := v.(ssa.Instruction)
		if !ok {
			return ""
		}
		for _, op := range in.Operands(nil) {
			if op != nil && *op != nil {
				if k := rec(*op, d+1); k != "" {
					return k
				}
			}
		}
		return ""
	}
	return rec(v, 0)
}

// isSurroundingScope: v is ctx.Scope() of the command (directly, or through the
// captured variable holding it).
func isSurroundingScope(v ssa.Value) bool {
	for _, o := range Origins(v, FlowOpts{}) {
		switch o.Kind {
		case "call":
			if strings.HasSuffix(o.Name, "(IOContext).Scope#0") {
				return true
			}
		case "freevar":
			// captured variable: check what the enclosing function stored into it
			fv, ok := o.Val.(*ssa.UnOp)
			var free *ssa.FreeVar
			if ok {
				free, _ = fv.X.(*ssa.FreeVar)
			} else {
				free, _ = o.Val.(*ssa.FreeVar)
			}
			if free == nil {
				continue
			}
			if b := bindingOf(free); b != nil {
				if a, ok := b.(*ssa.Alloc); ok {
					for _, r := range *a.Referrers() {
						if st, ok := r.(*ssa.Store); ok && st.Addr == ssa.Value(a) && isSurroundingScope(st.Val) {
							return true
						}
					}
				} else if isSurroundingScope(b) {
					return true
				}
			}
		}
	}
	return false
}

// bindingOf: the value bound to a free variable where its closure is created.
func bindingOf(fv *ssa.FreeVar) ssa.Value {
	fn := fv.Parent()
	if fn == nil || fn.Parent() == nil {
		return nil
	}
	idx := -1
	for i, v := range fn.FreeVars {
		if v == fv {
			idx = i
		}
	}
	var out ssa.Value
	eachInstr(fn.Parent(), func(_ *ssa.BasicBlock, _ int, in ssa.Instruction) {
		if mc, ok := in.(*ssa.MakeClosure); ok && mc.Fn == ssa.Value(fn) && idx >= 0 && idx < len(mc.Bindings) {
			out = mc.Bindings[idx]
		}
	})
	return out
}

// sameScopeValue: recv (in function g) denotes the scope created by newCall (in
// function top), directly or through a captured variable.
func sameScopeValue(recv ssa.Value, newCall *ssa.Call, g, top *ssa.Function) bool {
	r := resolve(recv)
	if r == ssa.Value(newCall) {
		return true
	}
	if u, ok := recv.(*ssa.UnOp); ok && u.Op == token.MUL {
		if fv, ok := u.X.(*ssa.FreeVar); ok {
			if b := bindingOf(fv); b != nil {
				if a, ok := b.(*ssa.Alloc); ok {
					for _, rr := range *a.Referrers() {
						if st, ok := rr.(*ssa.Store); ok && st.Addr == ssa.Value(a) && resolve(st.Val) == ssa.Value(newCall) {
							return true
						}
					}
				}
			}
		}
		if a, ok := u.X.(*ssa.Alloc); ok {
			for _, rr := range *a.Referrers() {
				if st, ok := rr.(*ssa.Store); ok && st.Addr == ssa.Value(a) && resolve(st.Val) == ssa.Value(newCall) {
					return true
				}
			}
		}
	}
	if fv, ok := recv.(*ssa.FreeVar); ok {
		if b := bindingOf(fv); b != nil && resolve(b) == ssa.Value(newCall) {
			return true
		}
	}
	return false
}

// substParams: if v is (a pure wrapper of) a parameter of h, return the
// matching call argument; otherwise v.  Wrappers that take the parameter as
// their only module-external input (strings.NewReader, gio.NewInput,
// interface conversions) are kept: the caller inspects origins anyway.
func substParams(v ssa.Value, h *ssa.Function, args []ssa.Value, depth int) ssa.Value {
	for i, p := range h.Params {
		if v == ssa.Value(p) && i < len(args) {
			return args[i]
		}
	}
	if depth > 6 {
		return v
	}
	// look for a single parameter in the backward slice
	var found ssa.Value
	seen := map[ssa.Value]bool{}
	var rec func(x ssa.Value, d int)
	rec = func(x ssa.Value, d int) {
		if x == nil || seen[x] || d > 8 {
			return
		}
		seen[x] = true
		for i, p := range h.Params {
			if x == ssa.Value(p) && i < len(args) {
				found = args[i]
			}
		}
		if in, ok := x.(ssa.Instruction); ok {
			for _, op := range in.Operands(nil) {
				if op != nil && *op != nil {
					rec(*op, d+1)
				}
			}
		}
	}
	rec(v, 0)
	if found != nil {
		return found
	}
	return v
}

// helperBuildsOwnContextScope: every return of h is scope.New(Params{...}) whose
// literal sets no ContextScope.
func helperBuildsOwnContextScope(h *ssa.Function) bool {
	rets := returnsOf(h)
	if len(rets) == 0 {
		return false
	}
	for _, r := range rets {
		if len(r.Results) != 1 {
			return false
		}
		call, ok := resolve(r.Results[0]).(*ssa.Call)
		if !ok {
			return false
		}
		cf := call.Call.StaticCallee()
		if cf == nil || qualName(cf) != mq(scopePkg, "", "New") {
			return false
		}
		ld, ok := call.Call.Args[0].(*ssa.UnOp)
		if !ok {
			return false
		}
		a, ok := ld.X.(*ssa.Alloc)
		if !ok {
			return false
		}
		if v, has := literalStores(a)["ContextScope"]; has && !isNilConst(v) {
			return false
		}
	}
	return true
}

// closureCallee: the call goes through a local variable that holds a function literal
// (directly, or captured by the calling literal): the literal, if the variable is
// assigned exactly once.
func closureCallee(call *ssa.Call) *ssa.Function {
	if call.Call.IsInvoke() || call.Call.StaticCallee() != nil {
		return nil
	}
	v := call.Call.Value
	for d := 0; d < 4; d++ {
		switch x := v.(type) {
		case *ssa.MakeClosure:
			fn, _ := x.Fn.(*ssa.Function)
			return fn
		case *ssa.Function:
			return x
		case *ssa.UnOp:
			if x.Op != token.MUL {
				return nil
			}
			var a *ssa.Alloc
			switch y := x.X.(type) {
			case *ssa.Alloc:
				a = y
			case *ssa.FreeVar:
				a, _ = bindingOf(y).(*ssa.Alloc)
			}
			if a == nil {
				return nil
			}
			st := uniqueStore(a)
			if st == nil {
				return nil
			}
			v = st.Val
		case *ssa.FreeVar:
			b := bindingOf(x)
			if b == nil {
				return nil
			}
			v = b
		default:
			return nil
		}
	}
	return nil
}

// ruleRunGoRecordsFailure (C16.R7): a failing task body is recorded in the task's scope.
// pip:try reads the body's outcome from the body scope: a nested task whose sandbox returns an
// error must leave that error in a scope, whatever the sandbox is.
func ruleRunGoRecordsFailure(c *Ctx, rule string) {
	runGo := c.P.Func(runnerPkg, "Runner", "runGo")
	if runGo == nil {
		c.Bad(rule, "runner.(*Runner).runGo", 0, "anchor not found")
		return
	}
	n7 := 0
	// the body may be started from a private stage of runGo
	for _, g := range privateGroup(c.P, runGo, true) {
		rf := factsFor(g)
		for _, ci := range Calls(g) {
			call, isCall := ci.Instr.(*ssa.Call)
			if !isCall || ci.Method == nil || ci.Method.Name() != "Run" || !strings.HasSuffix(qualObj(ci.Method), "(Sandbox).Run") {
				continue
			}
			n7++
			ev := call.Value()
			isAppend := ipEvent(func(in ssa.Instruction) bool {
				x := callInfo(in, nil, 0)
				return x != nil && x.Kind == "call" && x.Method != nil && x.Method.Name() == "AppendError"
			}, 1)
			bad := MustPassF(g, call, isAppend, func(_ int, pred, succ *ssa.BasicBlock) bool {
				return !knownNilIn(factsOnEdge(rf, pred, succ), ev, true)
			})
			c.Check(len(bad) == 0, rule, "runGo records the failure of Sandbox.Run", call.Pos(), "AppendError on the task scope on every path of the failing edge",
				"a return is reachable on the failing edge of Sandbox.Run without the error having been appended to a scope — only the 'self' sandbox records its own errors: a nested task in another sandbox fails silently and the try body counts as successful")
		}
	}
	c.Floor(rule, n7, 1)
}
