package main

// thorough.go — extras of the thorough tier:
//
//  1. positive controls: every seeded change kept under /verif/seeded/<P>-m*/ and
//     every reverse-of-a-fix patch under /verif/controls/ that belongs to the
//     property is applied to a throw-away copy of the CURRENT /repo sources
//     (never to /repo), the property's rules are re-run on that copy in a child
//     process, and the control "fires" when the child reports a violation of the
//     property.  A patch that no longer applies, or a variant that no longer
//     type-checks, is reported as not applicable — never as an alarm.
//  2. whole-module sweeps beyond the frozen rule tables (evidence only):
//     lock-guard candidates, channel closes, dropped AddTasks results.

import (
	"encoding/json"
	"fmt"
	"go/types"
	"io"
	"io/fs"
	"os"
	"os/exec"
	"path/filepath"
	"sort"
	"strings"
	"sync"

	"golang.org/x/tools/go/ssa"
)

type controlSpec struct {
	ID       string `json:"id"`
	Patch    string `json:"patch"`
	Property string `json:"property"`
	What     string `json:"what"`
}

type controlResult struct {
	ID     string   `json:"id"`
	Status string   `json:"status"` // fired | missed | not_applicable
	Rules  []string `json:"rules,omitempty"`
	Note   string   `json:"note,omitempty"`
}

func loadControls(verif, prop string) []controlSpec {
	var out []controlSpec
	// seeded changes of this property
	ents, _ := os.ReadDir(filepath.Join(verif, "seeded"))
	for _, e := range ents {
		if e.IsDir() && strings.HasPrefix(e.Name(), prop+"-") {
			p := filepath.Join(verif, "seeded", e.Name(), "patch.diff")
			if _, err := os.Stat(p); err == nil {
				out = append(out, controlSpec{ID: "seeded/" + e.Name(), Patch: p, Property: prop, What: "independent seeded change"})
			}
		}
	}
	// reverse-of-fix patches
	var idx []controlSpec
	if b, err := os.ReadFile(filepath.Join(verif, "controls", "index.json")); err == nil {
		_ = json.Unmarshal(b, &idx)
	}
	for _, c := range idx {
		if c.Property == prop {
			c.Patch = filepath.Join(verif, "controls", c.Patch)
			c.ID = "controls/" + c.ID
			out = append(out, c)
		}
	}
	sort.Slice(out, func(i, j int) bool { return out[i].ID < out[j].ID })
	return out
}

// copyTree copies the Go sources of repo (no .git, no test data beyond what
// the build needs) into dst.
func copyTree(repo, dst string) error {
	return filepath.WalkDir(repo, func(p string, d fs.DirEntry, err error) error {
		if err != nil {
			return err
		}
		rel, _ := filepath.Rel(repo, p)
		if d.IsDir() {
			if d.Name() == ".git" {
				return filepath.SkipDir
			}
			return os.MkdirAll(filepath.Join(dst, rel), 0o755)
		}
		if !d.Type().IsRegular() {
			return nil
		}
		in, err := os.Open(p)
		if err != nil {
			return err
		}
		defer in.Close()
		out, err := os.Create(filepath.Join(dst, rel))
		if err != nil {
			return err
		}
		if _, err := io.Copy(out, in); err != nil {
			out.Close()
			return err
		}
		return out.Close()
	})
}

func runControl(repo, verif, prop string, ctl controlSpec) controlResult {
	res := controlResult{ID: ctl.ID}
	tmp, err := os.MkdirTemp("", "goatverif-ctl-")
	if err != nil {
		res.Status, res.Note = "not_applicable", "cannot create scratch dir: "+err.Error()
		return res
	}
	defer os.RemoveAll(tmp)
	if err := copyTree(repo, tmp); err != nil {
		res.Status, res.Note = "not_applicable", "cannot copy sources: "+err.Error()
		return res
	}
	ap := exec.Command("git", "apply", "--whitespace=nowarn", ctl.Patch)
	ap.Dir = tmp
	if out, err := ap.CombinedOutput(); err != nil {
		res.Status, res.Note = "not_applicable", "patch does not apply to the current sources: "+firstLine(string(out))
		return res
	}
	self, err := os.Executable()
	if err != nil {
		res.Status, res.Note = "not_applicable", err.Error()
		return res
	}
	cmd := exec.Command(self, "check", "-p", prop, "-tier", "quick", "-repo", tmp, "-verif", verif, "-no-evidence")
	cmd.Env = append(os.Environ(), "VERIF_TIER=quick")
	out, _ := cmd.CombinedOutput()
	rules := map[string]bool{}
	loadFail := false
	for _, ln := range strings.Split(string(out), "\n") {
		ln = strings.TrimSpace(ln)
		if !strings.HasPrefix(ln, "violated: ") {
			continue
		}
		f := strings.Fields(ln)
		if len(f) >= 2 {
			if strings.HasSuffix(f[1], ".load") {
				loadFail = true
			}
			rules[f[1]] = true
		}
	}
	for r := range rules {
		res.Rules = append(res.Rules, r)
	}
	sort.Strings(res.Rules)
	switch {
	case loadFail:
		res.Status, res.Note = "not_applicable", "the variant does not type-check"
	case len(rules) > 0:
		res.Status = "fired"
	default:
		res.Status, res.Note = "missed", "the property's rules report no violation on this variant"
	}
	return res
}

func firstLine(s string) string {
	s = strings.TrimSpace(s)
	if i := strings.Index(s, "\n"); i >= 0 {
		return s[:i]
	}
	return s
}

func thoroughExtras(def *PropDef, repo, verif string, main *runResult) map[string]interface{} {
	out := map[string]interface{}{}
	ctls := loadControls(verif, def.ID)
	results := make([]controlResult, len(ctls))
	var wg sync.WaitGroup
	sem := make(chan struct{}, 6)
	for i, ctl := range ctls {
		wg.Add(1)
		go func(i int, ctl controlSpec) {
			defer wg.Done()
			sem <- struct{}{}
			defer func() { <-sem }()
			results[i] = runControl(repo, verif, def.ID, ctl)
		}(i, ctl)
	}
	wg.Wait()
	fired, missed, na := 0, 0, 0
	for _, r := range results {
		switch r.Status {
		case "fired":
			fired++
		case "missed":
			missed++
		default:
			na++
		}
		fmt.Printf("  control %-28s %s %s %s\n", r.ID, r.Status, strings.Join(r.Rules, ","), r.Note)
	}
	out["positive_controls"] = results
	out["controls_attempted"] = len(results)
	out["controls_fired"] = fired
	out["controls_missed"] = missed
	out["controls_not_applicable"] = na
	out["controls_note"] = "controls are seeded changes and reverse-of-fix patches applied to a scratch copy of the current sources and re-analysed in a child process; 'fired' = the property's rules reported a violation on the variant; a missed or inapplicable control is reported here and never turns into an alarm on /repo"
	if main != nil && main.ctx != nil {
		out["sweeps"] = moduleSweeps(main.ctx.P)
	}
	return out
}

// moduleSweeps: candidates outside the frozen rule tables, for the reader.
func moduleSweeps(p *Prog) map[string]interface{} {
	out := map[string]interface{}{}
	fns := p.AllModuleFuncs()
	// 1. every close(ch) in the module and whether it is inside a sync.Once.Do literal
	var closes []string
	for _, f := range fns {
		eachInstr(f, func(_ *ssa.BasicBlock, _ int, in ssa.Instruction) {
			if call, ok := in.(*ssa.Call); ok {
				if b, ok := call.Call.Value.(*ssa.Builtin); ok && b.Name() == "close" {
					once, _ := insideOnceDo(f, call.Call.Args[0])
					pos := p.Fset.Position(call.Pos())
					rel, _ := filepath.Rel(p.Repo, pos.Filename)
					closes = append(closes, fmt.Sprintf("%s:%d in %s once=%v", rel, pos.Line, fname(f), once))
				}
			}
		})
	}
	sort.Strings(closes)
	out["channel_closes"] = closes
	// 2. dropped results of AddTasks
	var dropped []string
	for _, f := range fns {
		for _, ci := range Calls(f) {
			nm := ""
			if ci.Method != nil {
				nm = ci.Method.Name()
			} else if ci.Static != nil {
				nm = ci.Static.Name()
			}
			if nm != "AddTasks" {
				continue
			}
			if v := ci.Value(); v == nil || len(*v.Referrers()) == 0 {
				pos := p.Fset.Position(ci.Pos())
				rel, _ := filepath.Rel(p.Repo, pos.Filename)
				dropped = append(dropped, fmt.Sprintf("%s:%d in %s", rel, pos.Line, fname(f)))
			}
		}
	}
	sort.Strings(dropped)
	out["dropped_AddTasks_results_unclassified"] = dropped
	// 3. lock-guard candidates: fields of structs with a mutex, accessed with and without a lock of that struct held
	le := NewLockEngine(p)
	type stat struct{ with, without int }
	stats := map[string]*stat{}
	for _, f := range fns {
		la := le.Analyze(f)
		eachInstr(f, func(_ *ssa.BasicBlock, _ int, in ssa.Instruction) {
			fa, ok := in.(*ssa.FieldAddr)
			if !ok {
				return
			}
			pt, ok := fa.X.Type().Underlying().(*types.Pointer)
			if !ok {
				return
			}
			st, ok := pt.Elem().Underlying().(*types.Struct)
			if !ok {
				return
			}
			hasMu := false
			for i := 0; i < st.NumFields(); i++ {
				ts := st.Field(i).Type().String()
				if ts == "sync.Mutex" || ts == "sync.RWMutex" {
					hasMu = true
				}
			}
			ft := st.Field(fa.Field).Type().String()
			if !hasMu || ft == "sync.Mutex" || ft == "sync.RWMutex" || freshBase(fa.X) {
				return
			}
			key := fieldName(fa)
			s := stats[key]
			if s == nil {
				s = &stat{}
				stats[key] = s
			}
			held := la.HeldBefore(fa)
			base := keyP(fa.X)
			locked := false
			for k := range held {
				if strings.HasPrefix(k, base+".") {
					locked = true
				}
			}
			if locked {
				s.with++
			} else {
				s.without++
			}
		})
	}
	var cands []string
	for k, s := range stats {
		if s.with > 0 && s.without > 0 {
			cands = append(cands, fmt.Sprintf("%s locked=%d unlocked=%d", k, s.with, s.without))
		}
	}
	sort.Strings(cands)
	out["mixed_guard_fields_unclassified"] = cands
	return out
}
