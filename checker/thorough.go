package main

// thorough.go — extras of the thorough tier: positive controls (mutants of the
// current source analysed through an overlay) and whole-module sweeps.

func thoroughExtras(def *PropDef, repo, verif string, main *runResult) map[string]interface{} {
	return map[string]interface{}{}
}
