package main

import (
	"fmt"
	"go/token"
	"go/types"
	"sort"
	"strings"

	"golang.org/x/tools/go/ssa"
)

const diskfsPkg = "filesystem/filespace/diskfs"
const diskPkg = "filesystem/disk"

func init() {
	register(&PropDef{ID: "C02", Title: "Disk filespace obeys the same contract as the in-memory one", Rules: rulesC02,
		Explanation: "Decided (structural necessary conditions, packages diskfs and disk): R1 the disk writer opens with a write mode, O_CREATE and O_TRUNC (replace, like the memory writer); R2 WriteFile writes the file only on the nil edge of a MkdirAll of the directory of that same path (parents are created); R3 in the copy helpers of package disk every path handed to a creating primitive derives from the destination parameter, and a directory node met by the walk is created under the destination on that edge (empty directories are copied); R4 every use of the FileInfo inside a filepath.WalkFunc literal is dominated by the nil edge of the callback's error parameter (a missing source gives an error, not a nil dereference); R5 effect table: per Filespace method the set of mutating host primitives reachable through static calls is within the set confirmed on the reference tree — read-type methods reach none, Remove reaches os.Remove but not os.RemoveAll, copies never link (os.Link/Symlink) or rename; R6 disk.CopyFile closes its destination on every path and returns the error of that Close on the success path; R7 every host path a method touches is exactly root + reduced argument (or its directory): no suffix is appended, so nothing outside the addressed path changes. Path confinement of all 16 methods is C03.R1/R4. " +
			"R8 path parameters pass no byte-altering string function (Replace, ToLower, TrimSpace, Trim with a cutset other than '/') in any backend, view or normaliser — names are opaque bytes, so both backends address the same node for the same spelling; R9 a boolean query of the disk backend answers anything but false only where its os.Stat succeeded (Stat fails for other reasons than absence). " +
			"Added in round 4: R5 treats os.Create and os.OpenFile as one effect (create-or-open for writing; a read-only OpenFile is no mutation); R6 follows disk.CopyFile to the private worker it forwards to and, where the destination is opened with os.OpenFile, requires a write mode, O_CREATE and O_TRUNC on every path and never O_APPEND. " +
			"NOT decided: equality of results and trees between the memory and the disk backend on any history; host file-system semantics; permissions.",
	})
}

var hostMutators = map[string]bool{
	"os.Create": true, "os.OpenFile": true, "os.Remove": true, "os.RemoveAll": true, "os.Rename": true, "os.Mkdir": true, "os.MkdirAll": true,
	"os.Link": true, "os.Symlink": true, "os.Chmod": true, "os.Chown": true, "os.Truncate": true, "os.WriteFile": true, "os.MkdirTemp": true, "os.CreateTemp": true,
	"io/ioutil.WriteFile": true, "io/ioutil.TempFile": true, "io/ioutil.TempDir": true, "os.Chtimes": true,
}

// reachableHostMutators: host primitives reachable from f through static
// calls inside the module (closures included).
func reachableHostMutators(f *ssa.Function) map[string]bool {
	out := map[string]bool{}
	seen := map[*ssa.Function]bool{}
	var rec func(g *ssa.Function, d int)
	rec = func(g *ssa.Function, d int) {
		if g == nil || seen[g] || d > 6 {
			return
		}
		seen[g] = true
		for _, h := range withClosures(g) {
			for _, ci := range Calls(h) {
				if ci.Static == nil {
					continue
				}
				q := qualName(ci.Static)
				if hostMutators[q] {
					if q == "os.OpenFile" {
						// read-only opens are not mutating
						if _, fl, ok := flagBits(ci.Arg(1), 0); ok && fl&3 == 0 && fl&0x40 == 0 && fl&0x200 == 0 {
							continue
						}
					}
					out[q] = true
					continue
				}
				if inModule(ci.Static) {
					rec(ci.Static, d+1)
				}
			}
		}
	}
	rec(f, 0)
	return out
}

func rulesC02(c *Ctx) {
	fiface := c.P.Iface("filesystem", "Filespace")
	dT := c.P.Named(diskfsPkg, "Filespace")
	if fiface == nil || dT == nil {
		c.Bad("anchor", "diskfs.Filespace", 0, "anchor not found; cannot certify")
		return
	}
	methods := c.P.MethodsOf(dT, fiface)

	// ---- R1 ----
	ruleDiskWriterFlags(c, "R1")

	// ---- R2 parents created by WriteFile -------------------------------------------------
	if f := methods["WriteFile"]; f == nil {
		c.Bad("R2", "diskfs.(Filespace).WriteFile", 0, "anchor not found")
	} else {
		facts := factsFor(f)
		var mk, wr *ssa.Call
		for _, ci := range Calls(f) {
			call, _ := ci.Instr.(*ssa.Call)
			if call == nil || ci.Static == nil {
				continue
			}
			switch qualName(ci.Static) {
			case mq(diskPkg, "", "MkdirAll"), "os.MkdirAll":
				mk = call
			case "io/ioutil.WriteFile", "os.WriteFile":
				wr = call
			}
		}
		ok := mk != nil && wr != nil
		why := "WriteFile does not create the parents and then write the file"
		if ok {
			if !facts.KnownNil(wr.Block(), mk, true) {
				ok, why = false, "the file is written without the parent directories having been created successfully"
			}
			// same path: MkdirAll(Dir(p)) and WriteFile(p)
			dirArg := mk.Call.Args[0]
			same := false
			if dc, isCall := dirArg.(*ssa.Call); isCall {
				if cf := dc.Call.StaticCallee(); cf != nil && (qualName(cf) == "path/filepath.Dir" || qualName(cf) == "path.Dir") {
					same = dc.Call.Args[0] == wr.Call.Args[0] || sameValue(dc.Call.Args[0], wr.Call.Args[0])
				}
			}
			if ok && !same {
				ok, why = false, "the directory that is created is not the parent of the path that is written"
			}
		}
		c.Check(ok, "R2", "diskfs.(Filespace).WriteFile creates parents", f.Pos(), "MkdirAll(Dir(p)) == nil dominates WriteFile(p)", why+" — writing below a missing directory fails on disk but succeeds in memory")
	}

	// ---- R3 / R4 copy helpers -------------------------------------------------------------------
	n3, n4 := 0, 0
	for _, f := range c.P.PkgFuncs(diskPkg) {
		top := f
		for top.Parent() != nil {
			top = top.Parent()
		}
		if !strings.HasPrefix(strings.ToLower(top.Name()), "copy") {
			continue
		}
		var dest *ssa.Parameter
		for _, p := range top.Params {
			if p.Name() == "dest" || p.Name() == "dst" {
				dest = p
			}
		}
		// creating calls
		for _, ci := range Calls(f) {
			if ci.Static == nil {
				continue
			}
			q := qualName(ci.Static)
			creating := -1
			switch q {
			case "os.Create", "os.MkdirAll", "os.Mkdir", mq(diskPkg, "", "MkdirAll"):
				creating = 0
			case "os.OpenFile":
				if _, may, ok := flagBits(ci.Arg(1), 0); !ok || may&3 != 0 || may&0x40 != 0 || may&0x200 != 0 {
					creating = 0
				}
			case mq(diskPkg, "", "CopyFile"), mq(diskPkg, "", "CopyDirectory"), "os.Link", "os.Symlink", "os.Rename":
				creating = 1
			default:
				// a private worker of the copy family: its destination parameter
				if ci.Static.Pkg == f.Pkg && ci.Static != top && strings.HasPrefix(strings.ToLower(ci.Static.Name()), "copy") {
					for pi, pp := range ci.Static.Params {
						if pp.Name() == "dest" || pp.Name() == "dst" {
							creating = pi
						}
					}
				}
			}
			if creating < 0 || dest == nil {
				continue
			}
			n3++
			arg := ci.Arg(creating)
			okD := derivesFromParam(arg, dest)
			c.Check(okD, "R3", fmt.Sprintf("%s in %s creates under the destination", lastSeg(q), fname(f)), ci.Pos(), "the created path derives from the destination parameter",
				"the path handed to "+lastSeg(q)+" does not depend on the destination ("+originsString(Origins(arg, FlowOpts{}))+") — the copy creates nodes elsewhere (e.g. inside the source tree)")
		}
		// walk callbacks
		if wp := walkFuncParams(f); wp != nil && f.Parent() != nil {
			facts := factsFor(f)
			info, errp := wp[1], wp[2]
			uses := 0
			okU := true
			var dirEdgeCreates bool
			for _, r := range *info.Referrers() {
				in, isIn := r.(ssa.Instruction)
				if !isIn {
					continue
				}
				if _, isDbg := r.(*ssa.DebugRef); isDbg {
					continue
				}
				uses++
				if !facts.KnownNil(in.Block(), errp, true) {
					okU = false
				}
			}
			n4++
			c.Check(okU && uses > 0, "R4", "walk callback in "+fname(top)+" guards its error", f.Pos(), fmt.Sprintf("%d use(s) of the FileInfo, all on the err == nil edge", uses),
				"the FileInfo is used on a path where the callback's error was not tested nil — filepath.Walk hands a nil FileInfo together with the error (missing source: panic instead of an error)")
			// directories are created on the IsDir edge
			for _, ci := range Calls(f) {
				if ci.Static == nil {
					continue
				}
				q := qualName(ci.Static)
				if q != mq(diskPkg, "", "MkdirAll") && q != "os.MkdirAll" && q != "os.Mkdir" {
					continue
				}
				for k := range facts.At(ci.Block) {
					if call, isCall := k.v.(*ssa.Call); isCall && k.pol && call.Call.Method != nil && call.Call.Method.Name() == "IsDir" && call.Call.Value == ssa.Value(info) {
						dirEdgeCreates = true
					}
				}
			}
			n3++
			c.Check(dirEdgeCreates && dirEdgeAlwaysCreates(f, info), "R3", "walk callback in "+fname(top)+" creates visited directories", f.Pos(), "a directory node leads to MkdirAll under the destination on its IsDir edge",
				"a directory met by the walk is not created at the destination on that edge — empty directories are missing from the copy (the memory backend keeps them)")
		}
	}
	// walk callbacks that are methods / named functions (the literal was turned into a method of a small struct)
	for _, f := range c.P.PkgFuncs(diskPkg) {
		wp := walkFuncParams(f)
		if wp == nil || f.Parent() != nil {
			continue
		}
		facts := factsFor(f)
		info, errp := wp[1], wp[2]
		uses, okU := 0, true
		for _, r := range *info.Referrers() {
			in, isIn := r.(ssa.Instruction)
			if _, isDbg := r.(*ssa.DebugRef); !isIn || isDbg {
				continue
			}
			uses++
			if !facts.KnownNil(in.Block(), errp, true) {
				okU = false
			}
		}
		n4++
		c.Check(okU && uses > 0, "R4", "walk callback "+fname(f)+" guards its error", f.Pos(), fmt.Sprintf("%d use(s) of the FileInfo, all on the err == nil edge", uses),
			"the FileInfo is used on a path where the callback's error was not tested nil — filepath.Walk hands a nil FileInfo together with the error (missing source: panic instead of an error)")
		dirEdgeCreates := false
		for _, ci := range Calls(f) {
			if ci.Static == nil {
				continue
			}
			q := qualName(ci.Static)
			creating := -1
			switch q {
			case "os.Create", "os.MkdirAll", "os.Mkdir", mq(diskPkg, "", "MkdirAll"):
				creating = 0
			case mq(diskPkg, "", "CopyFile"), mq(diskPkg, "", "CopyDirectory"), "os.Link", "os.Symlink", "os.Rename":
				creating = 1
			}
			if creating < 0 {
				continue
			}
			n3++
			// the created path must depend on more than what the walk hands to the callback
			onlyWalk := true
			os := Origins(ci.Arg(creating), FlowOpts{Interproc: 2})
			for _, o := range os {
				switch {
				case o.Kind == "const" || o.Kind == "nil":
				case o.Kind == "param" && (o.Val == ssa.Value(wp[0]) || o.Val == ssa.Value(wp[1]) || o.Val == ssa.Value(wp[2])):
				default:
					onlyWalk = false
				}
			}
			c.Check(!onlyWalk, "R3", fmt.Sprintf("%s in %s creates under the destination", lastSeg(q), fname(f)), ci.Pos(), "the created path depends on the copier's destination, not only on the walked path",
				"the path handed to "+lastSeg(q)+" derives only from the walked source path ("+originsString(os)+") — the copy creates nodes inside the source tree")
			if q == mq(diskPkg, "", "MkdirAll") || q == "os.MkdirAll" || q == "os.Mkdir" {
				for k := range facts.At(ci.Block) {
					if call, isCall := k.v.(*ssa.Call); isCall && k.pol && call.Call.Method != nil && call.Call.Method.Name() == "IsDir" && call.Call.Value == ssa.Value(info) {
						dirEdgeCreates = true
					}
				}
			}
		}
		n3++
		c.Check(dirEdgeCreates && dirEdgeAlwaysCreates(f, info), "R3", "walk callback "+fname(f)+" creates visited directories", f.Pos(), "a directory node leads to MkdirAll under the destination on its IsDir edge",
			"a directory met by the walk is not created at the destination on that edge — empty directories are missing from the copy (the memory backend keeps them)")
	}
	c.Floor("R3", n3, 3)
	c.Floor("R4", n4, 1)

	// ---- R5 effect table ------------------------------------------------------------------------
	allowed := map[string][]string{
		"ReadDir": {}, "IsExist": {}, "IsFile": {}, "IsDir": {}, "ReadFile": {}, "Reader": {}, "Lstat": {}, "Filespace": {},
		"Remove": {"os.Remove"}, "RemoveAll": {"os.RemoveAll"}, "MkdirAll": {"os.MkdirAll"},
		"WriteFile": {"os.MkdirAll", "io/ioutil.WriteFile", "os.WriteFile"}, "Writer": {"os.OpenFile", "os.Create"},
		"Copy": {"os.MkdirAll", "os.Create"}, "CopyDirectory": {"os.MkdirAll", "os.Create"}, "CopyFile": {"os.Create"},
	}
	must := map[string]string{"Remove": "os.Remove", "RemoveAll": "os.RemoveAll", "MkdirAll": "os.MkdirAll"}
	n5 := 0
	for _, mn := range sortedKeys(methods) {
		al, known := allowed[mn]
		if !known {
			c.Bad("R5", "effects of diskfs.(Filespace)."+mn, methods[mn].Pos(), "a Filespace method the effect table does not know; cannot certify")
			continue
		}
		n5++
		got := reachableHostMutators(methods[mn])
		var extra []string
		for q := range got {
			okq := false
			for _, a := range al {
				// os.Create is os.OpenFile(O_RDWR|O_CREATE|O_TRUNC): one effect, create-or-open for writing
				if a == q || (a == "os.Create" && q == "os.OpenFile") || (a == "os.OpenFile" && q == "os.Create") {
					okq = true
				}
			}
			if !okq {
				extra = append(extra, q)
			}
		}
		sort.Strings(extra)
		why := ""
		if len(extra) > 0 {
			why = "reaches " + strings.Join(extra, ", ") + ", which the operation must not use"
			for _, e := range extra {
				switch e {
				case "os.Link", "os.Symlink":
					why += " (a linked copy shares its content with the source: writing one changes the other)"
				case "os.Rename":
					why += " (a rename touches a second path: a sibling node can be destroyed or left behind)"
				case "os.RemoveAll":
					why += " (removes a whole subtree)"
				}
			}
		}
		if m, has := must[mn]; has && !got[m] {
			why = "does not reach " + m
		}
		var gl []string
		for q := range got {
			gl = append(gl, q)
		}
		sort.Strings(gl)
		c.Check(why == "", "R5", "effects of diskfs.(Filespace)."+mn, methods[mn].Pos(), "mutating host primitives: {"+strings.Join(gl, ", ")+"}", mn+" "+why)
	}
	c.Floor("R5", n5, 16)

	// ---- R6 CopyFile closes and reports ---------------------------------------------------------------
	ruleDiskCopyFileCloses(c)

	// ---- R7 host paths are exactly root + argument ----------------------------------------------------------
	n7 := ruleHostPathExact(c, "R7", methods, nil)
	c.Floor("R7", n7, 8)
	_ = types.Typ

	// ---- R8 names are opaque bytes (both backends must split at the separator only) ----
	if iface := c.P.Iface("filesystem", "Filespace"); iface != nil {
		c.Floor("R8", ruleNamesOpaque(c, "R8", iface, c.P.Implementers(iface)), 20)
	}
	// ---- R9 a positive existence answer needs a successful Stat ----
	c.Floor("R9", ruleStatPositive(c, "R9"), 3)
}

func derivesFromParam(v ssa.Value, p *ssa.Parameter) bool {
	seen := map[ssa.Value]bool{}
	var rec func(v ssa.Value, d int) bool
	rec = func(v ssa.Value, d int) bool {
		if v == nil || seen[v] || d > 14 {
			return false
		}
		seen[v] = true
		if v == ssa.Value(p) {
			return true
		}
		if u, ok := v.(*ssa.UnOp); ok {
			if a, ok := u.X.(*ssa.Alloc); ok {
				for _, r := range *a.Referrers() {
					if st, ok := r.(*ssa.Store); ok && st.Addr == ssa.Value(a) && rec(st.Val, d+1) {
						return true
					}
				}
			}
		}
		// captured variable of an enclosing function
		if u, ok := v.(*ssa.UnOp); ok {
			if fv, ok := u.X.(*ssa.FreeVar); ok {
				if b := bindingOf(fv); b != nil {
					if a, ok := b.(*ssa.Alloc); ok {
						for _, r := range *a.Referrers() {
							if st, ok := r.(*ssa.Store); ok && st.Addr == ssa.Value(a) && rec(st.Val, d+1) {
								return true
							}
						}
					}
					return rec(b, d+1)
				}
			}
		}
		if fv, ok := v.(*ssa.FreeVar); ok {
			if b := bindingOf(fv); b != nil {
				return rec(b, d+1)
			}
		}
		if sl, ok := v.(*ssa.Slice); ok {
			for _, e := range arrayElems(sl.X) {
				if rec(e, d+1) {
					return true
				}
			}
		}
		in, ok := v.(ssa.Instruction)
		if !ok {
			return false
		}
		for _, op := range in.Operands(nil) {
			if op != nil && *op != nil && rec(*op, d+1) {
				return true
			}
		}
		return false
	}
	return rec(v, 0)
}

// walkFuncParams: f has the shape of a filepath.WalkFunc - (path string, info
// os.FileInfo, err error) error, after an optional receiver; returns the three.
func walkFuncParams(f *ssa.Function) []*ssa.Parameter {
	ps := f.Params
	if f.Signature.Recv() != nil && len(ps) > 0 {
		ps = ps[1:]
	}
	if len(ps) != 3 || f.Signature.Results().Len() != 1 || !isErrorType(f.Signature.Results().At(0).Type()) {
		return nil
	}
	if !isStringy(ps[0].Type()) || !isFileInfo(ps[1].Type()) || !isErrorType(ps[2].Type()) {
		return nil
	}
	return ps
}

// ruleDiskCopyFileCloses (R6): disk.CopyFile closes its destination on every
// path after it was created and returns that Close's error on the success path;
// the copy-and-close tail may live in a private helper that receives the file.
func ruleDiskCopyFileCloses(c *Ctx) {
	cf := c.P.Func(diskPkg, "", "CopyFile")
	if cf == nil {
		c.Bad("R6", "disk.CopyFile", 0, "anchor not found")
		return
	}
	cf = workerOf(cf)
	find := func(g *ssa.Function) (create, cp *ssa.Call) {
		for _, ci := range Calls(g) {
			call, _ := ci.Instr.(*ssa.Call)
			if call == nil || ci.Static == nil {
				continue
			}
			switch qualName(ci.Static) {
			case "os.Create", "os.OpenFile":
				create = call
			case "io.Copy", "io.CopyBuffer", "io.CopyN":
				cp = call
			}
		}
		return
	}
	// analyse: in g, the file value dval is closed on every path from `start` and the Close error is the success result
	analyse := func(g *ssa.Function, dval ssa.Value, start ssa.Instruction, createErr ssa.Value, cp *ssa.Call) (bool, string) {
		facts := factsFor(g)
		// captured: v (inside a function literal of g) reads the variable that holds dval
		captured := func(v ssa.Value) bool {
			u, ok := resolve(v).(*ssa.UnOp)
			if !ok || u.Op != token.MUL {
				return false
			}
			fv, ok := u.X.(*ssa.FreeVar)
			if !ok {
				return false
			}
			a, ok := bindingOf(fv).(*ssa.Alloc)
			if !ok {
				return false
			}
			st := uniqueStore(a)
			return st != nil && resolve(st.Val) == dval
		}
		deferSetsCloseErr := false
		isClose := func(in ssa.Instruction) bool {
			ci := callInfo(in, nil, 0)
			if ci != nil && ci.Kind != "go" && ci.Static != nil && qualName(ci.Static) == "os.(File).Close" && resolve(ci.Recv()) == dval {
				return true
			}
			// defer func() { if cerr := d.Close(); err == nil { err = cerr } }()
			d, isD := in.(*ssa.Defer)
			if !isD {
				return false
			}
			mc, isMC := d.Call.Value.(*ssa.MakeClosure)
			if !isMC {
				return false
			}
			fn, isFn := mc.Fn.(*ssa.Function)
			if !isFn || fn.Blocks == nil {
				return false
			}
			var closeCall *ssa.Call
			inner := func(x ssa.Instruction) bool {
				xi := callInfo(x, nil, 0)
				if xi != nil && xi.Kind == "call" && xi.Static != nil && qualName(xi.Static) == "os.(File).Close" && captured(xi.Recv()) {
					closeCall, _ = x.(*ssa.Call)
					return true
				}
				return false
			}
			if len(MustPass(fn, nil, inner)) != 0 || closeCall == nil {
				return false
			}
			// the literal hands the Close error to the (named) result, only while that is still nil
			ff := factsFor(fn)
			eachInstr(fn, func(b *ssa.BasicBlock, _ int, x ssa.Instruction) {
				st, isSt := x.(*ssa.Store)
				if !isSt || resolve(st.Val) != ssa.Value(closeCall) {
					return
				}
				fv, isFV := st.Addr.(*ssa.FreeVar)
				if !isFV || !isErrorType(derefType(fv.Type())) {
					return
				}
				for _, r := range *fv.Referrers() {
					if ld, isLd := r.(*ssa.UnOp); isLd && ff.KnownNil(b, ld, true) {
						deferSetsCloseErr = true
					}
				}
			})
			return true
		}
		bad := MustPassF(g, start, isClose, func(st int, pred, succ *ssa.BasicBlock) bool {
			return createErr == nil || !knownNilIn(factsOnEdge(facts, pred, succ), createErr, false)
		})
		if len(bad) > 0 {
			return false, "a return is reachable with the destination file still open"
		}
		if len(resultN(cp, 1)) == 0 {
			return false, "the error of io.Copy is dropped"
		}
		for _, r := range returnsOf(g) {
			v := resolve(r.Results[len(r.Results)-1])
			if isNilConst(v) && facts.KnownNil(r.Block(), firstOr(resultN(cp, 1)), true) {
				return false, "success is returned without the destination's Close error (a failed flush is lost)"
			}
		}
		for _, r := range returnsOf(g) {
			if call, isCall := resolve(r.Results[len(r.Results)-1]).(*ssa.Call); isCall && isClose(call) {
				return true, ""
			}
		}
		if deferSetsCloseErr {
			// the deferred literal replaces a nil result by the Close error
			return true, ""
		}
		return false, "the destination's Close error is not what the success path returns"
	}
	create, cp := find(cf)
	ok, why := false, "CopyFile does not create the destination and copy into it"
	if create != nil && create.Call.StaticCallee().Name() == "OpenFile" {
		// opened like os.Create: a write mode, O_CREATE and O_TRUNC on every path, never O_APPEND
		must, may, okf := flagBits(create.Call.Args[1], 0)
		trunc, _ := osConst(c.P, "O_TRUNC")
		creat, _ := osConst(c.P, "O_CREATE")
		wr, _ := osConst(c.P, "O_WRONLY")
		rw, _ := osConst(c.P, "O_RDWR")
		app, _ := osConst(c.P, "O_APPEND")
		if !okf || must&trunc == 0 || must&creat == 0 || must&(wr|rw) == 0 || may&app != 0 {
			c.Bad("R6", "disk.CopyFile closes and reports", create.Pos(), "the destination is not opened with a write mode, O_CREATE and O_TRUNC (and without O_APPEND) on every path — copying over a longer file leaves its old tail")
			return
		}
	}
	switch {
	case create != nil && cp != nil:
		ok, why = analyse(cf, firstOr(resultN(create, 0)), create, firstOr(resultN(create, 1)), cp)
	case create != nil:
		dval := firstOr(resultN(create, 0))
		cfacts := factsFor(cf)
		for _, ci := range Calls(cf) {
			if ci.Static == nil || ci.Static.Pkg != cf.Pkg || ci.Static.Blocks == nil || ci.Kind != "call" {
				continue
			}
			_, hcp := find(ci.Static)
			if hcp == nil {
				continue
			}
			for ai, a := range ci.Common.Args {
				if dval == nil || resolve(a) != dval || ai >= len(ci.Static.Params) {
					continue
				}
				ok, why = analyse(ci.Static, ci.Static.Params[ai], nil, nil, hcp)
				if ok {
					// the helper runs on every path after a successful create, and its result is what CopyFile returns there
					bad := MustPassF(cf, create, func(in ssa.Instruction) bool { return in == ci.Instr }, func(st int, pred, succ *ssa.BasicBlock) bool {
						return !knownNilIn(factsOnEdge(cfacts, pred, succ), firstOr(resultN(create, 1)), false)
					})
					if len(bad) > 0 {
						ok, why = false, "after the destination was created a return is reachable without the copy-and-close helper"
					}
					ret := false
					for _, r := range returnsOf(cf) {
						if resolve(r.Results[len(r.Results)-1]) == ci.Value() {
							ret = true
						}
					}
					if ok && !ret {
						ok, why = false, "the result of the copy-and-close helper is not returned"
					}
				}
			}
		}
	}
	c.Check(ok, "R6", "disk.CopyFile closes and reports", cf.Pos(), "destination closed on every path; Close error returned on success", why)
}

// dirEdgeAlwaysCreates: in a walk callback, every return that can report success
// for a directory node (IsDir() known true) hands on, or follows, a MkdirAll.
func dirEdgeAlwaysCreates(f *ssa.Function, info *ssa.Parameter) bool {
	facts := factsFor(f)
	isMk := func(ci *CallInfo) bool {
		if ci == nil || ci.Static == nil {
			return false
		}
		q := qualName(ci.Static)
		return q == mq(diskPkg, "", "MkdirAll") || q == "os.MkdirAll" || q == "os.Mkdir"
	}
	var mks []*CallInfo
	for _, ci := range Calls(f) {
		if isMk(ci) {
			mks = append(mks, ci)
		}
	}
	isDirKnown := func(fs factSet) bool {
		for k := range fs {
			if call, isCall := k.v.(*ssa.Call); isCall && k.pol && call.Call.Method != nil && call.Call.Method.Name() == "IsDir" && call.Call.Value == ssa.Value(info) {
				return true
			}
		}
		return false
	}
	any := false
	for _, r := range returnsOf(f) {
		if !isDirKnown(facts.At(r.Block())) {
			continue
		}
		any = true
		rv := resolve(r.Results[0])
		if facts.HoldsOnAllEdges(r.Block(), func(fs factSet) bool { return knownNilIn(fs, rv, false) }) {
			continue
		}
		ok := false
		for _, mk := range mks {
			if rv == mk.Value() || dominates(mk.Instr, r) {
				ok = true
			}
		}
		if !ok {
			return false
		}
	}
	return any
}

// ruleHostPathExact (C02.R7, C04.R8): every host path a disk-filespace method hands to an OS primitive is
// exactly root + reduced argument - nothing constant is appended (a ".tmp" sibling, a suffix).
func ruleHostPathExact(c *Ctx, rule string, methods map[string]*ssa.Function, only map[string]bool) int {
	n7 := 0
	for _, mn := range sortedKeys(methods) {
		if only != nil && !only[mn] {
			continue
		}
		f := methods[mn]
		for _, u := range sinkUses(f) {
			if u.Call == nil || !isOSSink(u.Call) {
				continue
			}
			n7++
			con := fmt.Sprintf("diskfs.(Filespace).%s -> %s #%d", mn, lastSeg(u.SinkName), u.ArgIdx)
			// parts: [root field][reduced param] and nothing constant after it
			ok := true
			why := ""
			seenParam := false
			for _, part := range u.Parts {
				isParam := false
				isConst := true
				for _, l := range part {
					if l.Param != nil {
						isParam = true
					}
					if l.NonConst {
						isConst = false
					}
				}
				if isParam {
					seenParam = true
					continue
				}
				if seenParam && isConst {
					// a constant after the argument
					for _, l := range part {
						if s, isS := constString(l.Origin.Val); isS && s != "" && s != "/" {
							ok, why = false, fmt.Sprintf("the constant %q is appended to the addressed path", s)
						}
					}
				}
			}
			c.Check(ok, rule, con, u.Pos(), "root + reduced argument ["+describeParts(u)+"]", why+" — the operation touches a sibling of the addressed node ["+describeParts(u)+"]")
		}
	}
	return n7
}
