package main

import (
	"fmt"
	"go/constant"
	"go/token"
	"go/types"
	"strings"

	"golang.org/x/tools/go/ssa"
)

const helperPkg = "filesystem/fshelper"

func init() {
	register(&PropDef{ID: "C04", Title: "Streams and cross-filespace copies are byte-exact and replace old content", Rules: rulesC04,
		Explanation: "Decided (structural necessary conditions): R1 every successful return of memfs.(*Filespace).Writer is reached only after the target file was freshly created or its content reset (a writer never appends to old content, and truncation does not wait for the first Write); R2 the constant flags of the os.OpenFile behind diskfs.(*Filespace).Writer contain a write mode, O_CREATE and O_TRUNC; R3 in fshelper.StreamCopy and Copier.copyFile the error of io.Copy and the error of closing the destination writer are both tested, their failing edges return them, success (or any value that may be nil) is returned only where both are known nil, the result is not overwritten by a deferred function, and reader and writer are closed on every path after they were opened; R4 fshelper.Copy runs the walk, waits, and returns its error list, and its callbacks return the errors of MkdirAll and StreamCopy; R5 the memory stream handle appends exactly the chunk it was given, reports its length, and keeps no reference to it (the encrypted stream writer likewise: C05.R9). " +
			"Added in round 2: R3 also requires that the destination writer is opened only on the nil edge of the source reader's open (a failed copy does not create or empty the destination); R4 also requires that the per-file callback of fshelper.Copy returns a possibly-nil value only after StreamCopy ran (no 'looks up to date' skip); R6 the walkers of package fsloop look at an entry's name only to recognise '.' and '..' and leave their listing loop early only with a non-nil error (every entry of the source tree is visited); R7 the encrypting stream writer's Close seals, writes and closes the underlying stream and returns each error (same rule as C05.R8). " +
			"Added in round 4: R3 also accepts the error-list idiom (errs = append(errs, wrapped); ...; return aggregate(errs)) where the aggregate can be nil only for an empty list and the list collects on every failing edge; R4/C06.R3/C20.R5 accept a wrapper error built on the failing edge in place of the error itself. " +
			"Added in round 6: R8 the disk Writer/WriteFile hand the host exactly root + argument (same rule as C02.R7): a writer that goes through a fixed sibling name such as <path>.tmp destroys a real file of that name; io.CopyBuffer counts as io.Copy. " +
			"NOT decided: byte equality for all contents, chunkings and buffer sizes; behaviour under injected I/O faults beyond the error-propagation shape.",
	})
}

func osConst(p *Prog, name string) (int64, bool) {
	pk := p.ByPath["os"]
	if pk == nil || pk.Types == nil {
		return 0, false
	}
	cn, ok := pk.Types.Scope().Lookup(name).(*types.Const)
	if !ok {
		return 0, false
	}
	return constant.Int64Val(cn.Val())
}

// ruleDiskWriterFlags (C04.R2 = C02.R1).
func ruleDiskWriterFlags(c *Ctx, rule string) {
	w := c.P.Func("filesystem/filespace/diskfs", "Filespace", "Writer")
	if w == nil {
		c.Bad(rule, "diskfs.(*Filespace).Writer", 0, "anchor not found")
		return
	}
	n := 0
	for _, ci := range Calls(w) {
		if ci.Static == nil || qualName(ci.Static) != "os.OpenFile" {
			continue
		}
		n++
		fl, may, ok := flagBits(ci.Arg(1), 0)
		trunc, _ := osConst(c.P, "O_TRUNC")
		create, _ := osConst(c.P, "O_CREATE")
		wr, _ := osConst(c.P, "O_WRONLY")
		rw, _ := osConst(c.P, "O_RDWR")
		app, _ := osConst(c.P, "O_APPEND")
		var missing []string
		if !ok {
			missing = append(missing, "constant flags")
		} else {
			if fl&trunc == 0 {
				missing = append(missing, "O_TRUNC")
			}
			if fl&create == 0 {
				missing = append(missing, "O_CREATE")
			}
			if fl&(wr|rw) == 0 {
				missing = append(missing, "a write mode")
			}
			if may&app != 0 {
				missing = append(missing, "no O_APPEND")
			}
		}
		c.Check(len(missing) == 0, rule, "open flags of diskfs.(*Filespace).Writer", ci.Pos(), "write mode | O_CREATE | O_TRUNC",
			"the writer's open flags lack "+strings.Join(missing, ", ")+" — a writer over a longer existing file leaves the old tail (or appends)")
	}
	if n == 0 {
		c.Bad(rule, "open flags of diskfs.(*Filespace).Writer", w.Pos(), "the disk writer no longer opens its file with os.OpenFile; cannot certify truncation")
	}
}

// ruleStreamCopy: error discipline of one copy function.
func ruleStreamCopy(c *Ctx, rule string, f *ssa.Function) {
	// the reader/writer/io.Copy sequence may live in a private helper
	hasCopy := func(g *ssa.Function) bool { return len(CallsTo(g, "io.Copy"))+len(CallsTo(g, "io.CopyBuffer")) > 0 }
	orig := f
	if !hasCopy(f) {
		for _, g := range reachableSamePkg(f, 3) {
			if hasCopy(g) {
				c.Note("%s delegates the copy to %s", fname(f), fname(g))
				f = g
				break
			}
		}
	}
	name := fname(f)
	facts := factsFor(f)
	var copyCall, closeW *ssa.Call
	var readerOpen, writerOpen *ssa.Call
	for _, ci := range Calls(f) {
		call, _ := ci.Instr.(*ssa.Call)
		if call == nil {
			continue
		}
		switch {
		case ci.Static != nil && (qualName(ci.Static) == "io.Copy" || qualName(ci.Static) == "io.CopyBuffer"):
			copyCall = call
		case ci.Method != nil && ci.Method.Name() == "Reader":
			readerOpen = call
		case ci.Method != nil && ci.Method.Name() == "Writer":
			writerOpen = call
		}
	}
	if copyCall != nil && (readerOpen == nil || writerOpen == nil) {
		// the streams are opened in one helper and copied in another (open pair / transfer)
		for _, g := range append([]*ssa.Function{orig}, reachableSamePkg(orig, 3)...) {
			var ro, wo *ssa.Call
			for _, ci := range Calls(g) {
				if call, _ := ci.Instr.(*ssa.Call); call != nil && ci.Method != nil {
					switch ci.Method.Name() {
					case "Reader":
						ro = call
					case "Writer":
						wo = call
					}
				}
			}
			if ro != nil && wo != nil {
				ruleStreamCopySplit(c, rule, g, ro, wo, f, copyCall)
				return
			}
		}
	}
	if copyCall == nil || readerOpen == nil || writerOpen == nil {
		c.Bad(rule, "copy discipline of "+name, f.Pos(), "cannot find Reader/Writer/io.Copy in the copy helper; cannot certify")
		return
	}
	wval := resultN(writerOpen, 0)
	rval := resultN(readerOpen, 0)
	isCloseOf := closesOneOf
	// the close of the writer whose error is used
	for _, ci := range Calls(f) {
		call, _ := ci.Instr.(*ssa.Call)
		if call == nil || !isCloseOf(ci, wval) {
			continue
		}
		if len(*call.Referrers()) > 0 && dominates(copyCall, call) {
			closeW = call
		}
	}
	copyErr := resultN(copyCall, 1)
	ok := true
	why := ""
	if len(copyErr) == 0 {
		ok, why = false, "the error of io.Copy is dropped"
	} else if !failingEdgeAlwaysReturns(f, copyErr[0]) && !accumulatedAndReported(f, copyErr[0]) {
		ok, why = false, "the error of io.Copy is not tested with its failing edge returning"
	}
	if ok && closeW == nil {
		ok, why = false, "the error of closing the destination writer is dropped (a failing flush on close is reported as success)"
	}
	// deferred functions must not overwrite the result
	if ok {
		for _, g := range f.AnonFuncs {
			eachInstr(g, func(_ *ssa.BasicBlock, _ int, in ssa.Instruction) {
				if st, isSt := in.(*ssa.Store); isSt {
					if fv, isFV := st.Addr.(*ssa.FreeVar); isFV && isErrorType(derefType(fv.Type())) {
						// accepted only where the result is known to be still nil
						gfacts := factsFor(g)
						guarded := false
						for _, r := range *fv.Referrers() {
							if ld, isLd := r.(*ssa.UnOp); isLd && gfacts.KnownNil(st.Block(), ld, true) {
								guarded = true
							}
						}
						if !guarded {
							ok, why = false, "a deferred function overwrites the result: an earlier copy error is replaced by the result of Close"
						}
					}
				}
			})
		}
	}
	if ok {
		for _, r := range returnsOf(f) {
			v := resolve(r.Results[len(r.Results)-1])
			copyNil := facts.KnownNil(r.Block(), copyErr[0], true)
			closeNil := facts.KnownNil(r.Block(), closeW, true)
			switch {
			case v == ssa.Value(closeW):
				if !copyNil {
					ok, why = false, "the writer's Close result is returned on a path where io.Copy's error was not established nil"
				}
			case isNilConst(v):
				if !(copyNil && closeNil) {
					ok, why = false, "success is returned without io.Copy's and the writer Close's errors both being established nil"
				}
			default:
				if facts.KnownNil(r.Block(), v, false) {
					continue // a tested, non-nil error
				}
				// the aggregate of a list that collected both errors
				if call, isCall := v.(*ssa.Call); isCall && isErrAggregator(call.Call.StaticCallee()) &&
					(copyNil || collectedWhenFailing(f, copyErr[0], call.Call.Args[0], 0, map[ssa.Value]bool{})) &&
					(closeNil || collectedWhenFailing(f, closeW, call.Call.Args[0], 0, map[ssa.Value]bool{})) {
					continue
				}
				if !(copyNil && closeNil) {
					ok, why = false, "a possibly-nil value is returned at "+c.pos(r.Pos())+" without both errors being established nil"
				}
			}
		}
	}
	c.Check(ok, rule, "copy discipline of "+name, f.Pos(), "io.Copy's and the writer Close's errors are tested, returned on failure, and both nil on success", why+" — the destination is not a complete copy although the helper reports success")
	// the destination is opened (created / truncated) only after the source could be opened
	srcFirst := dominates(readerOpen, writerOpen) && callErrKnownNil(facts, readerOpen, writerOpen.Block())
	c.Check(srcFirst, rule, "source opened before destination in "+name, writerOpen.Pos(), "the writer is opened on the nil edge of the reader's open",
		"the destination writer is opened before the source reader is known to be available — a copy whose source is missing fails, but has already created or emptied the destination (behind a cache that empty file is journaled and committed over the remote one)")
	// closes on every path after open
	for _, pair := range []struct {
		open *ssa.Call
		vals []ssa.Value
		what string
	}{{readerOpen, rval, "reader"}, {writerOpen, wval, "writer"}} {
		open := pair.open
		vals := pair.vals
		bad := MustPassF(f, open, func(in ssa.Instruction) bool {
			ci := callInfo(in, nil, 0)
			return ci != nil && isCloseOf(ci, vals)
		}, func(st int, pred, succ *ssa.BasicBlock) bool {
			// only paths on which the open succeeded
			return !knownNilIn(factsOnEdge(facts, pred, succ), firstOr(resultN(open, 1)), false)
		})
		c.Check(len(bad) == 0, rule, pair.what+" closed on every path in "+name, open.Pos(), "Close on every path after a successful open", "a return is reachable with the "+pair.what+" still open (on a memory filespace the file stays locked)")
	}
}

func firstOr(vs []ssa.Value) ssa.Value {
	if len(vs) > 0 {
		return vs[0]
	}
	return nil
}

func derefType(t types.Type) types.Type {
	if pt, ok := t.(*types.Pointer); ok {
		return pt.Elem()
	}
	return t
}

func rulesC04(c *Ctx) {
	// ---- R1 memory writer truncates -------------------------------------------------
	ruleMemWriterTruncates(c, "R1")

	// ---- R2 disk writer truncates ---------------------------------------------------------
	ruleDiskWriterFlags(c, "R2")

	// ---- R8 the disk writer opens exactly the addressed path (same rule as C02.R7) --------------
	// (a writer that goes through "<path>.tmp" and renames replaces the content of a real sibling of that name)
	if dT := c.P.Named(diskfsPkg, "Filespace"); dT != nil {
		if fi := c.P.Iface("filesystem", "Filespace"); fi != nil {
			c.Floor("R8", ruleHostPathExact(c, "R8", c.P.MethodsOf(dT, fi), map[string]bool{"Writer": true, "WriteFile": true}), 1)
		}
	}

	// ---- R3 stream copy -----------------------------------------------------------------------
	for _, f := range []*ssa.Function{c.P.Func(helperPkg, "", "StreamCopy"), c.P.Func(helperPkg, "Copier", "copyFile")} {
		if f == nil {
			c.Bad("R3", "fshelper.StreamCopy / Copier.copyFile", 0, "anchor not found")
			continue
		}
		ruleStreamCopy(c, "R3", f)
	}
	c.Floor("R3", c.Count("R3"), 3)

	// ---- R4 tree copy reports --------------------------------------------------------------------
	cp := c.P.Func(helperPkg, "", "Copy")
	if cp == nil {
		c.Bad("R4", "fshelper.Copy", 0, "anchor not found")
	} else {
		var runC, waitC, errsC ssa.Instruction
		for _, ci := range Calls(cp) {
			if ci.Static == nil {
				continue
			}
			switch qualName(ci.Static) {
			case mq(loopPkg, "Loop", "Run"):
				runC = ci.Instr
			case mq(loopPkg, "Loop", "Wait"):
				waitC = ci.Instr
			case mq(loopPkg, "Loop", "Errors"):
				errsC = ci.Instr
			}
		}
		ok := runC != nil && waitC != nil && errsC != nil && dominates(runC, waitC) && dominates(waitC, errsC)
		if ok {
			ok = false
			for _, r := range returnsOf(cp) {
				if derivesFrom(r.Results[0], errsC.(ssa.Value), 0) {
					ok = true
				}
			}
		}
		c.Check(ok, "R4", "fshelper.Copy runs, waits, reports", cp.Pos(), "Run -> Wait -> return ToError(Errors())", "the tree copy does not wait for the walk or does not return its errors")
		n := 0
		callbacks := loopCallbacks(cp)
		for _, g := range callbacks {
			facts := factsFor(g)
			for _, ci := range Calls(g) {
				call, isCall := ci.Instr.(*ssa.Call)
				if !isCall {
					continue
				}
				idx := errResultIndex(call.Call.Signature())
				if idx < 0 {
					continue
				}
				n++
				okE := false
				errs := resultN(call, idx)
				for _, ev := range errs {
					for _, r := range returnsOf(g) {
						rv := resolve(r.Results[0])
						if rv == ev || sameValue(rv, ev) {
							if facts.KnownNil(r.Block(), ev, false) || rv == ssa.Value(call) {
								okE = true
							}
						}
						// an error built on the failing edge (a wrapper naming the node)
						if facts.KnownNil(r.Block(), ev, false) && isNonNilErrValue(rv, 0) {
							okE = true
						}
					}
				}
				c.Check(okE, "R4", fmt.Sprintf("copy callback returns the error of %s", lastSeg(ci.Name())), ci.Pos(), "returned to the walk", "an error of the per-node copy step is dropped — the destination is incomplete without an error")
			}
		}
		// the per-file callback reports success only after the stream copy ran
		// the per-directory callback creates the visited directory itself (not merely its parent):
		// otherwise empty directories are missing from the copy
		for _, g := range loopCallbacksOf(cp, "OnDir") {
			ps := stringParams(g)
			if len(ps) == 0 {
				continue
			}
			sub := ps[len(ps)-1]
			okDir, seen := false, false
			for _, h := range append([]*ssa.Function{g}, reachableSamePkg(g, 2)...) {
				for _, ci := range Calls(h) {
					if ci.Method == nil || ci.Method.Name() != "MkdirAll" {
						continue
					}
					for _, o := range Origins(ci.Arg(0), FlowOpts{LiftParams: 2}) {
						if o.Val != ssa.Value(sub) {
							continue
						}
						seen = true
						viaDir := false
						for _, st := range o.Path {
							if st == "Dir" {
								viaDir = true
							}
						}
						if !viaDir {
							okDir = true
						}
					}
				}
			}
			n++
			c.Check(okDir || !seen && false, "R4", "per-directory callback of fshelper.Copy creates the visited directory", g.Pos(), "MkdirAll(subPath) on the destination",
				"the per-directory callback does not create the visited directory itself (only its parent, or nothing) — empty directories of the source are missing from the copy although Copy returns nil")
		}
		scName := mq(helperPkg, "", "StreamCopy")
		for _, g := range callbacks {
			scs := CallsTo(g, scName)
			if len(scs) == 0 || errResultIndex(g.Signature) < 0 {
				continue
			}
			n++
			facts := factsFor(g)
			bad := ""
			var pos token.Pos
			for _, r := range returnsOf(g) {
				rv := resolve(r.Results[errResultIndex(g.Signature)])
				if facts.HoldsOnAllEdges(r.Block(), func(fs factSet) bool { return knownNilIn(fs, rv, false) }) {
					continue // an error return
				}
				okR := false
				for _, sc := range scs {
					if rv == sc.Value() || dominates(sc.Instr, r) {
						okR = true
					}
				}
				if !okR {
					bad, pos = "the per-file callback can return nil without having streamed the file", r.Pos()
				}
			}
			c.Check(bad == "", "R4", "per-file callback of fshelper.Copy copies before it reports success", orPos(pos, g.Pos()), "every possibly-nil return follows StreamCopy",
				bad+" — a destination file that merely looks current (same size, newer time) keeps its old bytes and the tree copy returns nil")
		}
		c.Floor("R4", n, 3)
	}

	// ---- R5 handle protocol ---------------------------------------------------------------------------
	hw := c.P.Func(memfsPkg, "FileHandler", "Write")
	if hw == nil {
		c.Bad("R5", "memfs.(*FileHandler).Write", 0, "anchor not found")
	} else {
		p := hw.Params[1]
		okApp, okLen := false, false
		eachInstr(hw, func(_ *ssa.BasicBlock, _ int, in ssa.Instruction) {
			st, isSt := in.(*ssa.Store)
			if !isSt {
				return
			}
			fa, isFA := st.Addr.(*ssa.FieldAddr)
			if !isFA || fieldName(fa) != "memfs.File.data" {
				return
			}
			if call, isCall := st.Val.(*ssa.Call); isCall {
				if b, isB := call.Call.Value.(*ssa.Builtin); isB && b.Name() == "append" && len(call.Call.Args) == 2 {
					if n, _ := fieldLoadName(call.Call.Args[0]); n == "data" && call.Call.Args[1] == ssa.Value(p) {
						okApp = true
					}
				}
			}
		})
		for _, r := range returnsOf(hw) {
			if isLenOf(resolve(r.Results[0]), p) && isNilConst(resolve(r.Results[1])) {
				okLen = true
			}
		}
		c.Floor("R5", ruleWritersCopyChunks(c, "R5", "filesystem/"), 2)
		c.Check(okApp && okLen, "R5", "memfs.(*FileHandler).Write appends the chunk", hw.Pos(), "data = append(data, p...); returns len(p), nil", "the write handle does not append exactly the given chunk / does not report its length — the file is not the concatenation of the chunks")
	}

	// ---- R6 the walker behind the tree copy visits every entry --------------------------------------
	c.Floor("R6", ruleWalkersVisitAll(c, "R6"), 2)
	// ---- R7 an encrypted destination reports the failure of its underlying stream (same rule as C05.R8) ----
	c.Floor("R7", ruleEncryptedWriterClose(c, "R7"), 1)
}

// closesOneOf: the call (or deferred call / deferred function literal) closes
// one of the given stream values, also when the stream variable is captured.
func closesOneOf(ci *CallInfo, vals []ssa.Value) bool {
	holds := func(a *ssa.Alloc) bool {
		for _, r := range *a.Referrers() {
			if st, isSt := r.(*ssa.Store); isSt && st.Addr == ssa.Value(a) {
				for _, v := range vals {
					if st.Val == v || resolve(st.Val) == v {
						return true
					}
				}
			}
		}
		return false
	}
	if ci.Kind == "defer" {
		if mc, isMC := ci.Common.Value.(*ssa.MakeClosure); isMC {
			if g, isFn := mc.Fn.(*ssa.Function); isFn && !strings.HasSuffix(g.Name(), "$bound") {
				for _, inner := range Calls(g) {
					if inner.Method == nil || inner.Method.Name() != "Close" {
						continue
					}
					if ld, isLd := inner.Recv().(*ssa.UnOp); isLd {
						if fv, isFV := ld.X.(*ssa.FreeVar); isFV {
							if a, isA := bindingOf(fv).(*ssa.Alloc); isA && holds(a) {
								return true
							}
						}
					}
				}
				return false
			}
		}
	}
	if ci.Method == nil || ci.Method.Name() != "Close" {
		return false
	}
	recv := ci.Recv()
	for _, v := range vals {
		if resolve(recv) == v || sameValue(resolve(recv), v) {
			return true
		}
	}
	if ld, isLd := recv.(*ssa.UnOp); isLd {
		if a, isA := ld.X.(*ssa.Alloc); isA && holds(a) {
			return true
		}
	}
	return false
}

// closesParamAlways: g closes its parameter number idx on every path to every
// return (directly, deferred, or in a deferred function literal).
func closesParamAlways(g *ssa.Function, idx int) bool {
	if g == nil || g.Blocks == nil || idx >= len(g.Params) {
		return false
	}
	vals := []ssa.Value{g.Params[idx]}
	bad := MustPass(g, nil, func(in ssa.Instruction) bool {
		ci := callInfo(in, nil, 0)
		return ci != nil && closesOneOf(ci, vals)
	})
	return len(bad) == 0
}

// ruleMemWriterTruncates: every successful return of memfs.(*Filespace).Writer
// follows a fresh NewFile or a content reset.
func ruleMemWriterTruncates(c *Ctx, rule string) {
	// ---- R1 memory writer truncates -------------------------------------------------
	mw := c.P.Func(memfsPkg, "Filespace", "Writer")
	if mw == nil {
		c.Bad(rule, "memfs.(*Filespace).Writer", 0, "anchor not found")
	} else {
		isReset := func(in ssa.Instruction) bool {
			ci := callInfo(in, nil, 0)
			if ci == nil || ci.Static == nil || ci.Kind != "call" {
				return false
			}
			switch qualName(ci.Static) {
			case mq(memfsPkg, "", "NewFile"):
				return true
			case mq(memfsPkg, "File", "setData"):
				// with an empty slice
				os := Origins(ci.Arg(0), FlowOpts{Alias: true})
				return allOrigins(os, func(o Origin) bool { return o.Kind == "alloc" || o.Kind == "nil" })
			}
			// any method of File that empties the content on every path (truncate: f.data = f.data[:0])
			return emptiesFileData(ci)
		}
		// the open logic may have moved into a private helper whose result Writer returns
		hasReset := func(g *ssa.Function) bool {
			found := false
			eachInstr(g, func(_ *ssa.BasicBlock, _ int, in ssa.Instruction) {
				if isReset(in) {
					found = true
				}
			})
			return found
		}
		if !hasReset(mw) {
			for _, g := range reachableSamePkg(mw, 2) {
				if hasReset(g) && g.Signature.Results().Len() == mw.Signature.Results().Len() {
					delegated := false
					for _, r := range returnsOf(mw) {
						if ex, ok := resolve(r.Results[0]).(*ssa.Extract); ok {
							if call, ok := ex.Tuple.(*ssa.Call); ok && call.Call.StaticCallee() == g {
								delegated = true
							}
						}
					}
					if delegated {
						c.Note("memfs Writer delegates to %s", fname(g))
						mw = g
						break
					}
				}
			}
		}
		resetDeep := ipEventOK(isReset, 2)
		exits := RunPaths(mw, nil, 0, func(st int, in ssa.Instruction, d bool) int {
			if resetDeep(in) {
				return 1
			}
			return st
		}, false, nil)
		bad := ""
		n := 0
		for _, e := range exits {
			r := e.Instr.(*ssa.Return)
			if isNilConst(resolve(r.Results[0])) {
				continue // failing return (nil writer)
			}
			n++
			if e.State == 0 {
				bad = c.pos(r.Pos())
			}
		}
		c.Check(bad == "" && n > 0, rule, "memfs.(*Filespace).Writer hands out an empty file", mw.Pos(), "every returned writer follows a fresh NewFile or a content reset",
			"the writer returned at "+bad+" is handed out without the existing content having been reset at open time — a writer over an existing file appends to it, or an empty stream leaves the old content")
	}

}

// ruleStreamCopySplit: the same discipline when the streams are opened in one
// function (O) and copied/closed in another (T) that receives them.
func ruleStreamCopySplit(c *Ctx, rule string, O *ssa.Function, readerOpen, writerOpen *ssa.Call, T *ssa.Function, copyCall *ssa.Call) {
	name := fname(T)
	ofacts := factsFor(O)
	srcFirst := dominates(readerOpen, writerOpen) && callErrKnownNil(ofacts, readerOpen, writerOpen.Block())
	c.Check(srcFirst, rule, "source opened before destination in "+fname(O), writerOpen.Pos(), "the writer is opened on the nil edge of the reader's open",
		"the destination writer is opened before the source reader is known to be available — a copy whose source is missing fails, but has already created or emptied the destination (behind a cache that empty file is journaled and committed over the remote one)")
	// O: once the reader is open, every failing return closes it
	rvalO := resultN(readerOpen, 0)
	ei := errResultIndex(O.Signature)
	leak := ""
	for _, e := range MustPassF(O, readerOpen, func(in ssa.Instruction) bool {
		ci := callInfo(in, nil, 0)
		return ci != nil && (closesOneOf(ci, rvalO) || closesFieldHolding(ci, rvalO))
	}, func(st int, pred, succ *ssa.BasicBlock) bool {
		return !knownNilIn(factsOnEdge(ofacts, pred, succ), firstOr(resultN(readerOpen, 1)), false)
	}) {
		r, isR := e.Instr.(*ssa.Return)
		if !isR || ei < 0 {
			continue
		}
		if ofacts.HoldsOnAllEdges(r.Block(), func(fs factSet) bool { return knownNilIn(fs, r.Results[ei], false) }) {
			leak = c.pos(r.Pos())
		}
	}
	c.Check(leak == "", rule, "reader closed when the pair cannot be opened in "+fname(O), readerOpen.Pos(), "every failing return after the reader was opened closes it",
		"the failing return at "+leak+" leaves the source reader open (on a memory filespace the file stays locked)")
	// T: io.Copy(w, r) with w, r handed in
	facts := factsFor(T)
	w := unwrapChange(resolve(copyCall.Call.Args[0]))
	r := unwrapChange(resolve(copyCall.Call.Args[1]))
	wv, rv := []ssa.Value{w}, []ssa.Value{r}
	var closeW *ssa.Call
	for _, ci := range Calls(T) {
		call, _ := ci.Instr.(*ssa.Call)
		if call == nil || !closesOneOf(ci, wv) {
			continue
		}
		if len(*call.Referrers()) > 0 && dominates(copyCall, call) {
			closeW = call
		}
	}
	copyErr := resultN(copyCall, 1)
	ok, why := true, ""
	switch {
	case len(copyErr) == 0:
		ok, why = false, "the error of io.Copy is dropped"
	case !failingEdgeAlwaysReturns(T, copyErr[0]):
		ok, why = false, "the error of io.Copy is not tested with its failing edge returning"
	case closeW == nil:
		ok, why = false, "the error of closing the destination writer is dropped (a failing flush on close is reported as success)"
	}
	if ok {
		for _, ret := range returnsOf(T) {
			v := resolve(ret.Results[len(ret.Results)-1])
			copyNil := facts.KnownNil(ret.Block(), copyErr[0], true)
			closeNil := facts.KnownNil(ret.Block(), closeW, true)
			switch {
			case v == ssa.Value(closeW):
				if !copyNil {
					ok, why = false, "the writer's Close result is returned on a path where io.Copy's error was not established nil"
				}
			case facts.KnownNil(ret.Block(), v, false):
			default:
				if !(copyNil && closeNil) {
					ok, why = false, "a possibly-nil value is returned at "+c.pos(ret.Pos())+" without both errors being established nil"
				}
			}
		}
	}
	c.Check(ok, rule, "copy discipline of "+name, T.Pos(), "io.Copy's and the writer Close's errors are tested, returned on failure, and both nil on success", why+" — the destination is not a complete copy although the helper reports success")
	for _, pair := range []struct {
		vals []ssa.Value
		what string
	}{{rv, "reader"}, {wv, "writer"}} {
		vals := pair.vals
		bad := MustPass(T, nil, func(in ssa.Instruction) bool {
			ci := callInfo(in, nil, 0)
			return ci != nil && closesOneOf(ci, vals)
		})
		c.Check(len(bad) == 0, rule, pair.what+" closed on every path in "+name, T.Pos(), "Close on every path", "a return is reachable with the "+pair.what+" still open (on a memory filespace the file stays locked)")
	}
}

// closesFieldHolding: Close on a load of a struct field into which one of vals was stored.
func closesFieldHolding(ci *CallInfo, vals []ssa.Value) bool {
	if ci.Method == nil || ci.Method.Name() != "Close" {
		return false
	}
	ld, ok := ci.Recv().(*ssa.UnOp)
	if !ok {
		return false
	}
	fa, ok := ld.X.(*ssa.FieldAddr)
	if !ok {
		return false
	}
	for _, r := range *fa.X.Referrers() {
		fa2, ok := r.(*ssa.FieldAddr)
		if !ok || fa2.Field != fa.Field {
			continue
		}
		for _, rr := range *fa2.Referrers() {
			if st, isSt := rr.(*ssa.Store); isSt && st.Addr == ssa.Value(fa2) {
				for _, v := range vals {
					if st.Val == v || resolve(st.Val) == v {
						return true
					}
				}
			}
		}
	}
	return false
}

// loopCallbacks: the functions a function (or its private helpers) stores into
// the OnDir / OnFile slots of an fsloop.LoopData: literals, method values or
// named functions.
func loopCallbacks(f *ssa.Function) []*ssa.Function {
	return append(loopCallbacksOf(f, "OnFile"), loopCallbacksOf(f, "OnDir")...)
}

func loopCallbacksOf(f *ssa.Function, slot string) []*ssa.Function {
	var out []*ssa.Function
	seen := map[*ssa.Function]bool{}
	for _, g := range append(withClosures(f), reachableSamePkg(f, 2)...) {
		eachInstr(g, func(_ *ssa.BasicBlock, _ int, in ssa.Instruction) {
			st, ok := in.(*ssa.Store)
			if !ok {
				return
			}
			fa, ok := st.Addr.(*ssa.FieldAddr)
			if !ok || !strings.HasSuffix(fieldName(fa), "LoopData."+slot) {
				return
			}
			var fn *ssa.Function
			switch x := unwrapChange(resolve(st.Val)).(type) {
			case *ssa.MakeClosure:
				fn, _ = x.Fn.(*ssa.Function)
				if fn != nil && strings.HasSuffix(fn.Name(), "$bound") && fn.Object() != nil {
					if fo, ok := fn.Object().(*types.Func); ok {
						if real := fn.Prog.FuncValue(fo); real != nil {
							fn = real
						}
					}
				}
			case *ssa.Function:
				fn = x
			}
			if fn != nil && !seen[fn] {
				seen[fn] = true
				out = append(out, fn)
			}
		})
	}
	return out
}

// emptiesFileData: the call is a method of memfs.File that, on every path, stores a
// zero-length value into File.data (nil, []byte{}, x[:0], make([]byte, 0), or a
// parameter for which this call passes such a value) and never a longer one.
func emptiesFileData(ci *CallInfo) bool {
	h := ci.Static
	if h == nil || h.Blocks == nil || h.Signature.Recv() == nil || !strings.HasSuffix(qualName(h), mq(memfsPkg, "File", h.Name())) {
		return false
	}
	var isEmpty func(v ssa.Value, args []ssa.Value, d int) bool
	isEmpty = func(v ssa.Value, args []ssa.Value, d int) bool {
		if d > 4 {
			return false
		}
		v = resolve(v)
		switch x := v.(type) {
		case *ssa.Const:
			return x.Value == nil
		case *ssa.MakeSlice:
			k, ok := constInt(x.Len)
			return ok && k == 0
		case *ssa.Slice:
			if x.High != nil {
				if k, ok := constInt(x.High); ok && k == 0 {
					return true
				}
			}
			if a, ok := x.X.(*ssa.Alloc); ok {
				if at, ok := derefType(a.Type()).Underlying().(*types.Array); ok && at.Len() == 0 {
					return true
				}
			}
			return false
		case *ssa.Parameter:
			if args == nil {
				return false
			}
			for i, p := range x.Parent().Params {
				if p == x && i < len(args) {
					return isEmpty(args[i], nil, d+1)
				}
			}
		}
		return false
	}
	stores := 0
	okAll := true
	isStore := func(in ssa.Instruction) bool {
		st, ok := in.(*ssa.Store)
		if !ok {
			return false
		}
		fa, ok := st.Addr.(*ssa.FieldAddr)
		return ok && fieldName(fa) == "memfs.File.data"
	}
	eachInstr(h, func(_ *ssa.BasicBlock, _ int, in ssa.Instruction) {
		if isStore(in) {
			stores++
			if !isEmpty(in.(*ssa.Store).Val, ci.Common.Args, 0) {
				okAll = false
			}
		}
	})
	return stores > 0 && okAll && len(MustPass(h, nil, isStore)) == 0
}
