package main

import (
	"fmt"
	"go/token"
	"go/types"
	"strings"

	"golang.org/x/tools/go/ssa"
)

func init() {
	register(&PropDef{ID: "C07", Title: "Cache view reflects its own pending operations (read-your-writes)", Rules: rulesC07,
		Explanation: "Decided (structural necessary conditions, fscache.Cache): R1 the source of a read is the remote only on the edge where the buffer does not have the path, and the three boolean queries consult the buffer and the remote with the same-named query; R2 ReadDir issues both listings, fails only if both fail, keeps the remote entries and appends a buffer entry unless a remote entry with the same Name() is found by a scan that covers the whole remote listing from its first element; R3 Remove/RemoveAll reach, on every path, the buffer-presence test that removes the buffered node and the journal recorder (a second removal after a re-creation still clears the buffer); R4 every read-type method that can answer from the remote depends on the removal journals — necessary by an information argument: after Remove(p) of a remote-only p neither buffer nor remote changed, only the journal distinguishes 'removed' from 'untouched'; R5 the child views handed out by the cache (fshelper.SubFS, also nested) keep a separator-terminated base, so a view's own writes are visible at the same names through the view, its parent and the cache. " +
			"R6 the cache's buffer is a memory filespace, so its check-then-create on the directory index must be atomic (same rule as C09.L4): otherwise two writers through the cache create one directory twice and a written file cannot be read back. " +
			"Added in round 4: R1 also requires that Reader/ReadFile/Lstat (and their private stages) refuse an operation on the strength of an answer that includes the remote (the remote itself or a cache-level query that asks it) only where the buffer is known not to hold the path; R2 also requires that the merge of the two listings does not compare names with an ordering operator unless both listings are sorted first (the memory buffer lists in creation order). " +
			"Added in round 5: R7 the read operations (ReadDir, IsExist, IsFile, IsDir, Reader, ReadFile, Lstat and what they call in the package) write nothing into the cache object: a memoised answer would have to be invalidated by every operation that can change it through any path (nested creates, removes of ancestors, child views). " +
			"R4 is violated on today's tree by five constructs (known finding KF-2, listed in known_findings.json): removed remote files and directories stay visible until Commit. NOT decided: that answers equal 'remote + pending operations' on all interleavings; child views of the cache.",
	})
}

func rulesC07(c *Ctx) {
	cacheT := c.P.Named(cachePkg, "Cache")
	fiface := c.P.Iface("filesystem", "Filespace")
	if cacheT == nil || fiface == nil {
		c.Bad("anchor", "fscache.Cache", 0, "anchor not found; cannot certify")
		return
	}
	roles := discoverCacheRoles(c)
	if roles == nil || roles.remote == "" || roles.buffer == "" || roles.remote == roles.buffer {
		c.Bad("anchor", "fscache.Cache roles", 0, "cannot discover the cache's remote and buffer filespace; cannot certify")
		return
	}
	remote, buffer := roles.remote, roles.buffer
	methods := c.P.MethodsOf(cacheT, fiface)
	// the read-source selector: the unexported method of Cache that hands out a filespace
	var srcFS *ssa.Function
	for _, f := range c.P.PkgFuncs(cachePkg) {
		if f.Signature.Recv() == nil || f.Parent() != nil || f.Object() == nil || f.Object().Exported() {
			continue
		}
		res := f.Signature.Results()
		for i := 0; i < res.Len(); i++ {
			if n, ok := res.At(i).Type().(*types.Named); ok && n.Obj().Name() == "Filespace" && n.Obj().Pkg().Path() == modPath+"/filesystem" {
				srcFS = f
			}
		}
	}

	// ---- R1 buffer first ----------------------------------------------------------------
	if srcFS == nil {
		c.Bad("R1", "read-source selector of fscache.Cache", 0, "no unexported method of Cache hands out the filespace to read from; cannot certify the buffer-first rule")
	} else {
		facts := factsFor(srcFS)
		ok := false
		why := "the read-source selector does not choose between buffer and remote on a buffer-presence test"
		presence := func(fs factSet) (has, known bool) {
			for k := range fs {
				if call, isCall := k.v.(*ssa.Call); isCall && call.Call.Method != nil && call.Call.Method.Name() == "IsExist" && fromField(call.Call.Value, buffer) {
					return k.pol, true
				}
			}
			return false, false
		}
		okAll := true
		sawR, sawB := false, false
		judge := func(v ssa.Value, fs factSet) {
			has, known := presence(fs)
			switch {
			case fromField(v, remote) && !fromField(v, buffer):
				sawR = true
				if !known || has {
					okAll, why = false, "the remote is chosen without the buffer having been found not to hold the path"
				}
			case fromField(v, buffer) && !fromField(v, remote):
				sawB = true
				if !known || !has {
					okAll, why = false, "the buffer is chosen without the presence test"
				}
			}
		}
		for _, r := range returnsOf(srcFS) {
			for _, res := range r.Results {
				if _, isIface := res.Type().Underlying().(*types.Interface); !isIface {
					continue
				}
				if p, isPhi := resolve(res).(*ssa.Phi); isPhi {
					for i, e := range p.Edges {
						judge(e, factsOnEdge(facts, p.Block().Preds[i], p.Block()))
					}
				} else {
					judge(res, facts.At(r.Block()))
				}
			}
		}
		if okAll && sawR && sawB {
			ok = true
		}
		c.Check(ok, "R1", "read source: buffer first", srcFS.Pos(), "remote only on the buffer-miss edge", why+" — written data is shadowed by the stale remote copy")
	}
	for _, q := range []string{"IsExist", "IsFile", "IsDir"} {
		f := methods[q]
		if f == nil {
			c.Bad("R1", "fscache.(Cache)."+q, 0, "anchor not found")
			continue
		}
		b, r := false, false
		for _, ci := range Calls(f) {
			if ci.Method != nil && ci.Method.Name() == q {
				if fromField(ci.Recv(), buffer) {
					b = true
				}
				if fromField(ci.Recv(), remote) {
					r = true
				}
			}
		}
		// buffer true => result true: the buffer query short-circuits to true
		c.Check(b && r, "R1", "fscache.(Cache)."+q+" consults both sides", f.Pos(), "buffer."+q+" and remote."+q, "the query does not ask both the buffer and the remote with "+q)
	}

	// buffer first, also for refusals: a read operation fails on the strength of an answer that
	// includes the remote (the remote itself, or a query of the cache that asks it) only where the
	// buffer is known not to hold the path - a pending write must not be hidden by what the remote still has
	{
		remoteMemo := map[*ssa.Function]int{}
		var consultsRemote func(g *ssa.Function, d int) bool
		consultsRemote = func(g *ssa.Function, d int) bool {
			if g == nil || g.Blocks == nil || d > 3 {
				return false
			}
			if r, ok := remoteMemo[g]; ok {
				return r == 1
			}
			remoteMemo[g] = 2
			for _, ci := range Calls(g) {
				if ci.Method != nil && fromField(ci.Recv(), remote) {
					remoteMemo[g] = 1
					return true
				}
				if ci.Static != nil && ci.Static.Pkg == g.Pkg && ci.Static != srcFS && consultsRemote(ci.Static, d+1) {
					remoteMemo[g] = 1
					return true
				}
			}
			return false
		}
		for _, mn := range []string{"Reader", "ReadFile", "Lstat"} {
			f := methods[mn]
			if f == nil {
				continue
			}
			for _, g := range append([]*ssa.Function{f}, reachableSamePkg(f, 2)...) {
				if g != f && (g == srcFS || g.Object() == nil || g.Object().Exported()) {
					continue
				}
				gf := factsFor(g)
				for _, r := range returnsOf(g) {
					ei := errResultIndex(g.Signature)
					if ei < 0 || !isNonNilErrValue(resolve(r.Results[ei]), 0) {
						continue
					}
					bad := ""
					bufferMiss := false
					for k := range gf.At(r.Block()) {
						call, isCall := k.v.(*ssa.Call)
						if !isCall {
							continue
						}
						if call.Call.IsInvoke() {
							if fromField(call.Call.Value, buffer) && call.Call.Method.Name() == "IsExist" && !k.pol {
								bufferMiss = true
							}
							if fromField(call.Call.Value, remote) && !fromField(call.Call.Value, buffer) {
								bad = "remote." + call.Call.Method.Name()
							}
							continue
						}
						if h := call.Call.StaticCallee(); h != nil && h.Pkg == g.Pkg && consultsRemote(h, 0) {
							bad = fname(h)
						}
					}
					if bad != "" {
						c.Check(bufferMiss, "R1", fmt.Sprintf("refusal in %s (read path of %s)", fname(g), mn), r.Pos(), "only where the buffer is known not to hold the path",
							"the operation is refused on the strength of "+bad+", which asks the remote, without the buffer having been found not to hold the path — a file written through the cache over a (removed) remote node cannot be read back")
					}
				}
			}
		}
	}

	// ---- R7 the view remembers no answers: read operations do not write the cache object ----
	// (a memoised listing/answer must be invalidated by every operation that can change it, directly or
	// through a parent or child path; nothing but recomputing from buffer + remote + journals is safe)
	{
		n7 := 0
		for _, mn := range []string{"ReadDir", "IsExist", "IsFile", "IsDir", "Reader", "ReadFile", "Lstat"} {
			f := methods[mn]
			if f == nil {
				continue
			}
			n7++
			bad, pos := writesOwnPackageState(f, cachePkg)
			c.Check(bad == "", "R7", "fscache.(Cache)."+mn+" keeps no memo", orPos(pos, f.Pos()), "the read operation writes nothing into the cache object",
				bad+" during a read operation — an answer remembered in the cache object goes stale when a later operation changes it by way of another path (a nested create, a remove of an ancestor, a child view)")
		}
		c.Floor("R7", n7, 5)
	}

	// ---- R2 listing merges both sides by name ------------------------------------------------------
	if f := methods["ReadDir"]; f == nil {
		c.Bad("R2", "fscache.(Cache).ReadDir", 0, "anchor not found")
	} else {
		facts := factsFor(f)
		var rb, rr *ssa.Call
		for _, ci := range Calls(f) {
			if ci.Method != nil && ci.Method.Name() == "ReadDir" {
				call, _ := ci.Instr.(*ssa.Call)
				if fromField(ci.Recv(), buffer) {
					rb = call
				}
				if fromField(ci.Recv(), remote) {
					rr = call
				}
			}
		}
		ok := rb != nil && rr != nil
		why := "ReadDir does not list both the buffer and the remote"
		if ok {
			// error only if both failed
			for _, r := range returnsOf(f) {
				if isNilConst(resolve(r.Results[1])) {
					continue
				}
				e1 := facts.KnownNil(r.Block(), firstOr(resultN(rb, 1)), false)
				e2 := facts.KnownNil(r.Block(), firstOr(resultN(rr, 1)), false)
				if !(e1 && e2) {
					ok, why = false, "ReadDir fails although only one side failed (a directory that exists only in the buffer or only on the remote cannot be listed)"
				}
			}
			// duplicate scan covers the whole remote listing
			remoteList := firstOr(resultN(rr, 0))
			scanOK, names := false, 0
			_ = remoteList
			sawScan, badScan := false, false
			for _, g := range reachableSamePkg(f, 2) {
				gNames := 0
				for _, ci := range Calls(g) {
					if ci.Method != nil && ci.Method.Name() == "Name" {
						gNames++
					}
				}
				names += gNames
				eachInstr(g, func(b *ssa.BasicBlock, _ int, in ssa.Instruction) {
					ia, isIA := in.(*ssa.IndexAddr)
					if !isIA || !inLoop(g, b) {
						return
					}
					if _, isSl := ia.X.Type().Underlying().(*types.Slice); !isSl {
						return
					}
					// element loads of FileInfo listings only
					if !strings.Contains(ia.X.Type().String(), "FileInfo") {
						return
					}
					sawScan = true
					if !ascendingIndex(ia.Index) {
						badScan = true
					}
				})
			}
			// the merge must not rely on the listings being ordered: an ordering comparison between two
			// Name() results is only sound after both listings were sorted here (memfs lists in creation order)
			for _, g := range reachableSamePkg(f, 2) {
				var cmp *ssa.BinOp
				sorts := 0
				eachInstr(g, func(_ *ssa.BasicBlock, _ int, in ssa.Instruction) {
					if bo, isBo := in.(*ssa.BinOp); isBo {
						switch bo.Op {
						case token.LSS, token.GTR, token.LEQ, token.GEQ:
							isName := func(v ssa.Value) bool {
								call, isCall := resolve(v).(*ssa.Call)
								return isCall && call.Call.IsInvoke() && call.Call.Method.Name() == "Name"
							}
							if isStringy(bo.X.Type()) && isName(bo.X) && isName(bo.Y) && g.Parent() == nil {
								cmp = bo
							}
						}
					}
				})
				for _, ci := range Calls(g) {
					if ci.Static != nil && ci.Static.Pkg != nil && ci.Static.Pkg.Pkg.Path() == "sort" {
						sorts++
					}
				}
				if cmp != nil && sorts < 2 {
					badScan = true
					why = "the merge compares names with '" + cmp.Op.String() + "', i.e. it assumes both listings are ordered by name, and does not sort them first (the memory buffer lists in creation order)"
				}
			}
			scanOK = sawScan && !badScan
			if badScan && why == "ReadDir does not list both the buffer and the remote" {
				why = "a scan over a listing does not start at its first element for every entry it is compared with"
			}
			if !scanOK || names < 2 {
				ok = false
				if why == "ReadDir does not list both the buffer and the remote" || names < 2 {
					why = "buffer entries are not compared by Name() against every remote entry"
				}
			}
		}
		c.Check(ok, "R2", "fscache.(Cache).ReadDir merges by name", f.Pos(), "both listings; error only if both fail; full duplicate scan by Name()", why+" — a created directory is listed twice or not at all")
	}

	// ---- R3 removes update buffer and journal ----------------------------------------------------------------
	for mn, rec := range map[string]string{"Remove": roles.journalOfClass("Remove"), "RemoveAll": roles.journalOfClass("RemoveAll")} {
		f := methods[mn]
		if f == nil {
			c.Bad("R3", "fscache.(Cache)."+mn, 0, "anchor not found")
			continue
		}
		facts := factsFor(f)
		// every path reaches the buffer-presence test and the recorder
		isTest := func(in ssa.Instruction) bool {
			ci := callInfo(in, nil, 0)
			return ci != nil && ci.Method != nil && (ci.Method.Name() == "IsExist" || ci.Method.Name() == mn) && fromField(ci.Recv(), buffer)
		}
		isRec := func(in ssa.Instruction) bool { return rec != "" && roles.isRecorderCall(in, rec) }
		b1 := MustPass(f, nil, ipEvent(isTest, 2))
		b2 := MustPass(f, nil, ipEvent(isRec, 2))
		// the buffered node is removed on the presence edge
		removed := false
		presentAt := func(g *ssa.Function, b *ssa.BasicBlock) bool {
			for k := range factsFor(g).At(b) {
				if call, isCall := k.v.(*ssa.Call); isCall && k.pol && call.Call.Method != nil && call.Call.Method.Name() == "IsExist" {
					return true
				}
			}
			return false
		}
		for _, ci := range Calls(f) {
			if ci.Method != nil && ci.Method.Name() == mn && fromField(ci.Recv(), buffer) && presentAt(f, ci.Block) {
				removed = true
			}
			// a helper that is handed the buffer's removal as a method value and calls it on the presence edge
			if ci.Static != nil && ci.Static.Pkg == f.Pkg && ci.Kind == "call" {
				for ai, a := range ci.Common.Args {
					mc, isMC := a.(*ssa.MakeClosure)
					if !isMC || len(mc.Bindings) != 1 || !fromField(mc.Bindings[0], buffer) {
						continue
					}
					bf, isFn := mc.Fn.(*ssa.Function)
					if !isFn || !strings.HasPrefix(bf.Name(), mn+"$bound") && bf.Name() != mn+"$bound" {
						continue
					}
					if ai < len(ci.Static.Params) {
						p := ci.Static.Params[ai]
						for _, inner := range Calls(ci.Static) {
							if inner.Common.Value == ssa.Value(p) && presentAt(ci.Static, inner.Block) {
								removed = true
							}
						}
					}
				}
			}
		}
		// a private helper that does the buffer removal itself (possibly steered by a constant flag)
		if !removed {
			for _, ri := range reachWithBools(f, 2) {
				if ri.fn == f || ri.fn.Pkg != f.Pkg {
					continue
				}
				for _, inner := range Calls(ri.fn) {
					if inner.Method != nil && inner.Method.Name() == mn && fromField(inner.Recv(), buffer) && presentAt(ri.fn, inner.Block) && feasibleUnder(ri.fn, inner.Instr, ri.env) {
						removed = true
					}
				}
			}
		}
		_ = facts
		why := ""
		if len(b1) > 0 {
			why = "a return at " + c.pos(b1[0].Instr.Pos()) + " is reachable without looking at the buffer: a node re-created after an earlier removal stays visible"
		} else if len(b2) > 0 {
			why = "a return at " + c.pos(b2[0].Instr.Pos()) + " is reachable without journaling the removal"
		} else if !removed {
			why = "the buffered node is not removed on the presence edge"
		}
		c.Check(why == "", "R3", "fscache.(Cache)."+mn+" clears the buffer and journals", f.Pos(), "buffer test + buffer removal + journal record on every path", why)
	}

	// ---- R4 remote fallbacks consult the removal journals -----------------------------------------------------------
	jRemove, jRemoveAll := roles.journalOfClass("Remove"), roles.journalOfClass("RemoveAll")
	readsJournal := func(f *ssa.Function) bool {
		seen := map[*ssa.Function]bool{}
		var rec func(g *ssa.Function, d int) bool
		rec = func(g *ssa.Function, d int) bool {
			if g == nil || seen[g] || d > 3 || g.Blocks == nil {
				return false
			}
			seen[g] = true
			found := false
			eachInstr(g, func(_ *ssa.BasicBlock, _ int, in ssa.Instruction) {
				switch x := in.(type) {
				case *ssa.Lookup:
					if n, _ := fieldLoadName(x.X); n != "" && (n == jRemove || n == jRemoveAll) {
						found = true
					}
				case *ssa.Range:
					if n, _ := fieldLoadName(x.X); n != "" && (n == jRemove || n == jRemoveAll) {
						found = true
					}
				}
			})
			if found {
				return true
			}
			for _, ci := range Calls(g) {
				if ci.Static != nil && ci.Static.Pkg == g.Pkg && rec(ci.Static, d+1) {
					return true
				}
			}
			return false
		}
		return rec(f, 0)
	}
	direct := func(v ssa.Value) bool {
		// the function itself picks the remote (not through a helper that is judged on its own)
		return hasOrigin(Origins(v, FlowOpts{}), func(o Origin) bool { return o.Kind == "field" && o.Name == remote })
	}
	usesRemoteRead := func(f *ssa.Function) bool {
		for _, ci := range Calls(f) {
			if ci.Method != nil && fsReaders[ci.Method.Name()] && direct(ci.Recv()) {
				return true
			}
		}
		// hands the remote out as a read source - to the cache's own operations: an exported accessor
		// that nothing in the package calls is the remote itself, not an answer of the cache view
		if f.Object() != nil && f.Object().Exported() {
			used := false
			for _, g := range c.P.PkgFuncs(cachePkg) {
				if len(CallsTo(g, qualName(f))) > 0 {
					used = true
				}
			}
			if !used {
				return false
			}
		}
		for _, r := range returnsOf(f) {
			for _, v := range r.Results {
				if _, isIface := v.Type().Underlying().(*types.Interface); isIface && direct(v) {
					return true
				}
			}
		}
		return false
	}
	n4 := 0
	var cands []*ssa.Function
	for _, f := range c.P.PkgFuncs(cachePkg) {
		if f.Signature.Recv() == nil || f.Name() == "Commit" || f.Parent() != nil {
			continue
		}
		if usesRemoteRead(f) {
			cands = append(cands, f)
		}
	}
	for _, f := range cands {
		n4++
		con := fmt.Sprintf("fscache.(*Cache).%s", f.Name())
		if f == srcFS {
			con = "fscache.(*Cache).srcFS" // role name of the read-source selector (stable under renaming)
		}
		c.Check(readsJournal(f), "R4", con, f.Pos(), "the answer depends on the removal journals", "the method can answer from the remote without consulting the removal journals — after Remove(x) of a remote x, "+f.Name()+" still reports it until Commit")
	}
	c.Floor("R4", n4, 5)

	// ---- R5 child views of the cache relabel correctly (shared with C03.R7) ---------------------
	subT := c.P.Named(helperPkg, "SubFS")
	if subT == nil {
		c.Bad("R5", "fshelper.SubFS", 0, "anchor not found")
	} else {
		c.Floor("R5", ruleViewBaseSeparator(c, "R5", fiface, []*types.Named{subT}), 2)
	}
	_ = strings.TrimSpace

	// ---- R6 the buffer is a memory filespace: its check-then-create must be atomic, or two
	// writers through the cache create one directory twice and a written file cannot be read back
	// (same rule as C09.L4)
	if dirT := c.P.Named(memfsPkg, "Dir"); dirT != nil {
		c.Floor("R6", checkThenInsert(c, NewLockEngine(c.P), "R6", c.P.PkgFuncs(memfsPkg), dirT, "index", "mu"), 1)
	} else {
		c.Bad("R6", "memfs.Dir", 0, "anchor not found")
	}
}

// writesOwnPackageState: f, or a function of its package it calls (two levels), stores into a field
// (or a map held in a field) of an object of a named type of package pkgRel that is not under
// construction.  Returns a description and the position, or "".
func writesOwnPackageState(f *ssa.Function, pkgRel string) (string, token.Pos) {
	bad := ""
	var pos token.Pos
	for _, g := range append([]*ssa.Function{f}, reachableSamePkg(f, 2)...) {
		g := g
		eachInstr(g, func(_ *ssa.BasicBlock, _ int, in ssa.Instruction) {
			var target ssa.Value
			switch x := in.(type) {
			case *ssa.Store:
				target = x.Addr
			case *ssa.MapUpdate:
				target = x.Map
			case *ssa.Call:
				if b, ok := x.Call.Value.(*ssa.Builtin); ok && b.Name() == "delete" && len(x.Call.Args) > 0 {
					target = x.Call.Args[0]
				}
			}
			if target == nil {
				return
			}
			root, path := fieldPathOf(target)
			if len(path) == 0 {
				return
			}
			if pt, ok := root.Type().(*types.Pointer); ok {
				if nt, ok := pt.Elem().(*types.Named); ok && nt.Obj().Pkg() != nil && strings.HasSuffix(nt.Obj().Pkg().Path(), pkgRel) {
					if _, fresh := root.(*ssa.Alloc); !fresh {
						bad, pos = fname(g)+" writes "+nt.Obj().Name()+"."+strings.Join(path, "."), in.Pos()
					}
				}
			}
		})
	}
	return bad, pos
}
