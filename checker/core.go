package main

// core.go — loading, obligations, reports, evidence, known findings.
//
// Everything here is plumbing: the deciding logic lives in the engines
// (eng_*.go) and in the per-property rule files (cNN.go).

import (
	"encoding/json"
	"fmt"
	"go/token"
	"go/types"
	"os"
	"path/filepath"
	"sort"
	"strings"
	"time"

	"golang.org/x/tools/go/packages"
	"golang.org/x/tools/go/ssa"
	"golang.org/x/tools/go/ssa/ssautil"
)

const modPath = "github.com/goatcms/goatcore"

// Prog is the loaded, type-checked program plus its SSA form.
type Prog struct {
	AnchorNotes []string
	Repo        string
	Fset        *token.FileSet
	Pkgs        []*packages.Package          // module packages (roots)
	ByPath      map[string]*packages.Package // every loaded package incl. deps
	SSA         *ssa.Program
	NFiles      int
	NFuncs      int
	Config      string // GOOS/GOARCH/tags description
}

type LoadOpts struct {
	Repo    string
	Env     []string          // extra environment (GOOS=..., GOARCH=...)
	Tags    string            // build tags
	Overlay map[string][]byte // absolute file name -> content
}

// Load type-checks the whole module from the working tree and builds SSA.
// Any type error, an empty package list or a loader failure is an error: the
// caller turns it into "cannot decide".
func Load(o LoadOpts) (*Prog, error) {
	fset := token.NewFileSet()
	env := append(os.Environ(),
		"GOFLAGS=-mod=mod", "GOPROXY=off", "GOSUMDB=off", "GOTOOLCHAIN=local", "GOWORK=off", "CGO_ENABLED=0")
	env = append(env, o.Env...)
	cfg := &packages.Config{
		Mode:    packages.LoadAllSyntax,
		Dir:     o.Repo,
		Fset:    fset,
		Env:     env,
		Tests:   false,
		Overlay: o.Overlay,
	}
	if o.Tags != "" {
		cfg.BuildFlags = []string{"-tags=" + o.Tags}
	}
	pkgs, err := packages.Load(cfg, "./...")
	if err != nil {
		return nil, fmt.Errorf("packages.Load: %v", err)
	}
	if len(pkgs) == 0 {
		return nil, fmt.Errorf("no packages loaded from %s", o.Repo)
	}
	p := &Prog{Repo: o.Repo, Fset: fset, Pkgs: pkgs, ByPath: map[string]*packages.Package{}}
	var errs []string
	packages.Visit(pkgs, nil, func(pk *packages.Package) {
		p.ByPath[pk.PkgPath] = pk
		if strings.HasPrefix(pk.PkgPath, modPath) {
			for _, e := range pk.Errors {
				errs = append(errs, e.Error())
			}
			p.NFiles += len(pk.Syntax)
		}
	})
	if len(errs) > 0 {
		sort.Strings(errs)
		if len(errs) > 8 {
			errs = errs[:8]
		}
		return nil, fmt.Errorf("type-check errors: %s", strings.Join(errs, "; "))
	}
	prog, _ := ssautil.AllPackages(pkgs, ssa.InstantiateGenerics)
	prog.Build()
	p.SSA = prog
	for fn := range ssautil.AllFunctions(prog) {
		if fn.Pkg != nil && strings.HasPrefix(fn.Pkg.Pkg.Path(), modPath) {
			p.NFuncs++
		}
	}
	p.Config = strings.Join(o.Env, " ")
	if o.Tags != "" {
		p.Config += " tags=" + o.Tags
	}
	if p.Config == "" {
		p.Config = "default (linux/amd64, no tags)"
	}
	p.AnchorNotes = resolveAnchors(p)
	return p, nil
}

// ---------------------------------------------------------------------------
// obligations

type Obligation struct {
	Property  string `json:"property"`
	Rule      string `json:"rule"`
	Construct string `json:"construct"`
	Pos       string `json:"pos,omitempty"`
	Status    string `json:"status"` // discharged | violated | known | exempt
	Detail    string `json:"detail,omitempty"`
}

func (o Obligation) Key() string { return o.Property + "|" + o.Rule + "|" + o.Construct }

// Ctx is handed to every rule.
type Ctx struct {
	P     *Prog
	Prop  string
	Obs   []Obligation
	Stats map[string]int
	Notes []string
	seen  map[string]bool
}

func NewCtx(p *Prog, prop string) *Ctx {
	c := &Ctx{P: p, Prop: prop, Stats: map[string]int{}, seen: map[string]bool{}}
	for _, n := range p.AnchorNotes {
		c.Note("%s", n)
	}
	return c
}

func (c *Ctx) pos(p token.Pos) string {
	if !p.IsValid() {
		return ""
	}
	pp := c.P.Fset.Position(p)
	rel, err := filepath.Rel(c.P.Repo, pp.Filename)
	if err != nil {
		rel = pp.Filename
	}
	return fmt.Sprintf("%s:%d", rel, pp.Line)
}

func (c *Ctx) add(rule, construct, status string, p token.Pos, detail string) {
	o := Obligation{Property: c.Prop, Rule: c.Prop + "." + rule, Construct: construct, Pos: c.pos(p), Status: status, Detail: detail}
	// the same (rule, construct) may be evaluated several times (e.g. once per
	// path); keep the worst verdict.
	for i := range c.Obs {
		if c.Obs[i].Key() == o.Key() {
			if c.Obs[i].Status != "violated" && status == "violated" {
				c.Obs[i] = o
			}
			return
		}
	}
	c.Obs = append(c.Obs, o)
}

func (c *Ctx) OK(rule, construct string, p token.Pos, detail string) {
	c.add(rule, construct, "discharged", p, detail)
}
func (c *Ctx) Bad(rule, construct string, p token.Pos, detail string) {
	c.add(rule, construct, "violated", p, detail)
}
func (c *Ctx) Exempt(rule, construct string, p token.Pos, reason string) {
	c.add(rule, construct, "exempt", p, reason)
}

// Check records OK or Bad depending on cond.
func (c *Ctx) Check(cond bool, rule, construct string, p token.Pos, okDetail, badDetail string) bool {
	if cond {
		c.OK(rule, construct, p, okDetail)
	} else {
		c.Bad(rule, construct, p, badDetail)
	}
	return cond
}

// Floor: a rule that matched fewer instances than were confirmed by hand is
// itself a violation (it would otherwise pass vacuously).
func (c *Ctx) Floor(rule string, got, min int) {
	c.Stats["instances:"+rule] = got
	if got < min {
		c.Bad(rule, "instance-floor", token.NoPos,
			fmt.Sprintf("rule matched %d instances, fewer than the %d confirmed on the reference tree: the mechanism this rule certifies is gone or has changed shape; cannot certify", got, min))
	}
}

// Count the non-floor obligations of a rule recorded so far.
func (c *Ctx) Count(rule string) int {
	n := 0
	for _, o := range c.Obs {
		if o.Rule == c.Prop+"."+rule && o.Construct != "instance-floor" {
			n++
		}
	}
	return n
}

func (c *Ctx) Note(format string, a ...interface{}) {
	c.Notes = append(c.Notes, fmt.Sprintf(format, a...))
}

// ---------------------------------------------------------------------------
// known findings

type KFEntry struct {
	Property  string `json:"property"`
	Rule      string `json:"rule"`
	Construct string `json:"construct"`
	Status    string `json:"status"` // known | fixed
	Commit    string `json:"commit,omitempty"`
	What      string `json:"what"`
	Line      string `json:"line,omitempty"`
}
type KFFile struct {
	Format  string    `json:"format"`
	Entries []KFEntry `json:"entries"`
}

func loadKnown(path string) (map[string]KFEntry, error) {
	b, err := os.ReadFile(path)
	if err != nil {
		return nil, err
	}
	var f KFFile
	if err := json.Unmarshal(b, &f); err != nil {
		return nil, err
	}
	m := map[string]KFEntry{}
	for _, e := range f.Entries {
		if e.Status == "known" {
			m[e.Property+"|"+e.Rule+"|"+e.Construct] = e
		}
	}
	return m, nil
}

// ---------------------------------------------------------------------------
// evidence + report

type Evidence struct {
	PropertyID  string                 `json:"property_id"`
	Tier        string                 `json:"tier"`
	Seed        int                    `json:"seed"`
	Level       string                 `json:"level"`
	Coverage    map[string]interface{} `json:"coverage"`
	Assumptions []string               `json:"assumptions"`
	WallS       float64                `json:"wall_s"`
	Violations  int                    `json:"violations"`
}

type Report struct {
	Property    string       `json:"property"`
	Tier        string       `json:"tier"`
	Config      string       `json:"config"`
	When        string       `json:"when"`
	Violations  []Obligation `json:"violations"`
	Known       []Obligation `json:"known"`
	Obligations []Obligation `json:"obligations"`
	Notes       []string     `json:"notes,omitempty"`
}

func writeJSON(path string, v interface{}) error {
	b, err := json.MarshalIndent(v, "", " ")
	if err != nil {
		return err
	}
	if err := os.MkdirAll(filepath.Dir(path), 0o755); err != nil {
		return err
	}
	return os.WriteFile(path, append(b, '\n'), 0o644)
}

func nowStamp() string { return time.Now().UTC().Format(time.RFC3339) }

// helper: qualified name of a types.Object relative to the module.
func shortPkg(path string) string {
	return strings.TrimPrefix(strings.TrimPrefix(path, modPath), "/")
}

func typeString(t types.Type) string {
	return types.TypeString(t, func(p *types.Package) string { return shortPkg(p.Path()) })
}
