package main

import (
	"fmt"
	"go/token"
	"go/types"
	"strings"

	"golang.org/x/tools/go/ssa"
)

const depPkg = "app/dependency"

func init() {
	register(&PropDef{ID: "C10", Title: "Dependency container: lazy singletons, fixed precedence, safe failure", Rules: rulesC10,
		Explanation: "Decided (structural necessary conditions, dependency.Provider, all paths): R1 every push on the resolution stack is popped - by exactly the pushed slot: stack[:len-1] or stack[:n] with n read before the push - on every path to every return of Get (a failed or optional resolution leaves no name behind); R2 an instance produced by a factory is returned with a nil error only after it was stored in the instance table under the requested name; R3 tables are consulted in the order instances, factories, default factories, each only on the miss edge of the previous; R4 Get freezes the provider (Block) before it reads any table, and every definition method tests the frozen flag before any table write; R5 every store into the instance table of a value taken from a default table is confined to the miss edges of both explicit tables for that name; R6 every definition writes its table only on the miss edge of a lookup of the same name in that table (plus the explicit-table lookups that make explicit win); R7 in InjectTo the optional marker is recomputed for every field (not loop-carried), a failed optional field continues, a failed required field returns the error, and the extra injectors run after the field loop with their error returned; R8 the cycle scan visits the whole resolution stack. " +
			"Added in round 2: R7 applies the per-field-flag clause to every implementer of app.Injector (datascope.Injector, MapInjector, ...: no branch in the field loop tests a boolean carried over from earlier fields) and requires that no branch taken before Get in Provider.InjectTo depends on provider state (no negative cache); R9 outside package dependency the library defines services only through SetDefault/AddDefaultFactory, never Set/AddFactory (a built-in in an explicit slot cannot be overridden by the application). " +
			"Added in round 5: R10 every write to provider state made by Get and the functions it calls (Block and the resolution stack apart) is followed only by successful returns — a failed resolution leaves no negative cache or half-registered instance behind; R4 also counts a table read made by a private helper (defined(name)) as a read at its call site: none before Block. " +
			"Added in round 7: R7's 'no branch before Get depends on provider state' follows the condition into same-package helpers (isDefined(name) in front of Get misses default instances, which only Get's Block folds in); such a branch is accepted when a Block() call dominates it and its condition reads the instance, factory and default-factory tables and no other provider state (Get's own question asked early, not a memory of earlier requests). " +
			"NOT decided: behaviour of arbitrary user factory graphs (factories are user code), reflection-level type compatibility of injected values.",
	})
}

// fieldLoadOf: v is `*(&recv.field)`; returns field name.
func fieldLoadName(v ssa.Value) (string, ssa.Value) {
	u, ok := v.(*ssa.UnOp)
	if !ok || u.Op != token.MUL {
		return "", nil
	}
	fa, ok := u.X.(*ssa.FieldAddr)
	if !ok {
		return "", nil
	}
	pt, ok := fa.X.Type().Underlying().(*types.Pointer)
	if !ok {
		return "", nil
	}
	st, ok := pt.Elem().Underlying().(*types.Struct)
	if !ok {
		return "", nil
	}
	return refFieldName(lastSeg(typeString(pt.Elem())), st.Field(fa.Field).Name()), fa.X
}

// tableMiss: facts at block b imply that a comma-ok lookup of `key` in the
// map field `table` missed.
func tableMiss(f *ssa.Function, facts *Facts, b *ssa.BasicBlock, table string, key ssa.Value) bool {
	found := false
	// a private presence predicate has(name) bool { _, ok := d.table[name]; return ok } known false
	for k := range facts.At(b) {
		call, ok := resolve(k.v).(*ssa.Call)
		if !ok || k.pol {
			continue
		}
		h := call.Call.StaticCallee()
		if h == nil || h.Pkg != f.Pkg || h.Blocks == nil || h.Signature.Results().Len() != 1 {
			continue
		}
		ai := -1
		for i, a := range call.Call.Args {
			if sameValue(a, key) {
				ai = i
			}
		}
		if ai < 0 || ai >= len(h.Params) {
			continue
		}
		all, any := true, false
		for _, r := range returnsOf(h) {
			ex, isEx := resolve(r.Results[0]).(*ssa.Extract)
			if !isEx || ex.Index != 1 {
				all = false
				continue
			}
			lk, isLk := ex.Tuple.(*ssa.Lookup)
			if !isLk || !lk.CommaOk {
				all = false
				continue
			}
			if n, _ := fieldLoadName(lk.X); n != table || lk.Index != ssa.Value(h.Params[ai]) {
				all = false
				continue
			}
			any = true
		}
		if all && any {
			return true
		}
	}
	eachInstr(f, func(_ *ssa.BasicBlock, _ int, in ssa.Instruction) {
		lk, ok := in.(*ssa.Lookup)
		if !ok || !lk.CommaOk || found {
			return
		}
		if n, _ := fieldLoadName(lk.X); n != table {
			return
		}
		if !sameValue(lk.Index, key) {
			return
		}
		for _, ex := range resultN(lk, 1) {
			if facts.KnownBool(b, ex, false) {
				found = true
			}
		}
	})
	return found
}

// dependsOnField: v is computed (bounded walk over operands incl. call targets)
// from a load of one of the named fields.
func dependsOnField(v ssa.Value, fields map[string]bool, depth int, seen map[ssa.Value]bool) string {
	if v == nil || depth > 10 || seen[v] {
		return ""
	}
	seen[v] = true
	if n, _ := fieldLoadName(v); n != "" {
		if fields[n] {
			return n
		}
		return ""
	}
	in, ok := v.(ssa.Instruction)
	if !ok {
		return ""
	}
	for _, op := range in.Operands(nil) {
		if op != nil && *op != nil {
			if n := dependsOnField(*op, fields, depth+1, seen); n != "" {
				return n
			}
		}
	}
	return ""
}

// providerRoles: the fields of dependency.Provider by role, discovered from
// what the exported API methods do (robust to renaming unexported fields).
type providerRoles struct {
	inst, fact, defInst, defFact, inj, blocked, stack string
	scan                                              *ssa.Function // the cycle scan (bool function over the stack, called by Get)
}

func discoverProviderRoles(c *Ctx) *providerRoles {
	r := &providerRoles{}
	mapWrittenBy := func(method string) string {
		f := c.P.Func(depPkg, "Provider", method)
		if f == nil {
			return ""
		}
		name := ""
		eachInstr(f, func(_ *ssa.BasicBlock, _ int, in ssa.Instruction) {
			if mu, ok := in.(*ssa.MapUpdate); ok {
				if n, base := fieldLoadName(mu.Map); n != "" && base == ssa.Value(f.Params[0]) {
					name = n
				}
			}
		})
		return name
	}
	r.inst = mapWrittenBy("Set")
	r.defInst = mapWrittenBy("SetDefault")
	r.fact = mapWrittenBy("AddFactory")
	r.defFact = mapWrittenBy("AddDefaultFactory")
	if f := c.P.Func(depPkg, "Provider", "AddInjectors"); f != nil {
		eachInstr(f, func(_ *ssa.BasicBlock, _ int, in ssa.Instruction) {
			if st, ok := in.(*ssa.Store); ok {
				if fa, ok := st.Addr.(*ssa.FieldAddr); ok && fa.X == ssa.Value(f.Params[0]) {
					n := fieldName(fa)
					r.inj = n[strings.LastIndex(n, ".")+1:]
				}
			}
		})
	}
	if f := c.P.Func(depPkg, "Provider", "Block"); f != nil {
		eachInstr(f, func(_ *ssa.BasicBlock, _ int, in ssa.Instruction) {
			if st, ok := in.(*ssa.Store); ok {
				if b, isB := constBool(st.Val); isB && b {
					if fa, ok := st.Addr.(*ssa.FieldAddr); ok && fa.X == ssa.Value(f.Params[0]) {
						n := fieldName(fa)
						r.blocked = n[strings.LastIndex(n, ".")+1:]
					}
				}
			}
		})
	}
	// the resolution stack: a []string field that Get (or a private helper of it) both appends to and re-slices
	if get := c.P.Func(depPkg, "Provider", "Get"); get != nil {
		app, sl := map[string]bool{}, map[string]bool{}
		for _, g := range reachableSamePkg(get, 2) {
			if g != get && g.Object() != nil && g.Object().Exported() {
				continue
			}
			eachInstr(g, func(_ *ssa.BasicBlock, _ int, in ssa.Instruction) {
				st, ok := in.(*ssa.Store)
				if !ok {
					return
				}
				fa, ok := st.Addr.(*ssa.FieldAddr)
				if !ok || !strings.HasPrefix(fieldName(fa), "dependency.Provider.") {
					return
				}
				n := fieldName(fa)
				n = n[strings.LastIndex(n, ".")+1:]
				switch v := st.Val.(type) {
				case *ssa.Call:
					if b, ok := v.Call.Value.(*ssa.Builtin); ok && b.Name() == "append" {
						app[n] = true
					}
				case *ssa.Slice:
					sl[n] = true
				}
			})
		}
		for n := range app {
			if sl[n] {
				r.stack = n
			}
		}
		// the scan: a bool-returning private function called from Get that reads the stack
		for _, g := range reachableSamePkg(get, 2) {
			if g == get || g.Signature.Results().Len() != 1 || !isBoolT(g.Signature.Results().At(0).Type()) {
				continue
			}
			reads := false
			eachInstr(g, func(_ *ssa.BasicBlock, _ int, in ssa.Instruction) {
				if n, _ := fieldLoadName(valueOf(in)); n != "" && n == r.stack {
					reads = true
				}
			})
			if reads {
				r.scan = g
			}
		}
	}
	if r.inst == "" || r.fact == "" || r.defInst == "" || r.defFact == "" || r.blocked == "" || r.stack == "" {
		return nil
	}
	return r
}

func valueOf(in ssa.Instruction) ssa.Value {
	v, _ := in.(ssa.Value)
	return v
}

func rulesC10(c *Ctx) {
	prov := c.P.Named(depPkg, "Provider")
	get := c.P.Func(depPkg, "Provider", "Get")
	block := c.P.Func(depPkg, "Provider", "Block")
	inject := c.P.Func(depPkg, "Provider", "InjectTo")
	if prov == nil || get == nil || block == nil || inject == nil {
		c.Bad("anchor", "dependency.Provider Get/Block/InjectTo", 0, "anchor not found; cannot certify")
		return
	}
	_ = factsFor(get)
	ro := discoverProviderRoles(c)
	if ro == nil {
		c.Bad("anchor", "roles of dependency.Provider fields", 0, "cannot discover the instance/factory tables, the frozen flag and the resolution stack from Set/SetDefault/AddFactory/AddDefaultFactory/Block/Get; cannot certify")
		return
	}
	c.Note("provider roles: instances=%s factories=%s defaultInstances=%s defaultFactories=%s frozen=%s stack=%s", ro.inst, ro.fact, ro.defInst, ro.defFact, ro.blocked, ro.stack)

	// ---- R1 resolution stack balanced ----------------------------------------
	isStackStore := func(in ssa.Instruction) (push, pop bool) {
		st, ok := in.(*ssa.Store)
		if !ok {
			return
		}
		fa, ok := st.Addr.(*ssa.FieldAddr)
		if !ok || fieldName(fa) != "dependency.Provider."+ro.stack {
			return
		}
		switch v := st.Val.(type) {
		case *ssa.Call:
			if b, ok := v.Call.Value.(*ssa.Builtin); ok && b.Name() == "append" {
				push = true
			}
		case *ssa.Slice:
			pop = true
		}
		return
	}
	// a pop takes exactly the pushed slot off: stack[:len(stack)-1], or stack[:n] with
	// n = len(stack) read before the push.  stack[:0] (or any other bound) is not a pop:
	// it also drops the names of the resolutions still in progress further out.
	isLenOfStack := func(v ssa.Value) bool {
		lc, ok := resolve(v).(*ssa.Call)
		if !ok {
			return false
		}
		if b, ok := lc.Call.Value.(*ssa.Builtin); !ok || b.Name() != "len" {
			return false
		}
		n, _ := fieldLoadName(resolve(lc.Call.Args[0]))
		return n == ro.stack
	}
	var curPush ssa.Instruction
	oneSlot := func(sl *ssa.Slice) bool {
		if sl.Low != nil {
			if k, ok := constInt(sl.Low); !ok || k != 0 {
				return false
			}
		}
		if sl.High == nil {
			return false
		}
		h := resolve(sl.High)
		if bo, ok := h.(*ssa.BinOp); ok && bo.Op == token.SUB {
			if k, ok := constInt(bo.Y); ok && k == 1 && isLenOfStack(bo.X) {
				return true
			}
			return false
		}
		if _, isConst := h.(*ssa.Const); isConst {
			return false
		}
		for _, o := range Origins(h, FlowOpts{}) {
			if !isLenOfStack(o.Val) {
				return false
			}
			if in, ok := resolve(o.Val).(ssa.Instruction); ok && curPush != nil && in.Parent() == curPush.Parent() && !dominates(in, curPush) {
				return false
			}
		}
		return true
	}
	popEvent := func(in ssa.Instruction) bool {
		if _, pop := isStackStore(in); pop {
			return oneSlot(in.(*ssa.Store).Val.(*ssa.Slice))
		}
		if d, ok := in.(*ssa.Defer); ok {
			if mc, ok := d.Call.Value.(*ssa.MakeClosure); ok {
				if fn, ok := mc.Fn.(*ssa.Function); ok {
					found := false
					eachInstr(fn, func(_ *ssa.BasicBlock, _ int, x ssa.Instruction) {
						if st, ok := x.(*ssa.Store); ok {
							if _, isSlice := st.Val.(*ssa.Slice); isSlice {
								if os := Origins(st.Addr, FlowOpts{}); len(os) > 0 {
									found = true
								}
							}
						}
					})
					return found
				}
			}
		}
		return false
	}
	pushes := 0
	for _, pf := range reachableSamePkg(get, 2) {
		pf := pf
		eachInstr(pf, func(b *ssa.BasicBlock, i int, in ssa.Instruction) {
			if push, _ := isStackStore(in); push {
				pushes++
				curPush = in
				bad := MustPass(pf, in, popEvent)
				con := fmt.Sprintf("push #%d on the resolution stack (resolution path of Get)", pushes)
				if len(bad) == 0 {
					c.OK("R1", con, in.Pos(), "popped on every path to every return")
				} else {
					c.Bad("R1", con, in.Pos(), fmt.Sprintf("the return at %s is reachable without taking exactly the pushed slot off — the name stays on the stack and a later Get of it reports a cycle, or the names of outer resolutions in progress are dropped and a real cycle recurses", c.pos(bad[0].Instr.Pos())))
				}
			}
		})
	}
	c.Floor("R1", pushes, 1)

	// ---- R2 memoised -----------------------------------------------------------
	n2 := 0
	isFactoryValue := func(v ssa.Value) bool {
		return hasOrigin(Origins(v, FlowOpts{Interproc: 4}), func(o Origin) bool { return o.Kind == "call" && strings.HasPrefix(o.Name, "dynamic#") })
	}
	getGroupList := privateGroup(c.P, get, true)
	getGroup := map[*ssa.Function]bool{}
	for _, g := range getGroupList {
		getGroup[g] = true
	}
	isNameOfGet := func(g *ssa.Function, key ssa.Value) bool {
		if g == get {
			return sameValue(key, get.Params[1])
		}
		return hasOrigin(Origins(key, FlowOpts{LiftParams: 3}), func(o Origin) bool { return o.Val == ssa.Value(get.Params[1]) })
	}
	var storedBefore func(g *ssa.Function, r *ssa.Return, depth int) bool
	storedBefore = func(g *ssa.Function, r *ssa.Return, depth int) bool {
		v := resolve(r.Results[0])
		stored := false
		eachInstr(g, func(_ *ssa.BasicBlock, _ int, in ssa.Instruction) {
			mu, ok := in.(*ssa.MapUpdate)
			if !ok {
				return
			}
			if n, _ := fieldLoadName(mu.Map); n != ro.inst {
				return
			}
			if isNameOfGet(g, mu.Key) && resolve(mu.Value) == v && dominates(mu, r) {
				stored = true
			}
		})
		if stored || depth > 3 {
			return stored
		}
		// handed on from a private stage: every success return of the stage has stored it
		if ex, ok := v.(*ssa.Extract); ok {
			if call, ok := ex.Tuple.(*ssa.Call); ok {
				if h := call.Call.StaticCallee(); h != nil && getGroup[h] && h != g {
					all, any := true, false
					for _, hr := range returnsOf(h) {
						if len(hr.Results) != 2 || !isNilConst(resolve(hr.Results[1])) {
							continue
						}
						any = true
						if !storedBefore(h, hr, depth+1) {
							all = false
						}
					}
					return all && any
				}
			}
		}
		return false
	}
	for _, r := range returnsOf(get) {
		if len(r.Results) != 2 {
			continue
		}
		if !isNilConst(resolve(r.Results[1])) {
			// `return d.stage(...)`: the stage's own (instance, error) pair is handed on
			e0, ok0 := resolve(r.Results[0]).(*ssa.Extract)
			e1, ok1 := resolve(r.Results[1]).(*ssa.Extract)
			if !ok0 || !ok1 || e0.Tuple != e1.Tuple {
				continue
			}
			call, isCall := e0.Tuple.(*ssa.Call)
			if !isCall || call.Call.StaticCallee() == nil || !getGroup[call.Call.StaticCallee()] {
				continue
			}
		}
		v := resolve(r.Results[0])
		if !isFactoryValue(v) {
			continue
		}
		n2++
		con := fmt.Sprintf("factory result returned (success return #%d of Get)", n2)
		c.Check(storedBefore(get, r, 0), "R2", con, r.Pos(), "stored in the instance table under the requested name before it is returned",
			"a factory-built instance is returned without being memoised under its name — the factory runs again and later requests get a different instance")
	}
	c.Floor("R2", n2, 1)

	// ---- R3 lookup order -----------------------------------------------------------
	// lookups of the requested name anywhere in Get and its private stages; a lookup in a
	// stage is on a miss edge if the stage establishes the miss itself or every call of
	// the stage (up to Get) is made on such an edge
	type lkSite struct {
		lk *ssa.Lookup
		fn *ssa.Function
	}
	grpCallers := map[*ssa.Function][]*CallInfo{}
	grpCallerFn := map[*CallInfo]*ssa.Function{}
	for _, g := range getGroupList {
		for _, ci := range Calls(g) {
			if ci.Static != nil && getGroup[ci.Static] && ci.Static != g {
				grpCallers[ci.Static] = append(grpCallers[ci.Static], ci)
				grpCallerFn[ci] = g
			}
		}
	}
	nameParamOf := func(g *ssa.Function) ssa.Value {
		if g == get {
			return get.Params[1]
		}
		for _, p := range g.Params {
			if isNameOfGet(g, p) {
				return p
			}
		}
		return nil
	}
	var liftedMiss func(h *ssa.Function, b *ssa.BasicBlock, table string, depth int) bool
	liftedMiss = func(h *ssa.Function, b *ssa.BasicBlock, table string, depth int) bool {
		if key := nameParamOf(h); key != nil && tableMiss(h, factsFor(h), b, table, key) {
			return true
		}
		if h == get || depth > 3 || len(grpCallers[h]) == 0 {
			return false
		}
		for _, ci := range grpCallers[h] {
			if !liftedMiss(grpCallerFn[ci], ci.Block, table, depth+1) {
				return false
			}
		}
		return true
	}
	findAll := func(tbl string) []lkSite {
		var out []lkSite
		for _, g := range getGroupList {
			g := g
			eachInstr(g, func(_ *ssa.BasicBlock, _ int, in ssa.Instruction) {
				lk, ok := in.(*ssa.Lookup)
				if !ok || !lk.CommaOk {
					return
				}
				if n, _ := fieldLoadName(lk.X); n == tbl && isNameOfGet(g, lk.Index) {
					out = append(out, lkSite{lk, g})
				}
			})
		}
		return out
	}
	lis, lfs, lds := findAll(ro.inst), findAll(ro.fact), findAll(ro.defFact)
	if len(lis) == 0 || len(lfs) == 0 || len(lds) == 0 {
		c.Bad("R3", "table lookups in Get", get.Pos(), "cannot find the comma-ok lookups of the requested name in instances / factories / defaultFactories; cannot certify the precedence")
	} else {
		// every factory lookup lies on a miss edge of an instance lookup, every default-factory
		// lookup on miss edges of both (an extra, earlier instance lookup - a fast path - is fine)
		ok := true
		for _, lf := range lfs {
			ok = ok && liftedMiss(lf.fn, lf.lk.Block(), ro.inst, 0)
		}
		for _, ld := range lds {
			ok = ok && liftedMiss(ld.fn, ld.lk.Block(), ro.inst, 0) && liftedMiss(ld.fn, ld.lk.Block(), ro.fact, 0)
		}
		c.Check(ok, "R3", "table lookups in Get", lis[0].lk.Pos(), "instances, then factories on its miss edge, then default factories on both miss edges",
			"the tables are not consulted in the order instances > factories > default factories on miss edges — a default can shadow an explicit definition or an instance is rebuilt")
	}

	// ---- R4 frozen at first use ---------------------------------------------------------
	blockCalls := CallsTo(get, mq(depPkg, "Provider", "Block"))
	tables := map[string]bool{ro.inst: true, ro.fact: true, ro.defFact: true, ro.defInst: true, ro.inj: true}
	if len(blockCalls) == 0 {
		c.Bad("R4", "Get freezes before reading", get.Pos(), "Get does not call Block — definitions stay open after the first resolution")
	} else {
		bc := blockCalls[0]
		bad := ""
		// a private helper that reads a table counts as a read at its call
		rmemo := map[*ssa.Function]string{}
		var readsTable func(g *ssa.Function, d int) string
		readsTable = func(g *ssa.Function, d int) string {
			if g == nil || g.Blocks == nil || d > 3 || g == block {
				return ""
			}
			if r, ok := rmemo[g]; ok {
				return r
			}
			rmemo[g] = ""
			found := ""
			eachInstr(g, func(_ *ssa.BasicBlock, _ int, in ssa.Instruction) {
				if u, ok := in.(*ssa.UnOp); ok {
					if n, _ := fieldLoadName(u); tables[n] {
						found = n
					}
				}
			})
			for _, ci := range Calls(g) {
				if found == "" && ci.Static != nil && ci.Static.Pkg == g.Pkg && ci.Kind == "call" {
					found = readsTable(ci.Static, d+1)
				}
			}
			rmemo[g] = found
			return found
		}
		eachInstr(get, func(_ *ssa.BasicBlock, _ int, in ssa.Instruction) {
			if u, ok := in.(*ssa.UnOp); ok {
				if n, _ := fieldLoadName(u); tables[n] && !dominates(bc.Instr, in) {
					bad = "table " + n + " is read at " + c.pos(in.Pos()) + " on a path that has not called Block"
				}
			}
			if ci := callInfo(in, nil, 0); ci != nil && ci.Static != nil && ci.Static.Pkg == get.Pkg && ci.Static != block && ci.Kind == "call" && in != bc.Instr && !dominates(bc.Instr, in) {
				if n := readsTable(ci.Static, 0); n != "" {
					bad = "table " + n + " is read (in " + fname(ci.Static) + ", called at " + c.pos(in.Pos()) + ") on a path that has not called Block"
				}
			}
		})
		// Block leaves the provider frozen on every path: paths on which the flag
		// was found already set are fine, every other path stores true
		bf := factsFor(block)
		isFreeze := func(in ssa.Instruction) bool {
			if st, ok := in.(*ssa.Store); ok {
				if fa, ok := st.Addr.(*ssa.FieldAddr); ok && fieldName(fa) == "dependency.Provider."+ro.blocked {
					if b, ok := constBool(st.Val); ok && b {
						return true
					}
				}
			}
			return false
		}
		blockedSet := len(MustPassF(block, nil, isFreeze, func(st int, pred, succ *ssa.BasicBlock) bool {
			for k := range factsOnEdge(bf, pred, succ) {
				if n, _ := fieldLoadName(k.v); n == ro.blocked && k.pol {
					return false // already frozen on this edge
				}
			}
			return true
		})) == 0
		if bad == "" && !blockedSet {
			bad = "Block can return without the frozen flag being set"
		}
		c.Check(bad == "", "R4", "Get freezes before reading", bc.Pos(), "Block is called before any table is read, and leaves the provider frozen on every path",
			bad+" — a definition made after the first resolution is accepted")
	}
	n4 := 0
	for _, mn := range []string{"Set", "SetDefault", "AddFactory", "AddDefaultFactory", "AddInjectors"} {
		f := c.P.Func(depPkg, "Provider", mn)
		if f == nil {
			c.Bad("R4", "dependency.(*Provider)."+mn+" tests frozen flag", 0, "anchor not found")
			continue
		}
		n4++
		ff := factsFor(f)
		bad := ""
		eachInstr(f, func(b *ssa.BasicBlock, _ int, in ssa.Instruction) {
			write := false
			switch x := in.(type) {
			case *ssa.MapUpdate:
				write = true
			case *ssa.Store:
				if fa, ok := x.Addr.(*ssa.FieldAddr); ok && strings.HasPrefix(fieldName(fa), "dependency.Provider.") {
					write = true
				}
			case *ssa.Call:
				if bi, ok := x.Call.Value.(*ssa.Builtin); ok && bi.Name() == "delete" {
					write = true
				}
				if cf := x.Call.StaticCallee(); cf != nil && cf.Signature.Recv() != nil && strings.HasPrefix(qualName(cf), mq(depPkg, "Provider", "")) {
					write = true // helper of the provider (clean, addKey)
				}
			}
			if !write {
				return
			}
			guarded := false
			for k := range ff.At(b) {
				if n, _ := fieldLoadName(k.v); n == ro.blocked && !k.pol {
					guarded = true
				}
			}
			if !guarded {
				bad = "a table write at " + c.pos(in.Pos()) + " is reachable without the frozen flag having tested false"
			}
		})
		c.Check(bad == "", "R4", "dependency.(*Provider)."+mn+" tests frozen flag", f.Pos(), "every table write is on the not-frozen edge", bad+" — a late definition is accepted")
	}
	c.Floor("R4", n4, 5)

	// ---- R5 explicit beats default ------------------------------------------------------------
	n5 := 0
	defTables := map[string]bool{ro.defInst: true, ro.defFact: true}
	r5funcs := []*ssa.Function{block, get}
	if bg := privateGroup(c.P, block, true); len(bg) > 1 {
		r5funcs = append(r5funcs, bg[1:]...)
	}
	for _, f := range r5funcs {
		ff := factsFor(f)
		eachInstr(f, func(b *ssa.BasicBlock, _ int, in ssa.Instruction) {
			mu, ok := in.(*ssa.MapUpdate)
			if !ok {
				return
			}
			if n, _ := fieldLoadName(mu.Map); n != ro.inst {
				return
			}
			src := dependsOnField(mu.Value, defTables, 0, map[ssa.Value]bool{})
			if src == "" {
				// a private fold helper that receives the default value as a parameter
				if pp, isP := resolve(mu.Value).(*ssa.Parameter); isP && f != block && f != get {
					for _, a := range liftSites(pp) {
						if n := dependsOnField(a, defTables, 0, map[ssa.Value]bool{}); n != "" {
							src = n
						}
					}
				}
			}
			if src == "" {
				return
			}
			n5++
			con := fmt.Sprintf("store of a default-table value into the instance table in %s", fname(f))
			_ = src
			mi := tableMiss(f, ff, b, ro.inst, mu.Key)
			mf := tableMiss(f, ff, b, ro.fact, mu.Key)
			why := ""
			if !mi {
				why = "no miss of the name in the explicit instance table is established"
			}
			if !mf {
				why = "no miss of the name in the explicit factory table is established"
			}
			c.Check(mi && mf, "R5", con, mu.Pos(), "confined to the miss edges of both explicit tables for that name",
				why+" — AddFactory(n)+SetDefault(n) (in either order) resolves n to the default")
		})
	}
	// stores made by a private stage of Get: judged at the call site(s) in Get
	for _, gfn := range getGroupList {
		if gfn == get {
			continue
		}
		eachInstr(gfn, func(_ *ssa.BasicBlock, _ int, in ssa.Instruction) {
			mu, ok := in.(*ssa.MapUpdate)
			if !ok {
				return
			}
			if n, _ := fieldLoadName(mu.Map); n != ro.inst {
				return
			}
			fromDefault := false
			for _, o := range Origins(mu.Value, FlowOpts{Interproc: 2}) {
				if o.Kind == "field" && (strings.HasSuffix(o.Name, "."+ro.defInst) || strings.HasSuffix(o.Name, "."+ro.defFact)) {
					fromDefault = true
				}
			}
			gf := factsFor(get)
			for _, site := range rootSites(get, gfn, getGroup) {
				// does this call hand a default-table value (or default factory) to the stage?
				siteDefault := fromDefault
				for _, a := range site.Common.Args {
					if dependsOnField(a, defTables, 0, map[ssa.Value]bool{}) != "" {
						siteDefault = true
					}
				}
				if !siteDefault {
					continue
				}
				n5++
				con := fmt.Sprintf("store of a default-table value into the instance table in %s (called from Get)", fname(gfn))
				mi := tableMiss(get, gf, site.Block, ro.inst, get.Params[1])
				mf := tableMiss(get, gf, site.Block, ro.fact, get.Params[1])
				c.Check(mi && mf && isNameOfGet(gfn, mu.Key), "R5", con, site.Pos(), "the stage is called on the miss edges of both explicit tables for that name",
					"the stage that stores a default-table value is not confined to the miss edges of both explicit tables — AddFactory(n)+SetDefault(n) (in either order) resolves n to the default")
			}
		})
	}
	// a stage that selects the factory (explicit or default) for Get: what it reads from a
	// default table can end up in the instance table, so the read itself is confined
	for _, ld := range lds {
		if ld.fn == get {
			continue
		}
		n5++
		con := fmt.Sprintf("read of the default factory table in %s (stage of Get)", fname(ld.fn))
		c.Check(liftedMiss(ld.fn, ld.lk.Block(), ro.inst, 0) && liftedMiss(ld.fn, ld.lk.Block(), ro.fact, 0), "R5", con, ld.lk.Pos(),
			"confined to the miss edges of both explicit tables for that name",
			"the default table is read where the explicit tables have not both missed — AddFactory(n)+AddDefaultFactory(n) resolves n to the default")
	}
	c.Floor("R5", n5, 2)

	// ---- R6 duplicates refused / explicit wins at definition time -------------------------------
	rows := []struct {
		method, table string
		misses        []string
	}{
		{"Set", ro.inst, []string{ro.inst, ro.fact}},
		{"SetDefault", ro.defInst, []string{ro.defInst, ro.defFact}},
		{"AddFactory", ro.fact, []string{ro.fact}},
		{"AddDefaultFactory", ro.defFact, []string{ro.defFact, ro.fact}},
	}
	n6 := 0
	for _, row := range rows {
		f := c.P.Func(depPkg, "Provider", row.method)
		if f == nil {
			continue
		}
		ff := factsFor(f)
		found := false
		eachInstr(f, func(b *ssa.BasicBlock, _ int, in ssa.Instruction) {
			mu, ok := in.(*ssa.MapUpdate)
			if !ok {
				return
			}
			if n, _ := fieldLoadName(mu.Map); n != row.table {
				return
			}
			found = true
			n6++
			var missing []string
			for _, t := range row.misses {
				if !tableMiss(f, ff, b, t, mu.Key) {
					missing = append(missing, t)
				}
			}
			c.Check(len(missing) == 0, "R6", fmt.Sprintf("dependency.(*Provider).%s writes its table", row.method), mu.Pos(),
				"only on the miss edge of the tables that must not already define the name",
				"the write is not confined to a miss in "+strings.Join(missing, ", ")+" — a duplicate definition silently replaces an earlier one (or a default shadows an explicit definition)")
		})
		if !found {
			c.Bad("R6", fmt.Sprintf("dependency.(*Provider).%s writes its table", row.method), f.Pos(), "the definition method no longer writes its table; cannot certify")
		}
	}
	c.Floor("R6", n6, 4)

	// ---- R7 optional injection ----------------------------------------------------------------------
	ruleInjectTo(c, inject, get)
	ruleInjectorSiblings(c, inject, get)

	// ---- R9 the library registers its built-ins in the default slots only -------------------------------
	ruleBuiltinsAreDefaults(c)

	// ---- R10 a failed resolution leaves no trace: Get writes provider state only on the way to success ----
	{
		wmemo := map[*ssa.Function]int{}
		isStateWrite := func(in ssa.Instruction) bool {
			var target ssa.Value
			switch x := in.(type) {
			case *ssa.MapUpdate:
				target = x.Map
			case *ssa.Store:
				target = x.Addr
			case *ssa.Call:
				if b, ok := x.Call.Value.(*ssa.Builtin); ok && b.Name() == "delete" && len(x.Call.Args) > 0 {
					target = x.Call.Args[0]
				}
			}
			if target == nil {
				return false
			}
			root, path := fieldPathOf(target)
			if len(path) == 0 || path[0] == ro.stack || path[0] == ro.blocked {
				return false
			}
			pt, ok := root.Type().(*types.Pointer)
			if !ok {
				return false
			}
			nt, ok := pt.Elem().(*types.Named)
			if !ok || nt != prov {
				return false
			}
			_, fresh := root.(*ssa.Alloc)
			return !fresh
		}
		var writes func(g *ssa.Function, d int) bool
		writes = func(g *ssa.Function, d int) bool {
			if g == nil || g.Blocks == nil || d > 3 || g == block {
				return false
			}
			if r, ok := wmemo[g]; ok {
				return r == 1
			}
			wmemo[g] = 2
			found := false
			eachInstr(g, func(_ *ssa.BasicBlock, _ int, in ssa.Instruction) {
				if isStateWrite(in) {
					found = true
				}
			})
			for _, ci := range Calls(g) {
				if !found && ci.Static != nil && ci.Static.Pkg == g.Pkg && ci.Kind == "call" && writes(ci.Static, d+1) {
					found = true
				}
			}
			if found {
				wmemo[g] = 1
			}
			return found
		}
		n10 := 0
		for _, g := range getGroupList {
			g := g
			ei := errResultIndex(g.Signature)
			if ei < 0 {
				continue
			}
			gfacts := factsFor(g)
			eachInstr(g, func(_ *ssa.BasicBlock, _ int, in ssa.Instruction) {
				w := isStateWrite(in)
				if !w {
					if ci := callInfo(in, nil, 0); ci != nil && ci.Static != nil && ci.Static.Pkg == g.Pkg && ci.Kind == "call" && !getGroup[ci.Static] && writes(ci.Static, 0) {
						w = true
					}
				}
				if !w {
					return
				}
				n10++
				bad := ""
				for _, e := range RunPaths(g, in, 0, func(st int, _ ssa.Instruction, _ bool) int { return st }, false, nil) {
					r, isRet := e.Instr.(*ssa.Return)
					if !isRet {
						continue
					}
					ev := resolve(r.Results[ei])
					if isNilConst(ev) || gfacts.KnownNil(r.Block(), ev, true) {
						continue
					}
					bad = c.pos(r.Pos())
				}
				c.Check(bad == "", "R10", fmt.Sprintf("provider state write #%d in %s", n10, fname(g)), in.Pos(), "only on the way to a successful return",
					"after this write the failing return at "+bad+" is reachable — a failed resolution leaves state behind (a negative cache, a half-registered instance) and changes what a later, independent Get answers")
			})
		}
		c.Floor("R10", n10, 2)
	}

	// ---- R8 the cycle scan covers the whole stack ------------------------------------------------------
	isCalled := ro.scan
	if isCalled == nil {
		c.Bad("R8", "cycle scan of the resolution stack", 0, "no private bool function called by Get scans the resolution stack; cannot certify")
	} else {
		why := loopCoversWhole(isCalled, ro.stack)
		c.Check(why == "", "R8", "cycle scan of the resolution stack", isCalled.Pos(), "the scan visits every element of the resolution stack",
			why+" — a cycle closing on the unvisited slot re-enters its factory")
		// Get consults it before any factory runs
		ic := CallsTo(get, qualName(isCalled))
		okc := len(ic) > 0
		if okc {
			for _, ci := range Calls(get) {
				if ci.Static == nil && ci.Method == nil && ci.Kind == "call" { // dynamic = factory
					if _, isB := ci.Common.Value.(*ssa.Builtin); isB {
						continue
					}
					if !dominates(ic[0].Instr, ci.Instr) {
						okc = false
					}
				}
			}
		}
		if !okc && len(ic) == 0 {
			// the test and/or the factory calls live in private stages of Get
			gg := map[*ssa.Function]bool{}
			for _, g := range privateGroup(c.P, get, true) {
				gg[g] = true
			}
			gf := factsFor(get)
			var testSite *ssa.Call
			for g := range gg {
				if g == get || len(CallsTo(g, qualName(isCalled))) == 0 || errResultIndex(g.Signature) < 0 {
					continue
				}
				// g returns nil only where the scan said "not being resolved"
				hf := factsFor(g)
				sc := CallsTo(g, qualName(isCalled))[0]
				good := true
				for _, r := range returnsOf(g) {
					ev := r.Results[errResultIndex(g.Signature)]
					if hf.HoldsOnAllEdges(r.Block(), func(fs factSet) bool { return knownNilIn(fs, ev, false) }) {
						continue
					}
					if !hf.KnownBool(r.Block(), sc.Value(), false) {
						good = false
					}
				}
				if !good {
					continue
				}
				for _, site := range rootSites(get, g, gg) {
					if call, ok := site.Instr.(*ssa.Call); ok {
						testSite = call
					}
				}
			}
			if testSite != nil {
				okc = true
				ev := firstOr(resultN(testSite, errResultIndex(testSite.Call.Signature())))
				if testSite.Call.Signature().Results().Len() == 1 {
					ev = testSite
				}
				for g := range gg {
					for _, ci := range Calls(g) {
						if ci.Static != nil || ci.Method != nil || ci.Kind != "call" {
							continue
						}
						if _, isB := ci.Common.Value.(*ssa.Builtin); isB {
							continue
						}
						// a factory call: every way to it from Get passes the test with a nil result
						var sites []*CallInfo
						if g == get {
							sites = []*CallInfo{ci}
						} else {
							sites = rootSites(get, g, gg)
						}
						for _, s := range sites {
							if !dominates(testSite, s.Instr) || ev == nil || !gf.HoldsOnAllEdges(s.Block, func(fs factSet) bool { return knownNilIn(fs, ev, true) }) {
								okc = false
							}
						}
					}
				}
			}
		}
		c.Check(okc, "R8", "Get tests the resolution stack before running a factory", get.Pos(), "the cycle test dominates every factory call", "a factory can run without the cycle test — a cyclic graph recurses")
	}
}

// loopCoversWhole: the function scans field `field` (a slice) completely:
// either a range loop, or an index loop whose bounds cover [0, len).
func loopCoversWhole(f *ssa.Function, field string) string {
	return loopCoversWholeOf(f, field, func(v ssa.Value) bool { n, _ := fieldLoadName(v); return n == field }, 0)
}

// loopCoversWholeOf: as loopCoversWhole for the slice recognised by isSlice (the
// field load, or - in a helper the slice is handed to - the parameter).
func loopCoversWholeOf(f *ssa.Function, field string, isSlice func(ssa.Value) bool, depth int) string {
	isLenOfField := func(v ssa.Value, _ string) bool {
		c, ok := v.(*ssa.Call)
		if !ok {
			return false
		}
		b, ok := c.Call.Value.(*ssa.Builtin)
		return ok && b.Name() == "len" && len(c.Call.Args) == 1 && isSlice(c.Call.Args[0])
	}
	// find element loads  field[i]
	var idxs []ssa.Value
	eachInstr(f, func(_ *ssa.BasicBlock, _ int, in ssa.Instruction) {
		if ia, ok := in.(*ssa.IndexAddr); ok {
			if isSlice(ia.X) {
				idxs = append(idxs, ia.Index)
			}
		}
	})
	if len(idxs) == 0 && depth < 2 {
		// the slice is handed to a helper that scans it
		for _, ci := range Calls(f) {
			if ci.Static == nil || ci.Static.Blocks == nil || ci.Kind != "call" {
				continue
			}
			for i, a := range ci.Common.Args {
				if isSlice(a) && i < len(ci.Static.Params) {
					p := ci.Static.Params[i]
					return loopCoversWholeOf(ci.Static, field, func(v ssa.Value) bool { return v == ssa.Value(p) }, depth+1)
				}
			}
		}
	}
	if len(idxs) == 0 {
		return "no element of " + field + " is read"
	}
	for _, ix := range idxs {
		phi, ok := ix.(*ssa.Phi)
		if !ok {
			// `for range` lowering: index = phi + 1
			if bo, ok := ix.(*ssa.BinOp); ok && bo.Op == token.ADD {
				if p, ok := bo.X.(*ssa.Phi); ok {
					if k, ok := constInt(bo.Y); ok && k == 1 {
						// range form: phi(-1, idx)
						for _, e := range p.Edges {
							if k0, ok := constInt(e); ok && k0 == -1 {
								return ""
							}
						}
					}
				}
			}
			return "index of the scan is not a recognised loop counter"
		}
		var init ssa.Value
		var step int64
		for _, e := range phi.Edges {
			if bo, ok := e.(*ssa.BinOp); ok && bo.X == ssa.Value(phi) {
				if k, ok := constInt(bo.Y); ok {
					if bo.Op == token.ADD {
						step = k
					} else if bo.Op == token.SUB {
						step = -k
					}
					continue
				}
			}
			init = e
		}
		if init == nil || (step != 1 && step != -1) {
			return "scan counter is not a unit-step loop"
		}
		// continue condition
		var cond *ssa.BinOp
		for _, r := range *phi.Referrers() {
			if bo, ok := r.(*ssa.BinOp); ok {
				switch bo.Op {
				case token.LSS, token.LEQ, token.GTR, token.GEQ, token.NEQ:
					cond = bo
				}
			}
		}
		if cond == nil {
			return "cannot find the loop condition of the scan"
		}
		if step == 1 {
			k0, ok := constInt(init)
			if !ok || k0 != 0 {
				return "ascending scan does not start at index 0"
			}
			// i < len(field)
			if cond.Op == token.LSS && cond.X == ssa.Value(phi) && isLenOfField(cond.Y, field) {
				continue
			}
			return "ascending scan does not run to len(" + field + ")"
		}
		// descending: init = len-1, cond i >= 0 or i > -1
		bo, ok := init.(*ssa.BinOp)
		if !ok || bo.Op != token.SUB || !isLenOfField(bo.X, field) {
			return "descending scan does not start at the last element"
		}
		if k, ok := constInt(bo.Y); !ok || k != 1 {
			return "descending scan does not start at the last element"
		}
		kc, okc := constInt(cond.Y)
		if cond.X == ssa.Value(phi) && okc && ((cond.Op == token.GEQ && kc == 0) || (cond.Op == token.GTR && kc == -1)) {
			continue
		}
		return "descending scan stops before index 0"
	}
	return ""
}

func isLenOfField(v ssa.Value, field string) bool {
	c, ok := v.(*ssa.Call)
	if !ok {
		return false
	}
	b, ok := c.Call.Value.(*ssa.Builtin)
	if !ok || b.Name() != "len" || len(c.Call.Args) != 1 {
		return false
	}
	n, _ := fieldLoadName(c.Call.Args[0])
	return n == field
}

// loopCarriedPhi: walking back from v through phis, do we meet a phi in a loop
// header that receives a value along its back edge derived from itself or
// from another iteration's assignment?
func loopCarried(v ssa.Value) bool {
	seen := map[ssa.Value]bool{}
	var rec func(v ssa.Value) bool
	rec = func(v ssa.Value) bool {
		if seen[v] {
			return false
		}
		seen[v] = true
		p, ok := v.(*ssa.Phi)
		if !ok {
			if u, ok := v.(*ssa.UnOp); ok && u.Op == token.NOT {
				return rec(u.X)
			}
			return false
		}
		b := p.Block()
		for i, pred := range b.Preds {
			if b.Dominates(pred) { // back edge
				if _, isConst := p.Edges[i].(*ssa.Const); !isConst || true {
					return true
				}
			}
		}
		for _, e := range p.Edges {
			if rec(e) {
				return true
			}
		}
		return false
	}
	return rec(v)
}

func ruleInjectTo(c *Ctx, inject, get *ssa.Function) {

	facts := factsFor(inject)
	gets := CallsTo(inject, qualName(get))
	if len(gets) == 0 {
		c.Bad("R7", "InjectTo resolves fields through Get", inject.Pos(), "InjectTo no longer calls Get; cannot certify")
		return
	}
	n := 0
	for _, g := range gets {
		call, ok := g.Instr.(*ssa.Call)
		if !ok {
			continue
		}
		errs := resultN(call, 1)
		if len(errs) == 0 {
			c.Bad("R7", "error of Get in InjectTo", g.Pos(), "the error of Get is dropped — a missing required dependency is silently skipped")
			continue
		}
		// returns on the err != nil side
		n++
		retOK, contOK := false, false
		var optCond ssa.Value
		for _, r := range returnsOf(inject) {
			if !facts.KnownNil(r.Block(), errs[0], false) {
				continue
			}
			last := resolve(r.Results[len(r.Results)-1])
			if sameValue(last, errs[0]) || last == errs[0] {
				retOK = true
			}
		}
		// the branch on the optional flag, inside the err != nil region
		eachInstr(inject, func(b *ssa.BasicBlock, _ int, in ssa.Instruction) {
			iff, ok := in.(*ssa.If)
			if !ok {
				return
			}
			// an outgoing edge on which the error is known non-nil, decided (also) by the marker
			onEdge := facts.KnownNil(b, errs[0], false)
			for _, sb := range b.Succs {
				if knownNilIn(factsOnEdge(facts, b, sb), errs[0], false) {
					onEdge = true
				}
			}
			if !onEdge || !dependsOnMarker(facts, iff.Cond, 0, map[ssa.Value]bool{}) {
				return
			}
			optCond = iff.Cond
			contOK = true
		})
		c.Check(retOK, "R7", "required field failure is returned", g.Pos(), "a return of Get's error exists on its non-nil edge", "no path returns Get's error — a missing required dependency is ignored")
		c.Check(contOK, "R7", "optional field failure continues", g.Pos(), "the non-nil edge branches on the optional marker", "the non-nil edge does not branch on the optional marker")
		if optCond != nil {
			n++
			c.Check(!loopCarried(optCond), "R7", "optional marker is per-field", g.Pos(), "the marker is recomputed in every iteration of the field loop",
				"the optional marker is carried over from earlier fields — after one optional field every later required field is treated as optional")
		}
	}
	// extra injectors
	inj := 0
	for _, ci := range Calls(inject) {
		if ci.Method != nil && ci.Method.Name() == "InjectTo" {
			inj++
			call, ok := ci.Instr.(*ssa.Call)
			okr := false
			if ok {
				for _, r := range returnsOf(inject) {
					if facts.KnownNil(r.Block(), call, false) {
						okr = true
					}
				}
			}
			c.Check(okr, "R7", "extra injectors run and report", ci.Pos(), "the extra injector's error is returned", "the extra injector's error is dropped")
			// after the field loop: not inside the loop that calls Get
			for _, g := range gets {
				if reachableFrom(ci.Instr, g.Instr) {
					c.Bad("R7", "extra injectors run after the field loop", ci.Pos(), "an extra injector runs inside the field loop")
				}
			}
		}
	}
	c.Floor("R7", n+inj, 2)
}

// dependsOnMarker: v depends, by data or by the branch that selects a phi
// edge, on a test of the '?' optional marker of the tag.
func dependsOnMarker(facts *Facts, v ssa.Value, depth int, seen map[ssa.Value]bool) bool {
	if v == nil || seen[v] || depth > 10 {
		return false
	}
	seen[v] = true
	if s, ok := constString(v); ok && s == "?" {
		return true
	}
	if p, ok := v.(*ssa.Phi); ok {
		for i, e := range p.Edges {
			if dependsOnMarker(facts, e, depth+1, seen) {
				return true
			}
			for k := range factsOnEdge(facts, p.Block().Preds[i], p.Block()) {
				if dependsOnMarker(facts, k.v, depth+1, seen) {
					return true
				}
			}
		}
		return false
	}
	// the flag may be computed by a private helper (depID, isRequired := parseTag(tag))
	if ex, ok := v.(*ssa.Extract); ok {
		if call, ok := ex.Tuple.(*ssa.Call); ok {
			if h := call.Call.StaticCallee(); h != nil && inModule(h) && h.Blocks != nil && depth < 6 {
				hf := factsFor(h)
				for _, r := range returnsOf(h) {
					if ex.Index < len(r.Results) {
						if dependsOnMarker(hf, r.Results[ex.Index], depth+1, seen) {
							return true
						}
						// a constant result chosen on an edge that tests the marker
						for k := range hf.At(r.Block()) {
							if dependsOnMarker(hf, k.v, depth+1, seen) {
								return true
							}
						}
					}
				}
			}
		}
	}
	in, ok := v.(ssa.Instruction)
	if !ok {
		return false
	}
	for _, op := range in.Operands(nil) {
		if op != nil && *op != nil && dependsOnMarker(facts, *op, depth+1, seen) {
			return true
		}
	}
	return false
}

// ruleInjectorSiblings (R7, all implementers of app.Injector): inside the field
// loop no branch may depend on a boolean carried over from an earlier field, and
// in Provider.InjectTo whether a field is resolved may not depend on provider
// state (a negative cache pins a failure that could succeed later).
func ruleInjectorSiblings(c *Ctx, inject, get *ssa.Function) {
	iface := c.P.Iface("app", "Injector")
	if iface == nil {
		c.Bad("R7", "app.Injector", 0, "interface not found")
		return
	}
	n := 0
	for _, T := range c.P.Implementers(iface) {
		for _, f := range c.P.MethodsOf(T, iface) {
			if f.Blocks == nil || len(loopBackEdges(f)) == 0 {
				continue
			}
			n++
			bad := ""
			var pos token.Pos
			eachInstr(f, func(b *ssa.BasicBlock, _ int, in ssa.Instruction) {
				iff, ok := in.(*ssa.If)
				if !ok || !inLoop(f, b) {
					return
				}
				if _, isB := iff.Cond.Type().Underlying().(*types.Basic); isB && loopCarried(iff.Cond) {
					if p, isPhi := stripNot(iff.Cond).(*ssa.Phi); isPhi && types.Identical(p.Type().Underlying(), types.Typ[types.Bool]) {
						bad, pos = "a branch in the field loop tests a boolean carried over from earlier fields", iff.Pos()
					}
				}
			})
			c.Check(bad == "", "R7", "per-field flags in "+fname(f), orPos(pos, f.Pos()), "every flag tested in the field loop is recomputed per field",
				bad+" — after one optional ('?') field every later field is treated as optional and a missing required value is silently skipped")
		}
	}
	c.Floor("R7", n, 3)
	// Provider.InjectTo: the decision to resolve a field does not depend on provider state
	gets := CallsTo(inject, qualName(get))
	bad := ""
	var pos token.Pos
	eachInstr(inject, func(b *ssa.BasicBlock, _ int, in ssa.Instruction) {
		iff, ok := in.(*ssa.If)
		if !ok || !inLoop(inject, b) {
			return
		}
		for _, g := range gets {
			if dominates(g.Instr, iff) {
				return
			}
		}
		seenF := map[string]bool{}
		bad0 := ""
		for _, o := range append(Origins(iff.Cond, FlowOpts{}), Origins(iff.Cond, FlowOpts{Interproc: 2})...) {
			if o.Kind == "field" && strings.HasPrefix(o.Name, "dependency.Provider.") {
				if _, isStr := o.Val.Type().Underlying().(*types.Basic); isStr && o.Val.Type().Underlying().(*types.Basic).Kind() == types.String {
					continue
				}
				seenF[strings.TrimPrefix(o.Name, "dependency.Provider.")] = true
				bad0 = "a branch taken before Get depends on " + o.Name
			}
		}
		if bad0 == "" {
			return
		}
		// a predicate helper decides by control flow too: count every provider field it reads
		if hc, ok := stripNot(resolve(iff.Cond)).(*ssa.Call); ok {
			if h := hc.Call.StaticCallee(); h != nil && h.Pkg == inject.Pkg && h.Blocks != nil {
				eachInstr(h, func(_ *ssa.BasicBlock, _ int, in ssa.Instruction) {
					if u, ok := in.(*ssa.UnOp); ok && u.Op == token.MUL {
						if fa, ok := u.X.(*ssa.FieldAddr); ok && strings.HasPrefix(fieldName(fa), "dependency.Provider.") {
							if _, isMap := u.Type().Underlying().(*types.Map); isMap {
								seenF[strings.TrimPrefix(fieldName(fa), "dependency.Provider.")] = true
							}
						}
					}
				})
			}
		}
		// not a memory of earlier requests but Get's own question asked early: the provider was frozen
		// first (Block folds the default instances in) and the condition looks at every table Get looks at
		if ro := discoverProviderRoles(c); ro != nil {
			need := map[string]bool{ro.inst: true, ro.fact: true, ro.defFact: true}
			allowed := map[string]bool{ro.inst: true, ro.fact: true, ro.defFact: true, ro.defInst: true}
			okT := true
			for f := range seenF {
				if !allowed[f] {
					okT = false
				}
			}
			for f := range need {
				if !seenF[f] {
					okT = false
				}
			}
			frozen := false
			if blk := c.P.Func(depPkg, "Provider", "Block"); blk != nil {
				for _, bc := range CallsTo(inject, qualName(blk)) {
					if bc.Kind == "call" && dominates(bc.Instr, iff) {
						frozen = true
					}
				}
			}
			if okT && frozen {
				return
			}
		}
		bad, pos = bad0, iff.Pos()
	})
	c.Check(bad == "", "R7", "every tagged field is resolved through Get", orPos(pos, inject.Pos()), "no branch before Get depends on provider state",
		bad+" — a remembered earlier failure decides the injection, so a failed or optional-and-missing resolution changes the outcome of later requests")
}

func stripNot(v ssa.Value) ssa.Value {
	for {
		u, ok := v.(*ssa.UnOp)
		if !ok || u.Op != token.NOT {
			return v
		}
		v = u.X
	}
}

// ruleBuiltinsAreDefaults (R9): outside package dependency, library code
// defines services only through SetDefault / AddDefaultFactory.  A built-in put
// into an explicit slot (Set / AddFactory) cannot be overridden: the user's own
// Set is refused as a duplicate, the user's AddFactory never runs.
func ruleBuiltinsAreDefaults(c *Ctx) {
	explicit := map[string]bool{"Set": true, "AddFactory": true}
	defaults := map[string]bool{"SetDefault": true, "AddDefaultFactory": true}
	isDP := func(ci *CallInfo) string {
		var fo *types.Func
		if ci.Method != nil {
			fo = ci.Method
		} else if ci.Static != nil {
			if o, ok := ci.Static.Object().(*types.Func); ok {
				fo = o
			}
		}
		if fo == nil || fo.Pkg() == nil {
			return ""
		}
		pp := fo.Pkg().Path()
		if pp != modPath+"/app" && pp != modPath+"/"+depPkg {
			return ""
		}
		sig, _ := fo.Type().(*types.Signature)
		if sig == nil || sig.Recv() == nil {
			return ""
		}
		rt := sig.Recv().Type()
		if pt, ok := rt.(*types.Pointer); ok {
			rt = pt.Elem()
		}
		nt, ok := types.Unalias(rt).(*types.Named)
		if !ok || (nt.Obj().Name() != "DependencyProvider" && nt.Obj().Name() != "Provider") {
			return ""
		}
		return fo.Name()
	}
	nDef := 0
	for _, f := range c.P.AllModuleFuncs() {
		if f.Pkg == nil || f.Pkg.Pkg.Path() == modPath+"/"+depPkg {
			continue
		}
		for _, g := range withClosures(f) {
			for _, ci := range Calls(g) {
				m := isDP(ci)
				if defaults[m] {
					nDef++
				}
				if explicit[m] {
					c.Bad("R9", "explicit definition in library code: "+fname(g)+" -> "+m, ci.Pos(),
						"the library fills an explicit slot of the provider — a later explicit definition by the application is refused (Set) or never used (AddFactory), so 'explicit always wins over a built-in default' no longer holds")
				}
			}
		}
	}
	c.Check(nDef > 0, "R9", "built-ins are registered as defaults", 0, fmt.Sprintf("%d default registrations, no explicit one outside package dependency", nDef), "no default registration found; cannot certify")
}

// rootSites: the call instructions in root through which function g of root's
// private group is (transitively) reached.
func rootSites(root, g *ssa.Function, group map[*ssa.Function]bool) []*CallInfo {
	var out []*CallInfo
	var reaches func(f *ssa.Function, depth int) bool
	reaches = func(f *ssa.Function, depth int) bool {
		if f == g {
			return true
		}
		if depth > 3 || !group[f] {
			return false
		}
		for _, ci := range Calls(f) {
			if ci.Static != nil && group[ci.Static] && ci.Static != f && reaches(ci.Static, depth+1) {
				return true
			}
		}
		return false
	}
	for _, ci := range Calls(root) {
		if ci.Static != nil && group[ci.Static] && ci.Static != root && reaches(ci.Static, 0) {
			out = append(out, ci)
		}
	}
	return out
}

// dependsOnFieldLifted: v (a function value about to be called) comes from one of
// the named table fields, possibly through parameters of private stages.
func dependsOnFieldLifted(v ssa.Value, tables map[string]bool) bool {
	for _, o := range Origins(v, FlowOpts{LiftParams: 3}) {
		if o.Kind == "field" {
			for t := range tables {
				if strings.HasSuffix(o.Name, "."+t) {
					return true
				}
			}
		}
		if n := dependsOnField(o.Val, tables, 0, map[ssa.Value]bool{}); n != "" {
			return true
		}
	}
	return false
}
