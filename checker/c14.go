package main

import (
	"fmt"
	"go/token"
	"go/types"
	"strings"

	"golang.org/x/tools/go/ssa"
)

const tasksPkg = "app/modules/pipelinem/pipservices/tasks"
const termexecPkg = "app/terminal/termexec"

func init() {
	register(&PropDef{ID: "C14", Title: "Pipeline tasks honour wait lists and never run after a failed prerequisite", Rules: rulesC14,
		Explanation: "Decided (structural necessary conditions): R1 in the runner the body (Sandbox.Run) is dominated by the nil edge of waitForTasks, and on its non-nil edge the error is appended to the task's scope on every path (the refused task ends failed); R2 inside the wait loop every iteration that continues (back edge) has established: the name was found, that task's Wait() returned nil, and its error list is empty; the nil return is outside the loop; R3 NewTask arms the completion latch on every path, Task.Close releases it exactly once on every path, Task.Wait waits for it, runGo defers Close before anything can return, and Runner.Run starts the task goroutine on every path after a successful Create (and only then); R4 Create registers/returns a task only on the nil edge of validWaitList, and validWaitList returns an error for a name missing from the table; R5 after a task is entered in the table (or the manager's group is incremented) no path returns an error without undoing it; R6 the terminal loop runs one command at a time (synchronous call) and an iteration continues only if the command returned nil, otherwise the error is appended and the loop returns; R7 TaskManager.Wait waits for the manager's group on every path before it takes the table lock, then returns the accumulated task.Wait() errors; the task table is only touched under its lock. " +
			"R8 every wait name pip:run produces carries the task namespace of the submitting scope (no 'absolute' spelling): that prefix is what keeps a nested submission from waiting for the task whose body it runs in, which would never finish. " +
			"Added in round 4: R3 also recognises a channel latch (made in the constructor, closed exactly once by Close, received from by Wait); R4 accepts registration where the task's wait list is known to be empty (len == 0 of WaitList() or of the same data read from the constructor argument the accessor returns). " +
			"NOT decided: ordering and timing of really concurrent task bodies at run time; sandbox behaviour.",
	})
}

// loopBackEdges: (pred, header) pairs where header dominates pred.
func loopBackEdges(f *ssa.Function) [][2]*ssa.BasicBlock {
	var out [][2]*ssa.BasicBlock
	for _, b := range f.Blocks {
		for _, p := range b.Preds {
			if b.Dominates(p) {
				out = append(out, [2]*ssa.BasicBlock{p, b})
			}
		}
	}
	return out
}

func inLoop(f *ssa.Function, b *ssa.BasicBlock) bool {
	for _, e := range loopBackEdges(f) {
		// b is in the natural loop of e if header dominates b and b reaches the latch
		if e[1].Dominates(b) && len(b.Instrs) > 0 && len(e[0].Instrs) > 0 {
			if b == e[0] || reachableFrom(b.Instrs[0], e[0].Instrs[len(e[0].Instrs)-1]) {
				return true
			}
		}
	}
	return false
}

// knownLenZero: facts imply len(v)==0 for some value v produced by call `c`.
func knownLenZeroOfCall(fs factSet, isCall func(*ssa.Call) bool) bool {
	for k := range fs {
		bo, ok := k.v.(*ssa.BinOp)
		if !ok {
			continue
		}
		kv, okc := constInt(bo.Y)
		if !okc || kv != 0 {
			continue
		}
		zero := (bo.Op == token.NEQ && !k.pol) || (bo.Op == token.EQL && k.pol) || (bo.Op == token.GTR && !k.pol) || (bo.Op == token.LEQ && k.pol)
		if !zero {
			continue
		}
		lc, ok := bo.X.(*ssa.Call)
		if !ok {
			continue
		}
		if b, ok := lc.Call.Value.(*ssa.Builtin); !ok || b.Name() != "len" {
			continue
		}
		if inner, ok := lc.Call.Args[0].(*ssa.Call); ok && isCall(inner) {
			return true
		}
	}
	return false
}

func methodNamed(call *ssa.Call, name string) bool {
	if call.Call.Method != nil {
		return call.Call.Method.Name() == name
	}
	if f := call.Call.StaticCallee(); f != nil {
		return f.Name() == name && f.Signature.Recv() != nil
	}
	return false
}

func rulesC14(c *Ctx) {
	runGo := c.P.Func(runnerPkg, "Runner", "runGo")
	runF := c.P.Func(runnerPkg, "Runner", "Run")
	waitFor := c.P.Func(runnerPkg, "Runner", "waitForTasks")
	create := c.P.Func(tasksPkg, "TaskManager", "Create")
	valid := c.P.Func(tasksPkg, "TaskManager", "validWaitList")
	mwait := c.P.Func(tasksPkg, "TaskManager", "Wait")
	newTask := c.P.Func(tasksPkg, "", "NewTask")
	tclose := c.P.Func(tasksPkg, "Task", "Close")
	twait := c.P.Func(tasksPkg, "Task", "Wait")
	runLoop := c.P.Func(termexecPkg, "", "RunLoop")
	tm := c.P.Named(tasksPkg, "TaskManager")
	for n, f := range map[string]*ssa.Function{"runGo": runGo, "Run": runF, "waitForTasks": waitFor, "Create": create, "validWaitList": valid, "TaskManager.Wait": mwait, "NewTask": newTask, "Task.Close": tclose, "Task.Wait": twait, "RunLoop": runLoop} {
		if f == nil {
			c.Bad("anchor", n, 0, "anchor not found; cannot certify")
			return
		}
	}

	// ---- R1 body after prerequisites ----------------------------------------------
	var wcall, rcall *ssa.Call
	isBody := func(ci *CallInfo) bool {
		return ci.Method != nil && ci.Method.Name() == "Run" && strings.HasSuffix(qualObj(ci.Method), "(Sandbox).Run")
	}
	for _, ci := range Calls(runGo) {
		if ci.Static == waitFor {
			wcall, _ = ci.Instr.(*ssa.Call)
		}
		if isBody(ci) {
			rcall, _ = ci.Instr.(*ssa.Call)
		}
	}
	if rcall == nil {
		// the body may be started from a private helper: then the call of that helper is "the body" in runGo
		for _, ci := range Calls(runGo) {
			if ci.Static != nil && ci.Static.Pkg == runGo.Pkg && ci.Kind == "call" && ci.Static != waitFor {
				for _, inner := range Calls(ci.Static) {
					if isBody(inner) {
						rcall, _ = ci.Instr.(*ssa.Call)
					}
				}
			}
		}
	}
	if wcall == nil || rcall == nil {
		c.Bad("R1", "runner.(*Runner).runGo", runGo.Pos(), "cannot find waitForTasks / Sandbox.Run in runGo; cannot certify")
	} else {
		facts := factsFor(runGo)
		c.Check(facts.KnownNil(rcall.Block(), wcall, true), "R1", "body runs only after all prerequisites succeeded", rcall.Pos(), "Sandbox.Run is on the nil edge of waitForTasks",
			"the body is not confined to the edge where waitForTasks returned nil — a task runs although a prerequisite failed or has not finished")
		// failing edge appends the error
		bad := false
		found := false
		for _, b := range runGo.Blocks {
			if len(b.Preds) != 1 || len(b.Instrs) == 0 {
				continue
			}
			fs := factsOnEdge(facts, b.Preds[0], b)
			if !knownNilIn(fs, wcall, false) || facts.KnownNil(b.Preds[0], wcall, false) {
				continue
			}
			found = true
			// b is the entry of the failing edge
			// AppendError directly, or through a private helper that appends on every path (fail(task, ctx, err))
			appends := ipEvent(func(in ssa.Instruction) bool {
				ci := callInfo(in, nil, 0)
				return ci != nil && ci.Kind == "call" && ci.Method != nil && ci.Method.Name() == "AppendError"
			}, 1)
			exits := RunPaths(runGo, nil, 0, func(st int, in ssa.Instruction, d bool) int {
				if !d && appends(in) {
					return 1
				}
				return st
			}, false, func(st int, pred, succ *ssa.BasicBlock) bool {
				// restrict exploration to paths through b: allow only edges within the region dominated by b, plus the path to b
				return succ == b || b.Dominates(succ) || (!b.Dominates(pred) && reachesBlock(succ, b))
			})
			for _, e := range exits {
				if b.Dominates(e.Instr.Block()) && e.State == 0 {
					bad = true
				}
			}
		}
		c.Check(found && !bad, "R1", "refused task ends failed", wcall.Pos(), "on the non-nil edge of waitForTasks the error is appended to the task's scope on every path",
			"a task refused because of a failed prerequisite returns without recording the error — it ends 'successful' and tasks waiting on it run")
	}

	// ---- R2 wait loop is complete -----------------------------------------------------
	{
		facts := factsFor(waitFor)
		edges := loopBackEdges(waitFor)
		if len(edges) == 0 {
			c.Bad("R2", "wait loop of runner.(*Runner).waitForTasks", waitFor.Pos(), "cannot find the loop over the wait list; cannot certify")
		} else {
			ok := true
			why := ""
			for _, e := range edges {
				got := waitProps(waitFor, factsOnEdge(facts, e[0], e[1]), 0)
				switch {
				case !got["found"]:
					ok, why = false, "an iteration continues without the named task having been found"
				case !got["waitNil"]:
					ok, why = false, "an iteration continues without that task's Wait() result having been tested nil (only the last wait is examined)"
				case !got["errEmpty"]:
					ok, why = false, "an iteration continues without that task's error list having been tested empty"
				}
			}
			for _, r := range returnsOf(waitFor) {
				if isNilConst(resolve(r.Results[0])) && inLoop(waitFor, r.Block()) {
					ok, why = false, "success is returned from inside the loop (remaining names are not waited for)"
				}
			}
			c.Check(ok, "R2", "wait loop of runner.(*Runner).waitForTasks", waitFor.Pos(), "every continuing iteration established: found, Wait()==nil, Errors() empty; success only after the loop",
				why+" — a task starts although a prerequisite failed or is unfinished")
		}
	}

	// ---- R3 completion latch -------------------------------------------------------------
	wgCalls := func(f *ssa.Function, m string) []*CallInfo {
		var out []*CallInfo
		for _, ci := range Calls(f) {
			if ci.Static != nil && qualName(ci.Static) == "sync.(WaitGroup)."+m {
				// the task's own WaitGroup field (found by type, whatever it is called)
				if fa, ok := ci.Recv().(*ssa.FieldAddr); ok && strings.Contains(fieldName(fa), "tasks.Task.") {
					out = append(out, ci)
				}
			}
		}
		return out
	}
	// the latch may also be a channel field of the task: armed by make (in the constructor),
	// released by close, awaited by a receive
	chanFieldOf := func(v ssa.Value) string {
		u, ok := v.(*ssa.UnOp)
		if !ok || u.Op != token.MUL {
			return ""
		}
		fa, ok := u.X.(*ssa.FieldAddr)
		if !ok || !strings.Contains(fieldName(fa), "tasks.Task.") {
			return ""
		}
		if _, isChan := u.Type().Underlying().(*types.Chan); !isChan {
			return ""
		}
		return fieldName(fa)
	}
	latchChan := ""
	chanOps := func(f *ssa.Function, what string) []ssa.Instruction {
		var out []ssa.Instruction
		eachInstr(f, func(_ *ssa.BasicBlock, _ int, in ssa.Instruction) {
			switch x := in.(type) {
			case *ssa.Store:
				if what != "arm" {
					return
				}
				if _, isMk := x.Val.(*ssa.MakeChan); !isMk {
					return
				}
				if fa, ok := x.Addr.(*ssa.FieldAddr); ok && strings.Contains(fieldName(fa), "tasks.Task.") {
					if _, fresh := fa.X.(*ssa.Alloc); fresh && (latchChan == "" || latchChan == fieldName(fa)) {
						latchChan = fieldName(fa)
						out = append(out, in)
					}
				}
			case *ssa.Call:
				if what != "release" {
					return
				}
				if b, ok := x.Call.Value.(*ssa.Builtin); ok && b.Name() == "close" && chanFieldOf(x.Call.Args[0]) != "" && chanFieldOf(x.Call.Args[0]) == latchChan {
					out = append(out, in)
				}
			case *ssa.UnOp:
				if what == "wait" && x.Op == token.ARROW && chanFieldOf(x.X) != "" && chanFieldOf(x.X) == latchChan {
					out = append(out, in)
				}
			}
		})
		return out
	}
	var countOnD func(f *ssa.Function, is func(in ssa.Instruction, deferred bool) bool, depth int) (min, max int)
	countOn := func(f *ssa.Function, is func(in ssa.Instruction, deferred bool) bool) (min, max int) {
		return countOnD(f, is, 0)
	}
	countOnD = func(f *ssa.Function, is func(in ssa.Instruction, deferred bool) bool, depth int) (min, max int) {
		exits := RunPaths(f, nil, 0, func(st int, in ssa.Instruction, d bool) int {
			if is(in, d) && st < 3 {
				return st + 1
			}
			// a plain call of a private helper of the package contributes what the helper does on every path
			if ci := callInfo(in, nil, 0); ci != nil && ci.Kind == "call" && ci.Static != nil && ci.Static.Pkg == f.Pkg && ci.Static.Blocks != nil &&
				ci.Static != f && depth < 2 && (ci.Static.Object() == nil || !ci.Static.Object().Exported()) {
				hmin, hmax := countOnD(ci.Static, is, depth+1)
				if hmax > 0 {
					if hmin != hmax {
						return 3
					}
					if st+hmin > 3 {
						return 3
					}
					return st + hmin
				}
			}
			return st
		}, false, nil)
		min, max = 99, -1
		for _, e := range exits {
			if e.State < min {
				min = e.State
			}
			if e.State > max {
				max = e.State
			}
		}
		return
	}
	{
		adds := wgCalls(newTask, "Add")
		var armI []ssa.Instruction
		for _, a := range adds {
			armI = append(armI, a.Instr)
		}
		if len(adds) == 0 {
			armI = chanOps(newTask, "arm")
		}
		mn, mx := countOn(newTask, func(in ssa.Instruction, d bool) bool {
			for _, a := range armI {
				if a == in {
					return true
				}
			}
			return false
		})
		okArm := len(armI) == 1 && mn == 1 && mx == 1
		if okArm && len(adds) == 1 {
			if k, ok := constInt(adds[0].Arg(0)); !ok || k != 1 {
				okArm = false
			}
		}
		c.Check(okArm, "R3", "tasks.NewTask arms the latch once", newTask.Pos(), "wg.Add(1) exactly once on every path", "the completion latch is not armed exactly once — Wait returns early or never")
		var dones []ssa.Instruction
		relOf := func(g *ssa.Function) []ssa.Instruction {
			var out []ssa.Instruction
			for _, a := range wgCalls(g, "Done") {
				out = append(out, a.Instr)
			}
			if latchChan != "" {
				out = append(out, chanOps(g, "release")...)
			}
			return out
		}
		dones = relOf(tclose)
		for _, g := range reachableSamePkg(tclose, 2) {
			if g.Object() == nil || !g.Object().Exported() {
				dones = append(dones, relOf(g)...)
			}
		}
		mn, mx = countOn(tclose, func(in ssa.Instruction, d bool) bool {
			for _, a := range dones {
				if a == in {
					return true
				}
			}
			return false
		})
		c.Check(len(dones) >= 1 && mn == 1 && mx == 1, "R3", "tasks.(*Task).Close releases the latch once", tclose.Pos(), "wg.Done() exactly once on every path", "Close does not release the latch exactly once on every path — waiters hang (or: negative WaitGroup counter)")
		var ws []ssa.Instruction
		for _, a := range wgCalls(twait, "Wait") {
			ws = append(ws, a.Instr)
		}
		if len(ws) == 0 && latchChan != "" {
			ws = chanOps(twait, "wait")
		}
		okW := len(ws) == 1 && len(MustPass(twait, nil, func(in ssa.Instruction) bool { return in == ws[0] })) == 0
		c.Check(okW, "R3", "tasks.(*Task).Wait waits for the latch", twait.Pos(), "wg.Wait() on every path", "Task.Wait can return before the task finished")
		// runGo defers Close first
		var closeDefer ssa.Instruction
		eachInstr(runGo, func(_ *ssa.BasicBlock, _ int, in ssa.Instruction) {
			if d, ok := in.(*ssa.Defer); ok && d.Call.Method != nil && d.Call.Method.Name() == "Close" && closeDefer == nil {
				if _, isParam := d.Call.Value.(*ssa.Parameter); isParam {
					closeDefer = in
				}
			}
		})
		okD := closeDefer != nil
		if okD {
			bad := MustPass(runGo, nil, func(in ssa.Instruction) bool { return in == closeDefer })
			okD = len(bad) == 0
		}
		c.Check(okD, "R3", "runGo closes the task on every exit", runGo.Pos(), "defer task.Close() covers every return", "a return of runGo is reachable without task.Close(): the task never finishes and every waiter hangs")
		// Run starts runGo exactly on the success path of Create
		var cc *ssa.Call
		for _, ci := range Calls(runF) {
			if ci.Method != nil && ci.Method.Name() == "Create" {
				cc, _ = ci.Instr.(*ssa.Call)
			}
		}
		var goI *ssa.Go
		eachInstr(runF, func(_ *ssa.BasicBlock, _ int, in ssa.Instruction) {
			if g, ok := in.(*ssa.Go); ok && g.Call.StaticCallee() == runGo {
				goI = g
			}
		})
		okG := cc != nil && goI != nil
		why := "cannot find Create / go runGo in Run"
		if okG {
			rf := factsFor(runF)
			if !callErrKnownNil(rf, cc, goI.Block()) {
				okG, why = false, "the task goroutine is started although Create failed"
			}
			// every nil-error return after Create passes the go statement
			for _, e := range MustPass(runF, cc, func(in ssa.Instruction) bool { return in == ssa.Instruction(goI) }) {
				r := e.Instr.(*ssa.Return)
				if isNilConst(resolve(r.Results[len(r.Results)-1])) {
					okG, why = false, "Run can report success for an accepted task without starting it"
				}
			}
			// the created task is what runs
			if len(resultN(cc, 0)) == 0 {
				okG, why = false, "the created task is dropped"
			}
		}
		c.Check(okG, "R3", "Runner.Run starts every accepted task", runF.Pos(), "go runGo on the nil edge of Create, on every successful path", why+" — an accepted submission never finishes")
	}

	// ---- R4 wait names must exist ------------------------------------------------------------
	{
		facts := factsFor(create)
		var vc *ssa.Call
		for _, ci := range Calls(create) {
			if ci.Static == valid {
				vc, _ = ci.Instr.(*ssa.Call)
			}
		}
		var reg *ssa.MapUpdate
		eachInstr(create, func(_ *ssa.BasicBlock, _ int, in ssa.Instruction) {
			if mu, ok := in.(*ssa.MapUpdate); ok {
				if n, _ := fieldLoadName(mu.Map); n == "tasks" {
					reg = mu
				}
			}
		})
		if vc == nil || reg == nil {
			c.Bad("R4", "tasks.(*TaskManager).Create validates the wait list", create.Pos(), "cannot find validWaitList call / registration in Create; cannot certify")
		} else {
			// validated, or nothing to validate: the task's wait list is known to be empty
			isWL := waitListExprOf(create, vc)
			validated := func(b *ssa.BasicBlock) bool {
				return facts.HoldsOnAllEdges(b, func(fs factSet) bool {
					if knownNilIn(fs, vc, true) {
						return true
					}
					for k := range fs {
						if lenZeroOf(k.v, k.pol, isWL) {
							return true
						}
					}
					return false
				})
			}
			c.Check(validated(reg.Block()), "R4", "tasks.(*TaskManager).Create validates the wait list", reg.Pos(), "registration is on the nil edge of validWaitList (or where the wait list is empty)",
				"a task is registered without its wait list having been validated — it can wait for a task that never exists")
			for _, r := range returnsOf(create) {
				if isNilConst(resolve(r.Results[len(r.Results)-1])) && !validated(r.Block()) {
					c.Bad("R4", "tasks.(*TaskManager).Create validates the wait list", r.Pos(), "Create returns success on a path where validWaitList did not return nil")
				}
			}
		}
		// validWaitList: missing name -> error
		vf := factsFor(valid)
		okV := false
		eachInstr(valid, func(_ *ssa.BasicBlock, _ int, in ssa.Instruction) {
			lk, ok := in.(*ssa.Lookup)
			if !ok {
				return
			}
			if n, _ := fieldLoadName(lk.X); n != "tasks" {
				return
			}
			var res ssa.Value = lk
			if lk.CommaOk {
				return
			}
			for _, r := range returnsOf(valid) {
				if vf.KnownNil(r.Block(), res, true) && !isNilConst(resolve(r.Results[0])) {
					okV = true
				}
			}
		})
		c.Check(okV, "R4", "validWaitList refuses unknown names", valid.Pos(), "a table miss returns a non-nil error", "a wait name missing from the task table is not refused")
	}

	// ---- R5 rejected submissions leave no trace ------------------------------------------------
	{
		n := 0
		eachInstr(create, func(_ *ssa.BasicBlock, _ int, in ssa.Instruction) {
			isReg := false
			what := ""
			if mu, ok := in.(*ssa.MapUpdate); ok {
				if nm, _ := fieldLoadName(mu.Map); nm == "tasks" {
					isReg, what = true, "the task is entered in the table"
				}
			}
			if ci := callInfo(in, nil, 0); ci != nil && ci.Static != nil && qualName(ci.Static) == "sync.(WaitGroup).Add" {
				isReg, what = true, "the manager's group is incremented"
			}
			if !isReg {
				return
			}
			n++
			exits := RunPaths(create, in, 0, func(st int, x ssa.Instruction, d bool) int {
				if call, ok := x.(*ssa.Call); ok {
					if b, ok := call.Call.Value.(*ssa.Builtin); ok && b.Name() == "delete" {
						return 1
					}
				}
				return st
			}, false, nil)
			bad := false
			for _, e := range exits {
				r := e.Instr.(*ssa.Return)
				if e.State == 0 && !isNilConst(resolve(r.Results[len(r.Results)-1])) {
					bad = true
				}
			}
			c.Check(!bad, "R5", "no error return after "+what, in.Pos(), "every later return is a success (or undoes the registration)",
				"Create can return an error after "+what+": the refused task stays registered with an armed latch nobody releases, and every later wait blocks forever")
		})
		c.Floor("R5", n, 2)
	}

	// ---- R6 one command at a time, stop at first failure -----------------------------------------
	{
		var rc *ssa.Call
		async := false
		for _, g := range withClosures(runLoop) {
			for _, ci := range Calls(g) {
				if ci.Static != nil && ci.Static.Name() == "RunCommand" && ci.Static.Pkg == runLoop.Pkg {
					if ci.Kind != "call" || g != runLoop {
						async = true
					} else {
						rc, _ = ci.Instr.(*ssa.Call)
					}
				}
			}
		}
		if rc == nil {
			c.Bad("R6", "termexec.RunLoop runs commands synchronously", runLoop.Pos(), fmt.Sprintf("no synchronous RunCommand call in RunLoop (asynchronous: %v) — commands of one body can overlap", async))
		} else {
			c.Check(!async, "R6", "termexec.RunLoop runs commands synchronously", rc.Pos(), "RunCommand is called in line, in the loop's own goroutine", "a command is started with go/defer or from another goroutine")
			facts := factsFor(runLoop)
			ok := true
			why := ""
			k := 0
			for _, e := range loopBackEdges(runLoop) {
				if !e[1].Dominates(rc.Block()) {
					continue
				}
				if !reachesBlock(rc.Block(), e[0]) {
					continue
				}
				k++
				if !knownNilIn(factsOnEdge(facts, e[0], e[1]), rc, true) {
					ok, why = false, "the loop continues with the next command although the previous one failed"
				}
			}
			if k == 0 {
				ok, why = false, "cannot find the command loop"
			}
			// failing edge: AppendError before return
			appended := false
			for _, ci := range Calls(runLoop) {
				if ci.Method != nil && ci.Method.Name() == "AppendError" && facts.KnownNil(ci.Block, rc, false) {
					appended = true
				}
			}
			if !appended {
				ok, why = false, "the failing command's error is not appended to the scope"
			}
			c.Check(ok, "R6", "termexec.RunLoop stops at the first failing command", rc.Pos(), "back edge only on RunCommand()==nil; error appended on the failing edge", why)
		}
	}

	// ---- R7 manager waits and reports ------------------------------------------------------------
	{
		le := NewLockEngine(c.P)
		var gw *CallInfo
		for _, ci := range Calls(mwait) {
			if ci.Static != nil && qualName(ci.Static) == "sync.(WaitGroup).Wait" {
				gw = ci
			}
		}
		ok := gw != nil
		why := "TaskManager.Wait does not wait for the manager's group"
		if ok {
			if len(MustPass(mwait, nil, func(in ssa.Instruction) bool { return in == gw.Instr })) > 0 {
				ok, why = false, "a path of TaskManager.Wait skips the group wait"
			}
			la := le.Analyze(mwait)
			if len(la.HeldBefore(gw.Instr)) > 0 {
				ok, why = false, "the group wait happens while the table lock is held"
			}
			// every blocking task.Wait() under the table lock is dominated by the group wait
			for _, ci := range Calls(mwait) {
				if ci.Static == twait || (ci.Method != nil && ci.Method.Name() == "Wait") {
					if len(la.HeldBefore(ci.Instr)) > 0 && !dominates(gw.Instr, ci.Instr) {
						ok, why = false, "a task is waited for while holding the table lock without the group having drained: a nested submission blocks in Create forever"
					}
				}
			}
		}
		if ok {
			// result derives from task.Wait()
			derives := false
			for _, ci := range Calls(mwait) {
				if ci.Static == twait {
					if v := ci.Value(); v != nil && len(*v.Referrers()) > 0 {
						derives = true
					}
				}
			}
			for _, r := range returnsOf(mwait) {
				if isNilConst(resolve(r.Results[0])) {
					derives = false
				}
			}
			if !derives {
				ok, why = false, "the result does not carry the tasks' own Wait() errors"
			}
		}
		c.Check(ok, "R7", "tasks.(*TaskManager).Wait", mwait.Pos(), "group wait first (lock-free), then the accumulated task errors", why)
		if tm != nil {
			n := guardedAccessRule(c, le, "R7", c.P.PkgFuncs(tasksPkg), tm, "tasks", "tasksMU", func(v GuardVerdict) string {
				if v.Acc.Fn == valid {
					// helper that assumes the lock: every outside caller holds it
					key := ""
					for _, g := range c.P.PkgFuncs(tasksPkg) {
						for _, ci := range CallsTo(g, qualName(valid)) {
							if g == valid {
								continue
							}
							la := le.Analyze(g)
							held := la.HeldBefore(ci.Instr)
							has := false
							for k := range held {
								if strings.Contains(la.classOfKey(k), "tasksMU") {
									has = true
									key = k
								}
							}
							if !has {
								return ""
							}
						}
					}
					if key != "" {
						return "helper runs under the caller's hold of tasksMU (every call site outside the recursion holds it)"
					}
				}
				return ""
			})
			c.Floor("R7", n, 4)
		}
	}

	// ---- R8 wait names are resolved inside the submitting namespace -----------------------------------
	ruleWaitNamesNamespaced(c)
}

// ruleWaitNamesNamespaced (R8): pip:run turns --wait into task names by
// prefixing each with the task namespace of the submitting scope.  That prefix
// is what keeps a nested submission from naming its own ancestors (a task whose
// body line is still waiting for the nested task to be accepted/finished): every
// name the helper produces must carry the prefix.  An "absolute" spelling that
// bypasses it lets a body wait for the task it runs in - both never finish.
func ruleWaitNamesNamespaced(c *Ctx) {
	run := c.P.Func("app/modules/pipelinem/pipcommands/pipc", "", "Run")
	if run == nil {
		c.Bad("R8", "pipc.Run", 0, "anchor not found")
		return
	}
	n := 0
	for _, ci := range Calls(run) {
		if ci.Static == nil || ci.Static.Pkg != run.Pkg || ci.Static.Blocks == nil {
			continue
		}
		res := ci.Static.Signature.Results()
		if res.Len() < 1 {
			continue
		}
		if sl, ok := res.At(0).Type().Underlying().(*types.Slice); !ok || !isStringy(sl.Elem()) {
			continue
		}
		// which argument is the task namespace?
		pidx := -1
		for i := range ci.Common.Args {
			for _, o := range Origins(ci.Arg(i), FlowOpts{}) {
				if o.Kind == "call" && strings.Contains(o.Name, ").Task#") {
					pidx = i
				}
			}
		}
		if pidx < 0 {
			continue
		}
		F := ci.Static
		prefix := F.Params[pidx]
		n++
		bad := ""
		var pos token.Pos
		apps := 0
		for _, ac := range Calls(F) {
			b, isB := ac.Common.Value.(*ssa.Builtin)
			if !isB || b.Name() != "append" || len(ac.Common.Args) != 2 {
				continue
			}
			if sl, ok := ac.Common.Args[0].Type().Underlying().(*types.Slice); !ok || !isStringy(sl.Elem()) {
				continue
			}
			var elems []ssa.Value
			if s2, ok := ac.Common.Args[1].(*ssa.Slice); ok {
				elems = arrayElems(s2.X)
			}
			if len(elems) == 0 {
				bad, pos = "names are appended in bulk; cannot see that each carries the namespace", ac.Pos()
				continue
			}
			for _, e := range elems {
				apps++
				has := false
				for _, part := range concatParts(e, 0) {
					for _, o := range Origins(part, FlowOpts{}) {
						if o.Val == ssa.Value(prefix) {
							has = true
						}
					}
				}
				if !has {
					bad, pos = "a wait name is produced without the task-namespace prefix", ac.Pos()
				}
			}
		}
		if apps == 0 && bad == "" {
			bad = "the helper appends no names; cannot certify"
		}
		c.Check(bad == "", "R8", "wait names produced by "+fname(F)+" carry the task namespace", orPos(pos, F.Pos()), fmt.Sprintf("%d appended name(s), each prefix+name", apps),
			bad+" — a nested submission can then name the task whose body it runs in (or any task outside its namespace): the nested task waits for its ancestor while the ancestor's body waits for the nested one, and neither ever finishes")
	}
	c.Floor("R8", n, 1)
}

func reachesBlock(from, to *ssa.BasicBlock) bool {
	if from == to {
		return true
	}
	seen := map[*ssa.BasicBlock]bool{}
	stack := []*ssa.BasicBlock{from}
	for len(stack) > 0 {
		x := stack[len(stack)-1]
		stack = stack[:len(stack)-1]
		if seen[x] {
			continue
		}
		seen[x] = true
		if x == to {
			return true
		}
		stack = append(stack, x.Succs...)
	}
	return false
}

// waitProps: what the facts fs (in function fn) establish about one prerequisite:
// "found" (TasksManager.Get's ok is true), "waitNil" (its Wait() returned nil),
// "errEmpty" (len(Errors()) == 0) - directly, or because a private helper of the
// package returned a nil error and establishes them on each of its possibly-nil returns.
func waitProps(fn *ssa.Function, fs factSet, depth int) map[string]bool {
	out := map[string]bool{}
	for k := range fs {
		if ex, ok := k.v.(*ssa.Extract); ok && ex.Index == 1 && k.pol {
			if call, ok := ex.Tuple.(*ssa.Call); ok && methodNamed(call, "Get") {
				out["found"] = true
			}
		}
	}
	if knownLenZeroOfCall(fs, func(x *ssa.Call) bool { return methodNamed(x, "Errors") }) {
		out["errEmpty"] = true
	}
	for k := range fs {
		bo, ok := k.v.(*ssa.BinOp)
		if !ok || (bo.Op != token.EQL && bo.Op != token.NEQ) {
			continue
		}
		other := bo.X
		if isNilConst(bo.X) {
			other = bo.Y
		} else if !isNilConst(bo.Y) {
			continue
		}
		if (bo.Op == token.EQL) != k.pol {
			continue // known non-nil
		}
		ro := resolve(other)
		call, isCall := ro.(*ssa.Call)
		if ex, isEx := ro.(*ssa.Extract); isEx {
			call, isCall = ex.Tuple.(*ssa.Call)
		}
		if !isCall {
			continue
		}
		if methodNamed(call, "Wait") {
			out["waitNil"] = true
		}
		if h := call.Call.StaticCallee(); h != nil && h.Pkg == fn.Pkg && h.Blocks != nil && depth < 3 {
			for p := range nilReturnProps(h, depth+1) {
				out[p] = true
			}
		}
	}
	return out
}

// nilReturnProps: the properties established at every possibly-nil return of h.
func nilReturnProps(h *ssa.Function, depth int) map[string]bool {
	ei := errResultIndex(h.Signature)
	if ei < 0 {
		return nil
	}
	facts := factsFor(h)
	var res map[string]bool
	for _, r := range returnsOf(h) {
		ev := r.Results[ei]
		if facts.HoldsOnAllEdges(r.Block(), func(fs factSet) bool { return knownNilIn(fs, ev, false) }) {
			continue
		}
		got := waitProps(h, facts.At(r.Block()), depth)
		// handing on another helper's result
		if call, ok := resolve(ev).(*ssa.Call); ok {
			if h2 := call.Call.StaticCallee(); h2 != nil && h2.Pkg == h.Pkg && h2.Blocks != nil && depth < 3 {
				for p := range nilReturnProps(h2, depth+1) {
					got[p] = true
				}
			}
			if methodNamed(call, "Wait") {
				got["waitNil"] = true
			}
		}
		if res == nil {
			res = got
		} else {
			for p := range res {
				if !got[p] {
					delete(res, p)
				}
			}
		}
	}
	return res
}

// fieldPathOf: v reads root.f1.f2...: returns the root value and the field names.
func fieldPathOf(v ssa.Value) (ssa.Value, []string) {
	var path []string
	for d := 0; d < 8; d++ {
		switch x := v.(type) {
		case *ssa.UnOp:
			if x.Op != token.MUL {
				return v, path
			}
			v = x.X
		case *ssa.FieldAddr:
			n := fieldName(x)
			path = append([]string{n[strings.LastIndex(n, ".")+1:]}, path...)
			v = x.X
		case *ssa.Field:
			n := fieldNameV(x)
			path = append([]string{n[strings.LastIndex(n, ".")+1:]}, path...)
			v = x.X
		default:
			return v, path
		}
	}
	return v, path
}

// waitListExprOf: recogniser for "the wait list of the task handed to validWaitList" inside
// Create: task.WaitList(), or the same data read from the value the task was built from
// (the constructor stores parameter k in field f, WaitList returns recv.f.g => arg_k.g).
func waitListExprOf(create *ssa.Function, vc *ssa.Call) func(ssa.Value) bool {
	var task ssa.Value
	for _, a := range vc.Call.Args {
		if pt, ok := a.Type().Underlying().(*types.Interface); ok && pt != nil {
			if mi, isMI := resolve(a).(*ssa.MakeInterface); isMI {
				task = resolve(mi.X)
			}
		}
	}
	if task == nil && len(vc.Call.Args) >= 3 {
		task = resolve(vc.Call.Args[2])
	}
	var argRoot ssa.Value
	var argPath, accPath []string
	if ctor, ok := task.(*ssa.Call); ok && ctor.Call.StaticCallee() != nil && ctor.Call.StaticCallee().Blocks != nil {
		cf := ctor.Call.StaticCallee()
		// the accessor
		var wl *ssa.Function
		if pt, ok := cf.Signature.Results().At(0).Type().(*types.Pointer); ok {
			if nt, ok := pt.Elem().(*types.Named); ok {
				for i := 0; i < nt.NumMethods(); i++ {
					if nt.Method(i).Name() == "WaitList" {
						wl = cf.Prog.FuncValue(nt.Method(i))
					}
				}
			}
		}
		if wl != nil && wl.Blocks != nil && len(returnsOf(wl)) == 1 {
			root, path := fieldPathOf(returnsOf(wl)[0].Results[0])
			if root == ssa.Value(wl.Params[0]) && len(path) >= 2 {
				// which constructor parameter fills path[0]?
				eachInstr(cf, func(_ *ssa.BasicBlock, _ int, in ssa.Instruction) {
					st, ok := in.(*ssa.Store)
					if !ok {
						return
					}
					fa, ok := st.Addr.(*ssa.FieldAddr)
					if !ok {
						return
					}
					n := fieldName(fa)
					if n[strings.LastIndex(n, ".")+1:] != path[0] {
						return
					}
					if _, fresh := fa.X.(*ssa.Alloc); !fresh {
						return
					}
					pv := resolve(st.Val)
					for pi, p := range cf.Params {
						if pv == ssa.Value(p) && pi < len(ctor.Call.Args) {
							argRoot, argPath = fieldPathOf(ctor.Call.Args[pi])
							accPath = path[1:]
						}
					}
				})
			}
		}
	}
	return func(v ssa.Value) bool {
		if call, ok := v.(*ssa.Call); ok {
			name := ""
			var recv ssa.Value
			if call.Call.IsInvoke() {
				name, recv = call.Call.Method.Name(), call.Call.Value
			} else if f := call.Call.StaticCallee(); f != nil && f.Signature.Recv() != nil && len(call.Call.Args) > 0 {
				name, recv = f.Name(), call.Call.Args[0]
			}
			if name == "WaitList" && recv != nil {
				r := resolve(recv)
				if mi, ok := r.(*ssa.MakeInterface); ok {
					r = resolve(mi.X)
				}
				return r == task
			}
			return false
		}
		if argRoot == nil {
			return false
		}
		root, path := fieldPathOf(v)
		if root != argRoot || len(path) != len(argPath)+len(accPath) {
			return false
		}
		want := append(append([]string{}, argPath...), accPath...)
		for i := range want {
			if want[i] != path[i] {
				return false
			}
		}
		return true
	}
}

// lenZeroOf: condition c with polarity pol says len(x) == 0 for an x accepted by isX.
func lenZeroOf(c ssa.Value, pol bool, isX func(ssa.Value) bool) bool {
	bo, ok := c.(*ssa.BinOp)
	if !ok {
		return false
	}
	var other ssa.Value
	if kv, ok := constInt(bo.Y); ok && kv == 0 {
		other = bo.X
	} else {
		return false
	}
	zero := (bo.Op == token.EQL && pol) || (bo.Op == token.NEQ && !pol) || (bo.Op == token.GTR && !pol) || (bo.Op == token.LEQ && pol)
	if !zero {
		return false
	}
	lc, ok := other.(*ssa.Call)
	if !ok {
		return false
	}
	if b, ok := lc.Call.Value.(*ssa.Builtin); !ok || b.Name() != "len" {
		return false
	}
	return isX(lc.Call.Args[0])
}
