package main

import (
	"fmt"
	"go/constant"
	"go/token"
	"go/types"
	"sort"
	"strings"

	"golang.org/x/tools/go/ssa"
)

func init() {
	register(&PropDef{ID: "C01", Title: "In-memory filespace behaves as an abstract file tree on every history", Rules: rulesC01,
		Explanation: "Decided (structural necessary conditions, package memfs, all paths): R1 every path parameter of every memfs.Filespace method reaches lookup/creation helpers only through CleanPath/ReduceAbsPath (sibling queries answer alike for redundant spellings); R2 list and name index of a directory change together under one lock hold; R3 on the empty-only path a directory is removed only after an emptiness test on that directory; R4 copies are deep: copyFile hands NewFile a freshly allocated slice, every element of a copied directory's child list is the result of copyDir/copyFile; R5 slices returned through ReadFile/ReadDir never alias File.data/Dir.nodes; R6 a caller-supplied []byte is never stored into File.data without a copy; R7 create-or-replace happens under the directory's outer lock; R8 each child-view method calls the same-named operation of the wrapped filespace with its arguments in order and returns its results; R9/R10 every path a child view hands to the wrapped filespace (and the base of a nested view) is reduced before it is joined to the view's base, so a child view is a relabelling of its own subtree only. " +
			"R11 varutil.CleanPath strips the leading separator from the output of path.Clean (clean first, then strip: otherwise '//d/f' yields a node named '' and '/../x' a node named '..'); R12 the filespace object remembers no tree node but its root (a memoised *Dir can be detached by a Remove and then swallows writes); R4 also requires that copyFile/copyDir return a newly built node on every path. R13 Copy/CopyDirectory/CopyFile change the tree (create destination parents, add the copy) only after the source node was found: a failing copy leaves no directories behind; R15 in the memory backend and the path normalisers no path is altered byte-wise or tested against a fragment of a name (HasPrefix(p, \"..\") also rejects the legal name '..config'): names are opaque bytes, only whole segments and the separator are structure (same rule as C02.R8 / C03.R9); R14 every insert into a directory's name index follows, under the same hold of the directory lock, a miss of that very name (one node per name; same analysis as C09.L4). " +
			"Added in round 7: R5 judges any field of a memfs type as shared storage (a cached listing handed to every caller is as shared as Dir.nodes itself). " +
			"NOT decided: equality of results and tree with the abstract model over histories, listing order, error cases, and the phantom-node clause ('.', '', '..' as node names: MkdirAll(\".\") creates a node named '.' on today's tree — a value-level defect outside this family's reach, see DESIGN.md §6).",
	})
}

// boolEnv propagation: which functions are reached from `from` through static
// calls, and with which constant value for each bool parameter.
type reachInfo struct {
	fn  *ssa.Function
	env map[*ssa.Parameter]bool
}

func reachWithBools(from *ssa.Function, maxDepth int) []reachInfo {
	var out []reachInfo
	seen := map[string]bool{}
	var rec func(f *ssa.Function, env map[*ssa.Parameter]bool, d int)
	rec = func(f *ssa.Function, env map[*ssa.Parameter]bool, d int) {
		key := qualName(f)
		var ks []string
		for p, v := range env {
			ks = append(ks, fmt.Sprintf("%s=%v", p.Name(), v))
		}
		sort.Strings(ks)
		key += strings.Join(ks, ",")
		if seen[key] || d > maxDepth {
			return
		}
		seen[key] = true
		out = append(out, reachInfo{f, env})
		for _, ci := range Calls(f) {
			if ci.Static == nil || !inModule(ci.Static) || ci.Static.Blocks == nil {
				continue
			}
			ne := map[*ssa.Parameter]bool{}
			for i, a := range ci.Common.Args {
				if i >= len(ci.Static.Params) {
					break
				}
				if b, ok := constBool(a); ok {
					ne[ci.Static.Params[i]] = b
				} else if p, ok := a.(*ssa.Parameter); ok {
					if v, known := env[p]; known {
						ne[ci.Static.Params[i]] = v
					}
				}
			}
			rec(ci.Static, ne, d+1)
		}
	}
	rec(from, map[*ssa.Parameter]bool{}, 0)
	return out
}

// derivesFrom: v is computed from x (bounded backward walk over operands).
func derivesFrom(v, x ssa.Value, depth int) bool {
	if v == x {
		return true
	}
	if depth > 8 {
		return false
	}
	in, ok := v.(ssa.Instruction)
	if !ok {
		return false
	}
	for _, op := range in.Operands(nil) {
		if op != nil && *op != nil && derivesFrom(*op, x, depth+1) {
			return true
		}
	}
	return false
}

func rulesC01(c *Ctx) {
	iface := c.P.Iface("filesystem", "Filespace")
	fsT := c.P.Named(memfsPkg, "Filespace")
	wrapT := c.P.Named(memfsPkg, "FilespaceWrapper")
	dirT := c.P.Named(memfsPkg, "Dir")
	fileT := c.P.Named(memfsPkg, "File")
	if iface == nil || fsT == nil || wrapT == nil || dirT == nil || fileT == nil {
		c.Bad("anchor", "memfs types", 0, "memfs.Filespace/FilespaceWrapper/Dir/File or filesystem.Filespace not found; cannot certify")
		return
	}
	methods := c.P.MethodsOf(fsT, iface)
	var mnames []string
	for m := range methods {
		mnames = append(mnames, m)
	}
	sort.Strings(mnames)

	// ---- R1 normalise before lookup ----------------------------------------
	n1 := 0
	for _, mn := range mnames {
		f := methods[mn]
		uses := sinkUses(f)
		for _, p := range stringParams(f) {
			con := fmt.Sprintf("memfs.(Filespace).%s(%s)", mn, p.Name())
			n1++
			bad := ""
			var pos token.Pos
			k := 0
			for _, u := range uses {
				for _, part := range u.Parts {
					for _, l := range part {
						if l.Param != p {
							continue
						}
						k++
						if l.State == "raw" {
							// a constructor that reduces its argument itself is a normaliser too
							if u.Call != nil && u.Call.Static != nil && inModule(u.Call.Static) {
								if ok := calleeNormalises(u.Call.Static, u.ArgIdx); ok {
									continue
								}
							}
							bad = fmt.Sprintf("parameter %s reaches %s without CleanPath/ReduceAbsPath [%s; path %v]", p.Name(), lastSeg(u.SinkName), describeParts(u), l.Origin.Path)
							pos = u.Pos()
						}
					}
				}
			}
			if bad != "" {
				c.Bad("R1", con, pos, bad+" — a redundant spelling ('a/../b', './x') is answered differently than by the sibling operations")
			} else {
				c.OK("R1", con, f.Pos(), fmt.Sprintf("%d use(s), all normalised", k))
			}
		}
	}
	c.Floor("R1", n1, 19)

	// ---- R2 list/index in step (shared with C09.L3) ---------------------------
	le := NewLockEngine(c.P)
	rulesListIndexInStep(c, le, "R2")

	// ---- R3 empty-only guard --------------------------------------------------
	ruleEmptyOnly(c, methods["Remove"], dirT)

	// ---- R4 deep copy -----------------------------------------------------------
	ruleDeepCopy(c, dirT, fileT)

	// ---- R5 snapshot out ----------------------------------------------------------
	c.Floor("R5", ruleSnapshotOut(c, "R5", methods), 2)

	// ---- R6 snapshot in --------------------------------------------------------------
	ruleSnapshotIn(c, methods, fileT)

	// ---- R7 create-or-replace under the directory lock (shared with C09.L4) --------
	n7 := ruleOuterLockAroundLeaf(c, le, "R7")
	c.Floor("R7", n7, 2)

	// ---- R8 child view is a relabelling ------------------------------------------------
	wm := c.P.MethodsOf(wrapT, iface)
	n8 := 0
	for _, mn := range sortedKeys(wm) {
		f := wm[mn]
		n8++
		why, ci := checkDelegation(f, DelegationOpts{Iface: iface, AltCallee: map[string]string{"Filespace": mq(memfsPkg, "", "NewFilespaceWrapper")}})
		pos := f.Pos()
		if ci != nil {
			pos = ci.Pos()
		}
		c.Check(why == "", "R8", "memfs.(FilespaceWrapper)."+mn, pos, "calls the same-named operation with its arguments in order and returns its results",
			why+" — the child view is no longer a relabelling of the parent tree")
	}
	c.Floor("R8", n8, 16)

	// ---- R9/R10 the child view addresses only its own subtree (same analysis as C03.R1/R2) ----
	n9, n10, _ := viewConfinementRules(c, iface, c.P.Implementers(iface), []*types.Named{wrapT}, "R9", "R10", "R11")
	c.Floor("R9", n9, 19)
	c.Floor("R10", n10, 1)

	// ---- R11 the cleaner strips the separator from Clean's output; R12 no remembered nodes ----
	ruleCleanerOrder(c, "R11")
	ruleNoNodeMemo(c, "R12")
	// ---- R13 copies look the source up before they change the tree ----
	c.Floor("R13", ruleCopyLooksUpSourceFirst(c, "R13", methods), 3)
	// ---- R15 names are opaque bytes in the memory backend (same rule as C02.R8 / C03.R9) ----
	c.Floor("R15", ruleNamesOpaque(c, "R15", iface, []*types.Named{fsT, wrapT}), 20)
	// ---- R14 one node per name: an insert follows a miss of that very name (same rule as C09.L4) ----
	c.Floor("R14", checkThenInsert(c, le, "R14", c.P.PkgFuncs(memfsPkg), dirT, "index", "mu"), 1)
}

func sortedKeys(m map[string]*ssa.Function) []string {
	var ks []string
	for k := range m {
		ks = append(ks, k)
	}
	sort.Strings(ks)
	return ks
}

// calleeNormalises: the callee passes parameter argIdx through a
// cleaner/reducer before any other use.
func calleeNormalises(callee *ssa.Function, argIdx int) bool {
	pi := argIdx
	if callee.Signature.Recv() != nil {
		pi++
	}
	if pi >= len(callee.Params) || callee.Blocks == nil {
		return false
	}
	p := callee.Params[pi]
	n := 0
	for _, u := range sinkUses(callee) {
		for _, part := range u.Parts {
			for _, l := range part {
				if l.Param == p {
					n++
					if l.State == "raw" {
						return false
					}
				}
			}
		}
	}
	return n > 0
}

// ruleEmptyOnly (R3): every removal reachable from Filespace.Remove is either
// on a path where the empty-only flag is false, or the removed node is known
// not to be a directory, or an emptiness test on that directory holds.
func ruleEmptyOnly(c *Ctx, remove *ssa.Function, dirT *types.Named) {
	if remove == nil {
		c.Bad("R3", "memfs.(Filespace).Remove", 0, "anchor not found")
		return
	}
	target := mq(memfsPkg, "Dir", "removeNodeByName")
	n := 0
	for _, ri := range reachWithBools(remove, 4) {
		calls := CallsTo(ri.fn, target)
		if len(calls) == 0 {
			continue
		}
		facts := factsFor(ri.fn)
		for idx, ci := range calls {
			n++
			con := fmt.Sprintf("removal #%d in %s (reached from Remove)", idx+1, fname(ri.fn))
			// (a) a bool parameter known true from Remove is known false here -> path not taken by Remove
			dead := false
			for p, v := range ri.env {
				if facts.KnownBool(ci.Block, p, !v) {
					dead = true
				}
			}
			if dead {
				c.OK("R3", con, ci.Pos(), "on the recursive-remove path only (flag differs from the constant Remove passes)")
				continue
			}
			// (b)/(c): every way of reaching the removal established "not a directory"
			// or "that directory is empty" (a merged condition reaches it on two edges)
			var dirAsserts []ssa.Value
			eachInstr(ri.fn, func(b *ssa.BasicBlock, i int, in ssa.Instruction) {
				if ta, ok := in.(*ssa.TypeAssert); ok && isPtrTo(ta.AssertedType, dirT) {
					dirAsserts = append(dirAsserts, append(resultN(ta, 0), ta)...)
				}
			})
			okb, okc := false, false
			established := func(fs factSet) bool {
				for k := range fs {
					if ex, ok := k.v.(*ssa.Extract); ok && ex.Index == 1 {
						if ta, ok := ex.Tuple.(*ssa.TypeAssert); ok && isPtrTo(ta.AssertedType, dirT) && !k.pol {
							okb = true
							return true
						}
					}
					// a private predicate of the directory: func (d *Dir) isEmpty() bool { return len(d.nodes) == 0 }
					if call, ok := k.v.(*ssa.Call); ok {
						if h := call.Call.StaticCallee(); h != nil && h.Pkg == ri.fn.Pkg && len(call.Call.Args) == 1 {
							if isPred, trueMeansEmpty := emptyPredicate(h); isPred && k.pol == trueMeansEmpty {
								for _, d := range dirAsserts {
									if derivesFrom(call.Call.Args[0], d, 0) {
										okc = true
										return true
									}
								}
							}
						}
					}
					if bo, ok := k.v.(*ssa.BinOp); ok {
						var other ssa.Value
						if kv, ok := constInt(bo.Y); ok && kv == 0 {
							other = bo.X
						} else if kv, ok := constInt(bo.X); ok && kv == 0 {
							other = bo.Y
						} else {
							continue
						}
						empty := (bo.Op == token.EQL && k.pol) || (bo.Op == token.NEQ && !k.pol) || (bo.Op == token.GTR && !k.pol) || (bo.Op == token.LEQ && k.pol)
						if !empty {
							continue
						}
						for _, d := range dirAsserts {
							if derivesFrom(other, d, 0) {
								okc = true
								return true
							}
						}
					}
				}
				return false
			}
			// (d) the test lives in a private guard helper: H(dir, name) whose every possibly-nil
			// return has established one of the two facts
			var guards []*ssa.Call
			for _, hc := range Calls(ri.fn) {
				call, isCall := hc.Instr.(*ssa.Call)
				if !isCall || hc.Static == nil || hc.Static.Pkg != ri.fn.Pkg || hc.Static.Blocks == nil || errResultIndex(hc.Static.Signature) < 0 {
					continue
				}
				sameName := false
				for _, a := range hc.Common.Args {
					if resolve(a) == resolve(ci.Arg(0)) || sameValue(resolve(a), resolve(ci.Arg(0))) {
						sameName = true
					}
				}
				if sameName && guardHelperEstablishesRemovable(hc.Static, dirT) {
					guards = append(guards, call)
				}
			}
			// every edge into the removal: the flag has the value Remove never passes, or one of the
			// facts is established, or a guard helper returned nil
			edgeOK := func(fs factSet) bool {
				for p, v := range ri.env {
					for k := range fs {
						if k.v == ssa.Value(p) && k.pol == !v {
							return true
						}
					}
				}
				if established(fs) {
					return true
				}
				for _, g := range guards {
					ev := ssa.Value(g)
					if g.Call.Signature().Results().Len() > 1 {
						ev = firstOr(resultN(g, errResultIndex(g.Call.Signature())))
					}
					if ev != nil && knownNilIn(fs, ev, true) {
						okc = true
						return true
					}
				}
				return false
			}
			if !facts.HoldsOnAllEdges(ci.Block, edgeOK) {
				okb, okc = false, false
			}
			c.Check(okb || okc, "R3", con, ci.Pos(),
				map[bool]string{true: "node known not to be a directory", false: "emptiness of the directory established on this path"}[okb],
				"a node is removed on the empty-only path with neither 'not a directory' nor 'directory is empty' established — Remove of a non-empty directory deletes a subtree")
		}
	}
	c.Floor("R3", n, 1)
}

func isPtrTo(t types.Type, n *types.Named) bool {
	pt, ok := t.(*types.Pointer)
	return ok && types.Identical(pt.Elem(), n)
}

// ruleDeepCopy (R4).
func ruleDeepCopy(c *Ctx, dirT, fileT *types.Named) { ruleDeepCopyAs(c, "R4") }

func ruleDeepCopyAs(c *Ctx, R4 string) {
	n := 0
	newFile := mq(memfsPkg, "", "NewFile")
	newDir := mq(memfsPkg, "", "NewDir")
	copyFile := c.P.Func(memfsPkg, "", "copyFile")
	copyDir := c.P.Func(memfsPkg, "", "copyDir")
	if copyFile == nil || copyDir == nil {
		c.Bad(R4, "memfs.copyFile/copyDir", 0, "anchor not found")
		return
	}
	// copyFile: data handed to NewFile is fresh
	for _, ci := range CallsTo(copyFile, newFile) {
		n++
		var data ssa.Value
		for i := 0; ; i++ {
			a := ci.Arg(i)
			if a == nil {
				break
			}
			if _, ok := a.Type().Underlying().(*types.Slice); ok {
				data = a
			}
		}
		if data == nil {
			c.Bad(R4, "copyFile -> NewFile data", ci.Pos(), "no slice argument found")
			continue
		}
		os := Origins(data, FlowOpts{Alias: true, Interproc: 2})
		fresh := allOrigins(os, func(o Origin) bool { return o.Kind == "alloc" || o.Kind == "nil" || o.Kind == "const" })
		c.Check(fresh, R4, "copyFile -> NewFile data", ci.Pos(), "the copy's bytes come from a fresh allocation",
			"the new file shares its bytes with "+originsString(os)+" — a write to the copy changes the original")
	}
	if len(CallsTo(copyFile, newFile)) == 0 {
		c.Bad(R4, "copyFile -> NewFile data", copyFile.Pos(), "copyFile no longer builds its result with NewFile; cannot certify the copy is deep")
	}
	// copyDir: the child list handed to NewDir is fresh and each element is a copy
	for _, ci := range CallsTo(copyDir, newDir) {
		n++
		var list ssa.Value
		for i := 0; ; i++ {
			a := ci.Arg(i)
			if a == nil {
				break
			}
			if _, ok := a.Type().Underlying().(*types.Slice); ok {
				list = a
			}
		}
		if list == nil {
			c.Bad(R4, "copyDir -> NewDir nodes", ci.Pos(), "no slice argument found")
			continue
		}
		los := Origins(list, FlowOpts{Alias: true})
		fresh := allOrigins(los, func(o Origin) bool { return o.Kind == "alloc" })
		if !fresh {
			c.Bad(R4, "copyDir -> NewDir nodes", ci.Pos(), "the copy's child list shares its backing store with "+originsString(los))
			continue
		}
		// every element stored into the list
		bad := ""
		stores := 0
		for _, o := range los {
			for _, r := range *o.Val.Referrers() {
				ia, ok := r.(*ssa.IndexAddr)
				if !ok {
					continue
				}
				for _, rr := range *ia.Referrers() {
					st, ok := rr.(*ssa.Store)
					if !ok || st.Addr != ssa.Value(ia) {
						continue
					}
					stores++
					for _, eo := range Origins(st.Val, FlowOpts{}) {
						okEl := eo.Kind == "call" && (strings.HasPrefix(eo.Name, mq(memfsPkg, "", "copyDir")+"#") || strings.HasPrefix(eo.Name, mq(memfsPkg, "", "copyFile")+"#") || strings.HasPrefix(eo.Name, mq(memfsPkg, "", "copyNode")+"#"))
						if !okEl && eo.Kind != "nil" {
							bad = "an element of the copy's child list is " + eo.String() + ", not the result of copyDir/copyFile"
						}
					}
				}
			}
		}
		if stores == 0 {
			bad = "no element store into the copy's child list found (shape changed; cannot certify)"
		}
		c.Check(bad == "", R4, "copyDir -> NewDir nodes", ci.Pos(), fmt.Sprintf("%d element store(s), each the result of a recursive copy", stores),
			bad+" — the copy shares a node with the source tree")
	}
	if len(CallsTo(copyDir, newDir)) == 0 {
		c.Bad(R4, "copyDir -> NewDir nodes", copyDir.Pos(), "copyDir no longer builds its result with NewDir; cannot certify the copy is deep")
	}
	// both node kinds handled: copyDir reaches copyFile and itself
	n++
	hasF, hasD := len(CallsTo(copyDir, mq(memfsPkg, "", "copyFile"))) > 0, len(CallsTo(copyDir, mq(memfsPkg, "", "copyDir"))) > 0
	if !hasF || !hasD {
		hasN := len(CallsTo(copyDir, mq(memfsPkg, "", "copyNode"))) > 0
		hasF, hasD = hasF || hasN, hasD || hasN
	}
	// the copy functions return a fresh node, never one of the source tree (no sharing "when nothing changes")
	for _, cf := range []*ssa.Function{copyFile, copyDir} {
		n++
		bad := ""
		for _, r := range returnsOf(cf) {
			if len(r.Results) == 0 {
				continue
			}
			for _, o := range Origins(r.Results[0], FlowOpts{}) {
				switch {
				case o.Kind == "nil" || o.Kind == "alloc":
				case o.Kind == "call" && (strings.HasPrefix(o.Name, newFile+"#") || strings.HasPrefix(o.Name, newDir+"#")):
				case o.Kind == "call" && (strings.HasPrefix(o.Name, mq(memfsPkg, "", "copyDir")+"#") || strings.HasPrefix(o.Name, mq(memfsPkg, "", "copyFile")+"#") || strings.HasPrefix(o.Name, mq(memfsPkg, "", "copyNode")+"#")):
				default:
					bad = "returns " + o.String() + " instead of a newly built node"
				}
			}
		}
		c.Check(bad == "", R4, "result of memfs."+cf.Name(), cf.Pos(), "every returned node is newly built",
			bad+" — source and copy share one node, so a write through either name (or through a child view holding the copy) changes the other")
	}
	c.Check(hasF && hasD, R4, "copyDir handles both node kinds", copyDir.Pos(), "recurses into directories and copies files", "copyDir does not copy one of the node kinds")
	c.Floor(R4, n, 3)
	_ = constant.MakeBool
}

// ruleSnapshotIn (R6): a []byte parameter of an API method never becomes
// File.data by reference.
func ruleSnapshotIn(c *Ctx, methods map[string]*ssa.Function, fileT *types.Named) {
	st, di := fieldIndex(fileT, "data")
	if di < 0 {
		c.Bad("R6", "memfs.File.data", 0, "anchor not found")
		return
	}
	fns := c.P.PkgFuncs(memfsPkg)
	// S: (function, param index) whose value is stored into File.data by reference
	type fp struct {
		f *ssa.Function
		i int
	}
	stores := map[fp]bool{}
	changed := true
	for iter := 0; changed && iter < 6; iter++ {
		changed = false
		for _, f := range fns {
			mark := func(v ssa.Value) {
				for _, o := range Origins(v, FlowOpts{Alias: true}) {
					if o.Kind == "param" {
						for i, p := range f.Params {
							if ssa.Value(p) == o.Val && !stores[fp{f, i}] {
								stores[fp{f, i}] = true
								changed = true
							}
						}
					}
				}
			}
			eachInstr(f, func(b *ssa.BasicBlock, i int, in ssa.Instruction) {
				switch x := in.(type) {
				case *ssa.Store:
					if fa, ok := x.Addr.(*ssa.FieldAddr); ok && fa.Field == di {
						if pt, ok := fa.X.Type().Underlying().(*types.Pointer); ok && pt.Elem().Underlying() == st {
							mark(x.Val)
						}
					}
				case *ssa.Call:
					if cf := x.Call.StaticCallee(); cf != nil && inModule(cf) {
						for ai, a := range x.Call.Args {
							if stores[fp{cf, ai}] {
								mark(a)
							}
						}
					}
				}
			})
		}
	}
	n := 0
	for _, mn := range sortedKeys(methods) {
		f := methods[mn]
		for i, p := range f.Params {
			sl, ok := p.Type().Underlying().(*types.Slice)
			if !ok {
				continue
			}
			if b, ok := sl.Elem().Underlying().(*types.Basic); !ok || b.Kind() != types.Byte {
				continue
			}
			n++
			c.Check(!stores[fp{f, i}], "R6", fmt.Sprintf("memfs.(Filespace).%s(%s)", mn, p.Name()), f.Pos(),
				"the caller's buffer is copied before it can become file content", "the caller's buffer becomes File.data by reference — mutating the buffer after the call changes the stored file")
		}
	}
	// the stream handle: Write(p) must not keep p
	if w := c.P.Func(memfsPkg, "FileHandler", "Write"); w != nil {
		n++
		c.Check(!stores[fp{w, 1}], "R6", "memfs.(FileHandler).Write(p)", w.Pos(), "written bytes are appended (copied) to the file content", "the written chunk becomes File.data by reference")
	}
	c.Floor("R6", n, 2)
}

// guardHelperEstablishesRemovable: every return of h whose error can be nil is
// reached only with "the looked-up node is not a *Dir" or "that directory has no
// children" established.
func guardHelperEstablishesRemovable(h *ssa.Function, dirT *types.Named) bool {
	ei := errResultIndex(h.Signature)
	if ei < 0 {
		return false
	}
	facts := factsFor(h)
	var dirAsserts []ssa.Value
	eachInstr(h, func(b *ssa.BasicBlock, i int, in ssa.Instruction) {
		if ta, ok := in.(*ssa.TypeAssert); ok && isPtrTo(ta.AssertedType, dirT) {
			dirAsserts = append(dirAsserts, append(resultN(ta, 0), ta)...)
		}
	})
	established := func(fs factSet) bool {
		for k := range fs {
			if ex, ok := k.v.(*ssa.Extract); ok && ex.Index == 1 {
				if ta, ok := ex.Tuple.(*ssa.TypeAssert); ok && isPtrTo(ta.AssertedType, dirT) && !k.pol {
					return true
				}
			}
			if bo, ok := k.v.(*ssa.BinOp); ok {
				var other ssa.Value
				if kv, ok := constInt(bo.Y); ok && kv == 0 {
					other = bo.X
				} else if kv, ok := constInt(bo.X); ok && kv == 0 {
					other = bo.Y
				} else {
					continue
				}
				empty := (bo.Op == token.EQL && k.pol) || (bo.Op == token.NEQ && !k.pol) || (bo.Op == token.GTR && !k.pol) || (bo.Op == token.LEQ && k.pol)
				if !empty {
					continue
				}
				for _, d := range dirAsserts {
					if derivesFrom(other, d, 0) {
						return true
					}
				}
			}
		}
		return false
	}
	n := 0
	for _, r := range returnsOf(h) {
		ev := r.Results[ei]
		if facts.HoldsOnAllEdges(r.Block(), func(fs factSet) bool { return knownNilIn(fs, ev, false) }) {
			continue
		}
		n++
		if !facts.HoldsOnAllEdges(r.Block(), established) {
			return false
		}
	}
	return n > 0
}

// emptyPredicate: h is `func (x *T) p() bool` all of whose returns compare the length of a
// slice/map field of the receiver with 0; trueMeansEmpty tells the polarity.
func emptyPredicate(h *ssa.Function) (isPred, trueMeansEmpty bool) {
	if h == nil || h.Blocks == nil || h.Signature.Recv() == nil || len(h.Params) != 1 || h.Signature.Results().Len() != 1 || !isBoolType(h.Signature.Results().At(0).Type()) {
		return false, false
	}
	first := true
	for _, r := range returnsOf(h) {
		bo, ok := resolve(r.Results[0]).(*ssa.BinOp)
		if !ok {
			return false, false
		}
		kv, okK := constInt(bo.Y)
		lc, okC := bo.X.(*ssa.Call)
		if !okK || kv != 0 || !okC {
			return false, false
		}
		if b, ok := lc.Call.Value.(*ssa.Builtin); !ok || b.Name() != "len" {
			return false, false
		}
		root, path := fieldPathOf(lc.Call.Args[0])
		if root != ssa.Value(h.Params[0]) || len(path) != 1 {
			return false, false
		}
		var pos bool
		switch bo.Op {
		case token.EQL, token.LEQ:
			pos = true
		case token.NEQ, token.GTR:
			pos = false
		default:
			return false, false
		}
		if !first && pos != trueMeansEmpty {
			return false, false
		}
		trueMeansEmpty, first = pos, false
	}
	return !first, trueMeansEmpty
}

// ruleSnapshotOut (C01.R5, C09.L9): what ReadFile/ReadDir hand out shares no backing store with
// File.data / Dir.nodes (a later write or remove would change - and race with - what the caller holds).
func ruleSnapshotOut(c *Ctx, rule string, methods map[string]*ssa.Function) int {
	n5 := 0
	for _, mn := range []string{"ReadFile", "ReadDir"} {
		f := methods[mn]
		if f == nil {
			c.Bad(rule, "memfs.(Filespace)."+mn, 0, "anchor not found")
			continue
		}
		n5++
		con := "result of memfs.(Filespace)." + mn
		bad := ""
		for _, r := range returnsOf(f) {
			if len(r.Results) == 0 {
				continue
			}
			v := r.Results[0]
			if _, ok := v.Type().Underlying().(*types.Slice); !ok {
				continue
			}
			os := Origins(v, FlowOpts{Alias: true, Interproc: 3})
			for _, o := range os {
				if o.Kind == "field" && strings.HasPrefix(o.Name, "memfs.") {
					bad = "the returned slice shares its backing store with " + o.Name
				}
				if o.Kind == "param" || o.Kind == "unknown" {
					bad = "cannot establish that the returned slice is a fresh copy (" + o.String() + ")"
				}
			}
		}
		c.Check(bad == "", rule, con, f.Pos(), "every returned slice originates from a fresh allocation",
			bad+" — a later Remove/write changes what the caller already holds (and races with it)")
	}
	return n5
}
