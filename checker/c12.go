package main

import (
	"fmt"
	"go/token"
	"go/types"
	"strings"

	"golang.org/x/tools/go/ssa"
)

const ctxPkg = "app/scope/contextscope"
const scopePkg = "app/scope"

func init() {
	register(&PropDef{ID: "C12", Title: "Scope failure signalling is safe from any number of goroutines", Rules: rulesC12,
		Explanation: "Decided (structural necessary conditions): R1 every close() of a channel in package contextscope executes inside sync.Once.Do of a Once that lives in the same object (so two concurrent Stop/Kill/AppendError cannot both close); R2 the error list of both context-scope implementers is read and written only under its mutex; R3 in AppendError every path that appended an error reaches Stop, no error is appended after Stop was called (observers of 'done' see the error), and Kill reaches AppendError with a non-nil error on every path; R4 the parent a child scope will sign off from is kept only on the edge where the parent's AddTasks returned nil (no construction of a scope.Scope with a parent elsewhere), and close() signs off only if that parent is non-nil; R5 IsDone is a non-blocking select. " +
			"R6 every result of scope.(*Scope).Err is nil or built in that call from the context scope's Errors() — never a remembered earlier result, which would hide errors appended afterwards. " +
			"Added in round 4: R1 also accepts a done signal carried by a cancel context: calling a CancelFunc whose every origin is a context.WithCancel/WithTimeout/WithDeadline result (idempotent and goroutine-safe by the documented contract); the closed flag of scope.Scope may be a plain bool or an atomic integer read through a private predicate (C11.R3). " +
			"Added in round 6: R7 a child scope that a function creates with scope.NewChild and closes itself is closed on every path from its creation that does not hand it out in a result (an early return in between leaves a registered child that never signs off). " +
			"NOT decided: that every appended error is reported under all interleavings beyond this lock/once discipline; timing.",
	})
}

// factsOnEdge: facts holding when control passes pred -> succ.
func factsOnEdge(fa *Facts, pred, succ *ssa.BasicBlock) factSet {
	out := factSet{}
	for k := range fa.At(pred) {
		out[k] = true
	}
	if len(pred.Instrs) > 0 {
		if iff, ok := pred.Instrs[len(pred.Instrs)-1].(*ssa.If); ok && len(pred.Succs) == 2 && pred.Succs[0] != pred.Succs[1] {
			if succ == pred.Succs[0] {
				addCond(out, iff.Cond, true)
			} else {
				addCond(out, iff.Cond, false)
			}
		}
	}
	return out
}

func knownNilIn(fs factSet, v ssa.Value, wantNil bool) bool {
	rv := resolve(v)
	if !wantNil && isNonNilErrValue(rv, 0) {
		return true
	}
	if wantNil && rv != nil && isErrorType(rv.Type()) && nilImpliedByAggregate(fs, rv) {
		return true
	}
	for k := range fs {
		bo, ok := k.v.(*ssa.BinOp)
		if !ok || (bo.Op != token.EQL && bo.Op != token.NEQ) {
			continue
		}
		var other ssa.Value
		if isNilConst(bo.Y) {
			other = bo.X
		} else if isNilConst(bo.X) {
			other = bo.Y
		} else {
			continue
		}
		if !sameValue(resolve(other), rv) {
			continue
		}
		if ((bo.Op == token.EQL) == k.pol) == wantNil {
			return true
		}
	}
	return false
}

func rulesC12(c *Ctx) {
	le := NewLockEngine(c.P)
	fns := c.P.PkgFuncs(ctxPkg)
	iface := c.P.Iface("app", "ContextScope")
	if len(fns) == 0 || iface == nil {
		c.Bad("anchor", "contextscope package / app.ContextScope", 0, "anchor not found; cannot certify")
		return
	}
	var impls []*types.Named
	for _, n := range c.P.Implementers(iface) {
		if n.Obj().Pkg().Path() == modPath+"/"+ctxPkg {
			impls = append(impls, n)
		}
	}
	if len(impls) < 2 {
		c.Bad("anchor", "context scope implementers", 0, fmt.Sprintf("found %d implementers of app.ContextScope in contextscope (2 on the reference tree)", len(impls)))
	}

	// ---- R1 close-once --------------------------------------------------------
	n1 := 0
	for _, f := range fns {
		eachInstr(f, func(b *ssa.BasicBlock, _ int, in ssa.Instruction) {
			call, ok := in.(*ssa.Call)
			if !ok {
				return
			}
			// a done signal carried by a cancel context: calling the CancelFunc that context.WithCancel
			// (WithTimeout, WithDeadline) returned is idempotent and goroutine-safe by its documented contract
			if nt, isN := types.Unalias(call.Call.Value.Type()).(*types.Named); isN && call.Call.StaticCallee() == nil && !call.Call.IsInvoke() &&
				nt.Obj().Pkg() != nil && nt.Obj().Pkg().Path() == "context" && nt.Obj().Name() == "CancelFunc" {
				n1++
				fromCtor := true
				os := Origins(call.Call.Value, FlowOpts{Alias: true})
				for _, o := range os {
					if o.Kind == "field" {
						// every store into that field comes from a context constructor
						for _, g := range fns {
							eachInstr(g, func(_ *ssa.BasicBlock, _ int, in2 ssa.Instruction) {
								st, isSt := in2.(*ssa.Store)
								if !isSt {
									return
								}
								fa, isFA := st.Addr.(*ssa.FieldAddr)
								if !isFA || fieldName(fa) != o.Name {
									return
								}
								ex, isEx := resolve(st.Val).(*ssa.Extract)
								if !isEx {
									fromCtor = false
									return
								}
								cc, isC := ex.Tuple.(*ssa.Call)
								if !isC || cc.Call.StaticCallee() == nil || cc.Call.StaticCallee().Pkg == nil || cc.Call.StaticCallee().Pkg.Pkg.Path() != "context" {
									fromCtor = false
								}
							})
						}
					} else if !(o.Kind == "call" && strings.HasPrefix(o.Name, "context.With")) {
						fromCtor = false
					}
				}
				c.Check(fromCtor && len(os) > 0, "R1", "cancel() of the done context in "+fname(f), call.Pos(), "the CancelFunc of a context.WithCancel: idempotent and goroutine-safe by contract",
					"the cancel function that signals done does not (only) come from a context constructor; cannot certify that signalling twice is safe")
				return
			}
			bi, ok := call.Call.Value.(*ssa.Builtin)
			if !ok || bi.Name() != "close" {
				return
			}
			n1++
			con := "close(" + chanDesc(call.Call.Args[0]) + ") in " + fname(f)
			okOnce, why := insideOnceDo(f, call.Call.Args[0])
			if !okOnce && closeUnderFlagLock(le, f, call) {
				okOnce = true
			}
			c.Check(okOnce, "R1", con, call.Pos(), "executes inside sync.Once.Do of the object's own Once (or under a mutex, on the not-yet-closed edge of a flag set under the same hold)", why+" — two goroutines signalling at once both close the channel: panic 'close of closed channel'")
		})
	}
	c.Floor("R1", n1, 2)

	// ---- R2 error list guarded ---------------------------------------------------
	n2 := 0
	for _, T := range impls {
		if _, fi := fieldIndex(T, "errors"); fi < 0 {
			c.Bad("R2", T.Obj().Name()+".errors", 0, "field not found")
			continue
		}
		n2 += guardedAccessRule(c, le, "R2", fns, T, "errors", "errorsMU", nil)
	}
	c.Floor("R2", n2, 8)

	// ---- R3 failure implies done; recorded before done ------------------------------
	n3 := 0
	for _, T := range impls {
		ms := c.P.MethodsOf(T, iface)
		ae, kill := ms["AppendError"], ms["Kill"]
		tn := "contextscope.(" + T.Obj().Name() + ")"
		if ae == nil || kill == nil {
			c.Bad("R3", tn+".AppendError/Kill", 0, "anchor not found")
			continue
		}
		n3++
		con := tn + ".AppendError signals done after recording"
		isErrStore := func(in ssa.Instruction) bool {
			if st, ok := in.(*ssa.Store); ok {
				if fa, ok := st.Addr.(*ssa.FieldAddr); ok && strings.HasSuffix(fieldName(fa), "."+T.Obj().Name()+".errors") {
					return true
				}
			}
			return false
		}
		containsErrStore := func(g *ssa.Function) (found bool, blocks []*ssa.BasicBlock) {
			if g == nil {
				return
			}
			eachInstr(g, func(b *ssa.BasicBlock, _ int, in ssa.Instruction) {
				if isErrStore(in) {
					found = true
					blocks = append(blocks, b)
				}
			})
			return
		}
		// append sites in AppendError: direct stores, or calls of a helper / function literal that stores
		var sites []ssa.Instruction
		indicators := map[ssa.Value]bool{} // SSA values that change exactly where an error is recorded
		indAllocs := map[ssa.Value]bool{}  // variables (allocs / captured) written where an error is recorded
		markBlock := func(g *ssa.Function, b *ssa.BasicBlock) {
			for _, in := range b.Instrs {
				switch x := in.(type) {
				case *ssa.BinOp:
					indicators[x] = true
				case *ssa.Store:
					if !isErrStore(x) {
						indAllocs[x.Addr] = true
						if fv, ok := x.Addr.(*ssa.FreeVar); ok {
							if bnd := bindingOf(fv); bnd != nil {
								indAllocs[bnd] = true
							}
						}
					}
				}
			}
			// phis that receive a constant from this block (flag := true)
			for _, sb := range b.Succs {
				for _, in := range sb.Instrs {
					p, ok := in.(*ssa.Phi)
					if !ok {
						break
					}
					for i, pred := range sb.Preds {
						if pred == b {
							if _, isC := p.Edges[i].(*ssa.Const); isC {
								indicators[p] = true
							}
							if indicators[p.Edges[i]] {
								indicators[p] = true
							}
						}
					}
				}
			}
		}
		if ok, blocks := containsErrStore(ae); ok {
			for _, b := range blocks {
				for _, in := range b.Instrs {
					if isErrStore(in) {
						sites = append(sites, in)
					}
				}
				markBlock(ae, b)
			}
		}
		for _, ci := range Calls(ae) {
			var g *ssa.Function
			if ci.Static != nil && ci.Static.Pkg == ae.Pkg && ci.Static != ms["Stop"] {
				g = ci.Static
			}
			if mc, ok := ci.Common.Value.(*ssa.MakeClosure); ok {
				g, _ = mc.Fn.(*ssa.Function)
			}
			if ok, blocks := containsErrStore(g); ok && ci.Kind == "call" {
				sites = append(sites, ci.Instr)
				if v := ci.Value(); v != nil {
					indicators[v] = true // the helper reports how many it stored
				}
				for _, b := range blocks {
					markBlock(g, b)
				}
			}
		}
		dependsOnIndicator := func(v ssa.Value) bool {
			seen := map[ssa.Value]bool{}
			var rec func(v ssa.Value, d int) bool
			rec = func(v ssa.Value, d int) bool {
				if v == nil || seen[v] || d > 10 {
					return false
				}
				seen[v] = true
				if indicators[v] {
					return true
				}
				if u, ok := v.(*ssa.UnOp); ok && u.Op == token.MUL && indAllocs[u.X] {
					return true
				}
				in, ok := v.(ssa.Instruction)
				if !ok {
					return false
				}
				for _, op := range in.Operands(nil) {
					if op != nil && *op != nil && rec(*op, d+1) {
						return true
					}
				}
				return false
			}
			return rec(v, 0)
		}
		isStop := func(in ssa.Instruction) bool {
			ci := callInfo(in, nil, 0)
			return ci != nil && ci.Static != nil && ci.Static == ms["Stop"]
		}
		var stops []ssa.Instruction
		eachInstr(ae, func(_ *ssa.BasicBlock, _ int, in ssa.Instruction) {
			if isStop(in) {
				stops = append(stops, in)
			}
		})
		reachesStop := func(b *ssa.BasicBlock) bool {
			for _, s := range stops {
				if reachesBlock(b, s.Block()) {
					return true
				}
			}
			return false
		}
		if len(sites) == 0 || len(stops) == 0 {
			c.Bad("R3", con, ae.Pos(), "AppendError does not both record errors and call Stop; cannot certify")
		} else {
			ok := true
			why := ""
			feasible := func(st int, pred, succ *ssa.BasicBlock) bool {
				// after an error was recorded, a test of the "something was recorded" indicator cannot take the side that avoids Stop
				if len(pred.Instrs) == 0 || len(pred.Succs) != 2 {
					return true
				}
				iff, isIf := pred.Instrs[len(pred.Instrs)-1].(*ssa.If)
				if !isIf || !dependsOnIndicator(iff.Cond) {
					return true
				}
				other := pred.Succs[0]
				if other == succ {
					other = pred.Succs[1]
				}
				if !reachesStop(succ) && reachesStop(other) {
					return false
				}
				return true
			}
			for _, ap := range sites {
				if bad := MustPassF(ae, ap, isStop, feasible); len(bad) > 0 {
					ok, why = false, fmt.Sprintf("the return at %s is reachable after an error was recorded without calling Stop", c.pos(bad[0].Instr.Pos()))
				}
			}
			for _, s := range stops {
				for _, ap := range sites {
					if reachableFrom(s, ap) {
						ok, why = false, "an error is recorded after Stop was called: an observer woken by 'done' reads an empty error list"
					}
				}
			}
			c.Check(ok, "R3", con, ae.Pos(), "every recording path reaches Stop, and nothing is recorded after Stop", why)
		}
	}
	n3 += ruleKillRecords(c, "R3")
	c.Floor("R3", n3, 4)

	// ---- R4 sign-off only after successful sign-on --------------------------------------
	ruleChildSignOn(c)

	// ---- R5 IsDone never blocks -----------------------------------------------------------
	n5 := 0
	for _, T := range impls {
		f := c.P.MethodsOf(T, iface)["IsDone"]
		if f == nil {
			continue
		}
		n5++
		sel, blocking := 0, 0
		eachInstr(f, func(_ *ssa.BasicBlock, _ int, in ssa.Instruction) {
			switch x := in.(type) {
			case *ssa.Select:
				sel++
				if x.Blocking {
					blocking++
				}
			case *ssa.UnOp:
				if x.Op == token.ARROW {
					blocking++
				}
			}
		})
		c.Check(sel > 0 && blocking == 0, "R5", "contextscope.("+T.Obj().Name()+").IsDone", f.Pos(), "select with default", "IsDone can block on the done channel")
	}
	c.Floor("R5", n5, 2)

	// ---- R6 the scope's error accessor reports the current error list ---------------------------------
	// every result of scope.(*Scope).Err is nil or built, in that call, from the context scope's Errors():
	// a remembered earlier result hides errors appended afterwards ("every appended error is ... reported").
	if errFn := c.P.Func("app/scope", "Scope", "Err"); errFn == nil {
		c.Bad("R6", "scope.(*Scope).Err", 0, "anchor not found")
	} else {
		var errsCall *CallInfo
		for _, ci := range Calls(errFn) {
			if ci.Method != nil && ci.Method.Name() == "Errors" {
				errsCall = ci
			}
		}
		bad := ""
		var pos token.Pos = errFn.Pos()
		if errsCall == nil {
			bad = "Err no longer reads the context scope's Errors()"
		} else {
			for _, r := range returnsOf(errFn) {
				v := resolve(r.Results[0])
				if isNilConst(v) {
					continue
				}
				if !dominates(errsCall.Instr, r) {
					bad, pos = "a non-nil result is returned without Errors() having been read in this call", r.Pos()
				}
				for _, o := range Origins(v, FlowOpts{}) {
					if o.Kind == "field" || o.Kind == "global" {
						bad, pos = "the result comes from remembered state ("+o.String()+")", r.Pos()
					}
				}
			}
		}
		c.Check(bad == "", "R6", "scope.(*Scope).Err reports the current error list", pos, "nil, or built from Errors() of this call",
			bad+" — errors appended after the remembered result was taken are stored but never reported by Err, Wait or Close")
	}
	ruleLocalChildrenClosed(c, "R7")
}

// ruleLocalChildrenClosed (C12.R7): a child scope that a function creates and closes itself is closed
// on every path from its creation (an early return in between leaves a registered child that never
// signs off: the parent's Wait/Close blocks forever and reports nothing).
func ruleLocalChildrenClosed(c *Ctx, rule string) {
	n := 0
	for _, f := range c.P.AllModuleFuncs() {
		for _, ci := range Calls(f) {
			call, isCall := ci.Instr.(*ssa.Call)
			if !isCall || ci.Static == nil || qualName(ci.Static) != mq("app/scope", "", "NewChild") {
				continue
			}
			child := call.Value()
			if child == nil {
				continue
			}
			isClose := func(in ssa.Instruction) bool {
				x := callInfo(in, nil, 0)
				if x == nil || x.Kind == "go" {
					return false
				}
				nm := ""
				switch {
				case x.Method != nil:
					nm = x.Method.Name()
				case x.Static != nil:
					nm = x.Static.Name()
				}
				if nm != "Close" {
					return false
				}
				r := resolve(x.Recv())
				if mi, ok := r.(*ssa.MakeInterface); ok {
					r = resolve(mi.X)
				}
				return r == child
			}
			closes := false
			eachInstr(f, func(_ *ssa.BasicBlock, _ int, in ssa.Instruction) {
				if isClose(in) {
					closes = true
				}
			})
			if !closes {
				continue // handed out or closed by somebody else
			}
			n++
			var bad []PathExit
			for _, e := range MustPass(f, call, isClose) {
				// a return that hands the child out (inside what it returns) passes the duty on
				handed := false
				if r, isRet := e.Instr.(*ssa.Return); isRet {
					seenH := map[ssa.Value]bool{}
					var holds func(v ssa.Value, d int) bool
					holds = func(v ssa.Value, d int) bool {
						if v == nil || seenH[v] || d > 12 {
							return false
						}
						seenH[v] = true
						if v == child {
							return true
						}
						if u, ok := v.(*ssa.UnOp); ok && u.Op == token.MUL {
							if a, ok := u.X.(*ssa.Alloc); ok {
								for _, rf := range *a.Referrers() {
									if st, ok := rf.(*ssa.Store); ok && st.Addr == ssa.Value(a) && holds(st.Val, d+1) {
										return true
									}
								}
								return false
							}
						}
						if in, ok := v.(ssa.Instruction); ok {
							for _, op := range in.Operands(nil) {
								if op != nil && *op != nil && holds(*op, d+1) {
									return true
								}
							}
						}
						return false
					}
					for _, rv := range r.Results {
						if holds(rv, 0) {
							handed = true
						}
					}
				}
				if !handed {
					bad = append(bad, e)
				}
			}
			pos := call.Pos()
			why := ""
			if len(bad) > 0 {
				why = "the return at " + c.pos(bad[0].Instr.Pos()) + " is reachable without closing the child scope"
			}
			c.Check(len(bad) == 0, rule, "child scope created in "+fname(f)+" is closed on every path", pos, "Close() (or defer Close()) on every path after NewChild",
				why+" — the child stays registered with its parent and never signs off: the parent's Wait/Close never returns and the failure is not reported")
		}
	}
	c.Floor(rule, n, 1)
}

func chanDesc(v ssa.Value) string {
	if n, _ := fieldLoadName(v); n != "" {
		return n
	}
	return v.Name()
}

// insideOnceDo: f is a function literal whose only use is as the argument of
// (*sync.Once).Do, and the Once is a field of the same object whose channel
// is closed.
func insideOnceDo(f *ssa.Function, ch ssa.Value) (bool, string) {
	if f.Parent() == nil {
		if methodOnlyRunByOwnOnce(f) {
			return true, ""
		}
		return false, "the close is not inside a function literal handed to sync.Once.Do"
	}
	// find the MakeClosure of f in its parent
	var mc *ssa.MakeClosure
	eachInstr(f.Parent(), func(_ *ssa.BasicBlock, _ int, in ssa.Instruction) {
		if m, ok := in.(*ssa.MakeClosure); ok && m.Fn == ssa.Value(f) {
			mc = m
		}
	})
	if mc == nil {
		return false, "cannot find where the function literal is created"
	}
	refs := *mc.Referrers()
	uses := 0
	var once ssa.Value
	for _, r := range refs {
		if _, ok := r.(*ssa.DebugRef); ok {
			continue
		}
		uses++
		ci := callInfo(r, nil, 0)
		if ci == nil || ci.Static == nil || qualName(ci.Static) != "sync.(Once).Do" || ci.Kind != "call" {
			return false, "the function literal containing the close is used other than as the argument of sync.Once.Do"
		}
		once = ci.Recv()
	}
	if uses == 0 || once == nil {
		return false, "the function literal containing the close is never handed to sync.Once.Do"
	}
	// same object: once is &X.f, channel is *(&Y.g) with Y a free variable bound to X
	ofa, ok := once.(*ssa.FieldAddr)
	if !ok {
		return false, "the Once is not a field of the object"
	}
	u, ok := ch.(*ssa.UnOp)
	if !ok {
		return true, ""
	}
	cfa, ok := u.X.(*ssa.FieldAddr)
	if !ok {
		return true, ""
	}
	// resolve the closure's free variable to the binding
	base := cfa.X
	if l, ok := base.(*ssa.UnOp); ok && l.Op == token.MUL {
		base = l.X
	}
	if fv, ok := base.(*ssa.FreeVar); ok {
		for i, v := range f.FreeVars {
			if v == fv && i < len(mc.Bindings) {
				b := mc.Bindings[i]
				// binding is either the object pointer or the address of the variable holding it
				if keyP(b) == keyP(ofa.X) {
					return true, ""
				}
				if a, ok := b.(*ssa.Alloc); ok {
					if l, ok := ofa.X.(*ssa.UnOp); ok && l.X == ssa.Value(a) {
						return true, ""
					}
					// stores into the alloc
					for _, r := range *a.Referrers() {
						if st, ok := r.(*ssa.Store); ok && st.Addr == ssa.Value(a) && keyP(st.Val) == keyP(ofa.X) {
							return true, ""
						}
					}
				}
				return false, "the Once belongs to a different object than the channel"
			}
		}
	}
	return true, ""
}

// counterFeasible: after an append has happened, the edge on which the append
// counter compares equal to zero is infeasible.  The counter is recognised
// structurally (isAppendCounter): a phi over the constant 0 and +1 increments,
// every append sharing its block with an increment.
func counterFeasible(f *ssa.Function, appends []ssa.Instruction) func(int, *ssa.BasicBlock, *ssa.BasicBlock) bool {
	return func(state int, pred, succ *ssa.BasicBlock) bool {
		if len(pred.Instrs) == 0 || len(pred.Succs) != 2 {
			return true
		}
		iff, ok := pred.Instrs[len(pred.Instrs)-1].(*ssa.If)
		if !ok {
			return true
		}
		bo, ok := iff.Cond.(*ssa.BinOp)
		if !ok {
			return true
		}
		kv, ok := constInt(bo.Y)
		if !ok || kv != 0 || !isAppendCounter(bo.X, appends) {
			return true
		}
		// which edge means "counter == 0"?
		var zeroOnTrue bool
		switch bo.Op {
		case token.EQL, token.LEQ:
			zeroOnTrue = true
		case token.NEQ, token.GTR:
			zeroOnTrue = false
		default:
			return true
		}
		isTrueEdge := succ == pred.Succs[0]
		if isTrueEdge == zeroOnTrue {
			return false
		}
		return true
	}
}

// isAppendCounter: v (through phis) is 0 plus one increment per append, each
// append's block containing an increment of the counter.
func isAppendCounter(v ssa.Value, appends []ssa.Instruction) bool {
	seen := map[ssa.Value]bool{}
	var incs []*ssa.BinOp
	okShape := true
	var rec func(v ssa.Value)
	rec = func(v ssa.Value) {
		if seen[v] {
			return
		}
		seen[v] = true
		switch x := v.(type) {
		case *ssa.Phi:
			for _, e := range x.Edges {
				rec(e)
			}
		case *ssa.Const:
			if k, ok := constInt(x); !ok || k != 0 {
				okShape = false
			}
		case *ssa.BinOp:
			if k, ok := constInt(x.Y); ok && k == 1 && x.Op == token.ADD {
				incs = append(incs, x)
				rec(x.X)
			} else {
				okShape = false
			}
		default:
			okShape = false
		}
	}
	rec(v)
	if !okShape || len(incs) == 0 {
		return false
	}
	for _, ap := range appends {
		has := false
		for _, inc := range incs {
			if inc.Block() == ap.Block() {
				has = true
			}
		}
		if !has {
			return false
		}
	}
	return true
}

// ruleChildSignOn (R4).
func ruleChildSignOn(c *Ctx) {
	scopeT := c.P.Named(scopePkg, "Scope")
	if scopeT == nil {
		c.Bad("R4", "scope.Scope", 0, "anchor not found")
		return
	}
	pname := ""
	if sst, ok := scopeT.Underlying().(*types.Struct); ok {
		for i := 0; i < sst.NumFields(); i++ {
			if f := sst.Field(i); !f.Embedded() && strings.HasSuffix(f.Type().String(), "/app.Scope") {
				pname = f.Name()
			}
		}
	}
	st, pi := fieldIndex(scopeT, pname)
	if pi < 0 {
		c.Bad("R4", "scope.Scope.parent", 0, "field not found: the sign-off mechanism changed; cannot certify")
		return
	}
	n := 0
	for _, f := range c.P.AllModuleFuncs() {
		facts := (*Facts)(nil)
		eachInstr(f, func(b *ssa.BasicBlock, _ int, in ssa.Instruction) {
			stI, ok := in.(*ssa.Store)
			if !ok {
				return
			}
			fa, ok := stI.Addr.(*ssa.FieldAddr)
			if !ok || fa.Field != pi {
				return
			}
			pt, ok := fa.X.Type().Underlying().(*types.Pointer)
			if !ok || pt.Elem().Underlying() != st {
				return
			}
			if isNilConst(stI.Val) {
				return // clearing the parent (close)
			}
			n++
			if facts == nil {
				facts = factsFor(f)
			}
			con := "the parent a scope signs off from is set in " + fname(f)
			// every non-nil way the value can arise is on an edge where AddTasks(...) returned nil
			addTasks := []*ssa.Call{}
			for _, ci := range Calls(f) {
				if ci.Method != nil && ci.Method.Name() == "AddTasks" || ci.Static != nil && ci.Static.Name() == "AddTasks" {
					if call, ok := ci.Instr.(*ssa.Call); ok {
						addTasks = append(addTasks, call)
					}
				}
			}
			// the registration may live in a private helper that returns the parent to sign off from
			// (or nil): every non-nil result of the helper must be on its own AddTasks-returned-nil edge
			if call, isCall := resolve(stI.Val).(*ssa.Call); isCall && len(addTasks) == 0 {
				if h := call.Call.StaticCallee(); h != nil && h.Pkg == f.Pkg && h.Blocks != nil && helperReturnsRegisteredParent(h) {
					c.OK("R4", con, stI.Pos(), "the parent comes from "+fname(h)+", which hands it out only where AddTasks returned nil")
					return
				}
			}
			if len(addTasks) == 0 {
				c.Bad("R4", con, stI.Pos(), "the scope keeps a parent to sign off from, but never registered a task on it — closing the child drives the parent's task counter negative")
				return
			}
			okAll := true
			var check func(v ssa.Value, fs factSet, depth int)
			check = func(v ssa.Value, fs factSet, depth int) {
				if depth > 6 {
					okAll = false
					return
				}
				if isNilConst(v) {
					return
				}
				if p, ok := v.(*ssa.Phi); ok {
					for i, e := range p.Edges {
						check(e, factsOnEdge(facts, p.Block().Preds[i], p.Block()), depth+1)
					}
					return
				}
				if mi, ok := v.(*ssa.MakeInterface); ok {
					check(mi.X, fs, depth+1)
					return
				}
				good := false
				for _, at := range addTasks {
					if knownNilIn(fs, at, true) {
						good = true
					}
				}
				if !good {
					okAll = false
				}
			}
			check(stI.Val, facts.At(b), 0)
			c.Check(okAll, "R4", con, stI.Pos(), "the parent is kept only where AddTasks returned nil", "the parent is kept on a path where AddTasks did not (provably) succeed — closing a child of a finished scope calls DoneTask without a matching Add: panic 'sync: negative WaitGroup counter'")
		})
	}
	c.Floor("R4", n, 1)
	// close(): DoneTask on the parent only when it is non-nil
	var cl *ssa.Function
	if sro := discoverScopeRoles(c); sro != nil {
		cl = sro.closeH
	}
	if cl == nil {
		c.Bad("R4", "scope.(*Scope).close signs off", 0, "anchor not found")
		return
	}
	k := 0
	// the sign-off may live in a private helper of close()
	for _, g := range append([]*ssa.Function{cl}, reachableSamePkg(cl, 2)...) {
		if g != cl && (g.Signature.Recv() == nil || (g.Object() != nil && g.Object().Exported())) {
			continue
		}
		facts := factsFor(g)
		for _, ci := range Calls(g) {
			if ci.Method != nil && ci.Method.Name() == "DoneTask" {
				k++
				recv := ci.Recv()
				c.Check(facts.KnownNil(ci.Block, recv, false), "R4", "scope.(*Scope).close signs off", ci.Pos(), "DoneTask only on a non-nil registered parent", "DoneTask is called without the parent being known non-nil")
			}
		}
	}
	if k == 0 {
		c.Bad("R4", "scope.(*Scope).close signs off", cl.Pos(), "close no longer signs off from the parent: the parent's Wait never returns")
	}
}

// ruleKillRecords: Kill of every context-scope implementer reaches
// AppendError with a non-nil error on every path.
func ruleKillRecords(c *Ctx, rule string) int {
	iface := c.P.Iface("app", "ContextScope")
	n3 := 0
	for _, T := range c.P.Implementers(iface) {
		if T.Obj().Pkg().Path() != modPath+"/"+ctxPkg {
			continue
		}
		ms := c.P.MethodsOf(T, iface)
		ae, kill := ms["AppendError"], ms["Kill"]
		tn := "contextscope.(" + T.Obj().Name() + ")"
		if ae == nil || kill == nil {
			c.Bad(rule, tn+".Kill", 0, "anchor not found")
			continue
		}
		// Kill
		n3++
		aeCalls := CallsTo(kill, qualName(ae))
		okk := len(aeCalls) > 0
		why := "Kill does not call AppendError"
		if okk {
			bad := MustPass(kill, nil, func(in ssa.Instruction) bool {
				ci := callInfo(in, nil, 0)
				return ci != nil && ci.Static == ae
			})
			if len(bad) > 0 {
				okk, why = false, "Kill can return without recording the cancellation error"
			}
			for _, ci := range aeCalls {
				// variadic argument: slice of a fresh array with >= 1 non-nil element
				a := ci.Arg(0)
				nonNil := false
				if sl, ok := a.(*ssa.Slice); ok {
					for _, e := range arrayElems(sl.X) {
						if !isNilConst(e) {
							nonNil = true
						}
					}
				}
				if !nonNil {
					okk, why = false, "Kill passes no non-nil error to AppendError"
				}
			}
		}
		c.Check(okk, rule, tn+".Kill records an error on every path", kill.Pos(), "AppendError(non-nil) on every path", why+" — a killed scope ends without an error (commit instead of rollback)")
	}
	return n3
}

// closeUnderFlagLock: the alternative close-once idiom
//
//	mu.Lock(); if !closed { closed = true; close(ch) }; mu.Unlock()
//
// accepted when the close executes under a write hold of a mutex of the object
// that owns the channel, on the edge where a bool field of that object - loaded
// under the same hold - is known false, and that field is set to true in the same
// function under the same hold.
func closeUnderFlagLock(le *LockEngine, f *ssa.Function, call *ssa.Call) bool {
	u, ok := call.Call.Args[0].(*ssa.UnOp)
	if !ok {
		return false
	}
	cfa, ok := u.X.(*ssa.FieldAddr)
	if !ok {
		return false
	}
	base := keyP(cfa.X)
	la := le.Analyze(f)
	heldW := func(in ssa.Instruction) map[string]bool {
		out := map[string]bool{}
		for k, m := range la.HeldBefore(in) {
			if m == 'W' && strings.HasPrefix(k, base+".") {
				out[k] = true
			}
		}
		return out
	}
	hc := heldW(call)
	if len(hc) == 0 {
		return false
	}
	facts := factsFor(f)
	okFlag := false
	eachInstr(f, func(b *ssa.BasicBlock, _ int, in ssa.Instruction) {
		ld, isLd := in.(*ssa.UnOp)
		if !isLd || ld.Op != token.MUL {
			return
		}
		fa, isFA := ld.X.(*ssa.FieldAddr)
		if !isFA || keyP(fa.X) != base || !types.Identical(ld.Type().Underlying(), types.Typ[types.Bool]) {
			return
		}
		if !facts.KnownBool(call.Block(), ld, false) {
			return
		}
		same := false
		for k := range heldW(ld) {
			if hc[k] {
				same = true
			}
		}
		if !same {
			return
		}
		// the flag is set under the same hold in this function
		eachInstr(f, func(_ *ssa.BasicBlock, _ int, in2 ssa.Instruction) {
			st, isSt := in2.(*ssa.Store)
			if !isSt {
				return
			}
			fa2, isFA2 := st.Addr.(*ssa.FieldAddr)
			if !isFA2 || fieldName(fa2) != fieldName(fa) || keyP(fa2.X) != base {
				return
			}
			if v, isC := constBool(st.Val); isC && v {
				for k := range heldW(st) {
					if hc[k] && (dominates(ld, st) && (dominates(st, call) || dominates(call, st))) {
						okFlag = true
					}
				}
			}
		})
	})
	return okFlag
}

// methodOnlyRunByOwnOnce: f is a method that is never called directly; its only
// uses are method values x.f handed to (&x.once).Do of the same object x.
func methodOnlyRunByOwnOnce(f *ssa.Function) bool {
	if f.Signature.Recv() == nil || f.Pkg == nil || f.Object() == nil {
		return false
	}
	uses := 0
	ok := true
	var all []*ssa.Function
	seen := map[*ssa.Function]bool{}
	var collect func(g *ssa.Function)
	collect = func(g *ssa.Function) {
		if g == nil || seen[g] {
			return
		}
		seen[g] = true
		all = append(all, g)
		for _, a := range g.AnonFuncs {
			collect(a)
		}
	}
	for _, m := range f.Pkg.Members {
		if g, isF := m.(*ssa.Function); isF {
			collect(g)
		}
		if t, isT := m.(*ssa.Type); isT {
			for _, tt := range []types.Type{t.Type(), types.NewPointer(t.Type())} {
				ms := f.Prog.MethodSets.MethodSet(tt)
				for i := 0; i < ms.Len(); i++ {
					collect(f.Prog.MethodValue(ms.At(i)))
				}
			}
		}
	}
	for _, g := range all {
		if g.Blocks == nil {
			continue
		}
		for _, ci := range Calls(g) {
			if ci.Static == f && g.Synthetic == "" {
				ok = false // called directly somewhere
			}
		}
		eachInstr(g, func(_ *ssa.BasicBlock, _ int, in ssa.Instruction) {
			mc, isMC := in.(*ssa.MakeClosure)
			if !isMC {
				return
			}
			w, isF := mc.Fn.(*ssa.Function)
			if !isF || w.Object() != f.Object() || len(mc.Bindings) != 1 {
				return
			}
			for _, r := range *mc.Referrers() {
				if _, isDbg := r.(*ssa.DebugRef); isDbg {
					continue
				}
				uses++
				ci := callInfo(r, nil, 0)
				if ci == nil || ci.Static == nil || qualName(ci.Static) != "sync.(Once).Do" || ci.Kind != "call" {
					ok = false
					continue
				}
				ofa, isFA := ci.Recv().(*ssa.FieldAddr)
				if !isFA || keyP(ofa.X) != keyP(mc.Bindings[0]) {
					ok = false
				}
			}
		})
	}
	return ok && uses > 0
}

// helperReturnsRegisteredParent: every return of h is nil or is made where an
// AddTasks call of h is known to have returned nil.
func helperReturnsRegisteredParent(h *ssa.Function) bool {
	facts := factsFor(h)
	var addTasks []*ssa.Call
	for _, ci := range Calls(h) {
		if ci.Method != nil && ci.Method.Name() == "AddTasks" {
			if call, ok := ci.Instr.(*ssa.Call); ok {
				addTasks = append(addTasks, call)
			}
		}
	}
	if len(addTasks) == 0 {
		return false
	}
	okAll := true
	var check func(v ssa.Value, fs factSet, depth int)
	check = func(v ssa.Value, fs factSet, depth int) {
		if depth > 6 {
			okAll = false
			return
		}
		if isNilConst(v) {
			return
		}
		if p, ok := v.(*ssa.Phi); ok {
			for i, e := range p.Edges {
				check(e, factsOnEdge(facts, p.Block().Preds[i], p.Block()), depth+1)
			}
			return
		}
		if mi, ok := v.(*ssa.MakeInterface); ok {
			check(mi.X, fs, depth+1)
			return
		}
		for _, at := range addTasks {
			if knownNilIn(fs, at, true) {
				return
			}
		}
		okAll = false
	}
	n := 0
	for _, r := range returnsOf(h) {
		if len(r.Results) == 0 {
			return false
		}
		n++
		b := r.Block()
		v := resolve(r.Results[0])
		if _, isPhi := v.(*ssa.Phi); isPhi {
			check(v, facts.At(b), 0)
		} else if !isNilConst(v) {
			if !facts.HoldsOnAllEdges(b, func(fs factSet) bool {
				for _, at := range addTasks {
					if knownNilIn(fs, at, true) {
						return true
					}
				}
				return false
			}) {
				okAll = false
			}
		}
	}
	return okAll && n > 0
}
