package main

// eng_lock.go — E-LOCK: must-hold lockset analysis on SSA, with computed
// summaries for same-module wrappers, guarded-by checks and a lock-order graph.

import (
	"fmt"
	"go/token"
	"go/types"
	"sort"
	"strings"

	"golang.org/x/tools/go/ssa"
)

type LockOp struct {
	Key     string // canonical key of the mutex address
	Mode    byte   // 'R' or 'W'
	Acquire bool
	At      ssa.Instruction
	Class   string // lock class: "pkg.Type.field" of the mutex
	Direct  bool   // a sync primitive called right here (not through a summary)
}

type lockset map[string]byte

func (l lockset) clone() lockset {
	o := lockset{}
	for k, v := range l {
		o[k] = v
	}
	return o
}

func meet(a, b lockset) lockset {
	o := lockset{}
	for k, v := range a {
		if w, ok := b[k]; ok {
			if v == 'R' || w == 'R' {
				o[k] = 'R'
			} else {
				o[k] = 'W'
			}
		}
	}
	return o
}

func sameLockset(a, b lockset) bool {
	if len(a) != len(b) {
		return false
	}
	for k, v := range a {
		if b[k] != v {
			return false
		}
	}
	return true
}

// keyP: canonical key with pointer-identity fallback for non-canonical roots.
func keyP(v ssa.Value) string {
	if k := valueKey(v, 0); k != "" {
		return k
	}
	switch x := v.(type) {
	case *ssa.FieldAddr:
		return fmt.Sprintf("%s.&f%d", keyP(x.X), x.Field)
	case *ssa.UnOp:
		if x.Op == token.MUL {
			return "*" + keyP(x.X)
		}
	case *ssa.TypeAssert:
		return keyP(x.X)
	case *ssa.Extract:
		return fmt.Sprintf("%s#%d", keyP(x.Tuple), x.Index)
	case *ssa.Phi:
		r := resolve(x)
		if r != ssa.Value(x) {
			return keyP(r)
		}
	}
	return fmt.Sprintf("v%p", v)
}

// syncOp recognises the sync primitives.
func syncOp(ci *CallInfo) *LockOp {
	if ci.Static == nil {
		return nil
	}
	n := qualName(ci.Static)
	var mode byte
	var acq bool
	switch n {
	case "sync.(Mutex).Lock", "sync.(RWMutex).Lock":
		mode, acq = 'W', true
	case "sync.(Mutex).Unlock", "sync.(RWMutex).Unlock":
		mode, acq = 'W', false
	case "sync.(RWMutex).RLock":
		mode, acq = 'R', true
	case "sync.(RWMutex).RUnlock":
		mode, acq = 'R', false
	default:
		return nil
	}
	r := ci.Recv()
	if r == nil {
		return nil
	}
	return &LockOp{Key: keyP(r), Mode: mode, Acquire: acq, At: ci.Instr, Class: lockClass(r), Direct: true}
}

// lockClass names the mutex by the struct type and field that hold it.
func lockClass(v ssa.Value) string {
	switch x := v.(type) {
	case *ssa.FieldAddr:
		return fieldName(x)
	case *ssa.Global:
		return "global." + x.Name()
	case *ssa.Alloc:
		return "local." + x.Comment
	case *ssa.UnOp:
		return lockClass(x.X)
	case *ssa.FreeVar:
		return "captured." + x.Name()
	}
	return "?"
}

// LockSummary of a function, relative to its parameters ("param:NAME...").
type LockSummary struct {
	HeldAtExit lockset  // held at every return, and not held at entry
	Released   []string // keys released (on some path) that were not acquired before in the function
	Class      map[string]string
}

type LockEngine struct {
	P        *Prog
	sums     map[*ssa.Function]*LockSummary
	inflight map[*ssa.Function]bool
	cache    map[*ssa.Function]*LockAn
	MaxDepth int

	analyzing map[*ssa.Function]bool
	sites     map[*ssa.Function][]callSite
	escapes   map[*ssa.Function]bool

	inProgress map[*ssa.Function]bool
}

func NewLockEngine(p *Prog) *LockEngine {
	return &LockEngine{P: p, sums: map[*ssa.Function]*LockSummary{}, inflight: map[*ssa.Function]bool{}, cache: map[*ssa.Function]*LockAn{}, MaxDepth: 3}
}

type LockAn struct {
	Fn  *ssa.Function
	in  map[*ssa.BasicBlock]lockset
	ops map[ssa.Instruction][]LockOp // effect of each call instruction (not defers at registration)
	def map[ssa.Instruction][]LockOp // effect of a defer when it runs

	transferFn func(b *ssa.BasicBlock, s lockset, upto int) lockset
	Entry      lockset // locks every caller holds (unexported helper)
}

func inModule(f *ssa.Function) bool {
	return f != nil && f.Pkg != nil && strings.HasPrefix(f.Pkg.Pkg.Path(), modPath)
}

// opsOfCall: the lock effect of one call site, through summaries.
func (le *LockEngine) opsOfCall(ci *CallInfo, depth int) []LockOp {
	if op := syncOp(ci); op != nil {
		return []LockOp{*op}
	}
	// once.Do(mu.Unlock): the release of a handle that may be closed twice
	if ci.Static != nil && qualName(ci.Static) == "sync.(Once).Do" && len(ci.Common.Args) == 2 {
		if mc, ok := resolve(ci.Common.Args[1]).(*ssa.MakeClosure); ok && len(mc.Bindings) == 1 {
			if g, ok := mc.Fn.(*ssa.Function); ok && strings.HasSuffix(g.Name(), "$bound") {
				if m, ok := g.Object().(*types.Func); ok {
					var mode byte
					switch m.FullName() {
					case "(*sync.Mutex).Unlock", "(*sync.RWMutex).Unlock":
						mode = 'W'
					case "(*sync.RWMutex).RUnlock":
						mode = 'R'
					}
					if mode != 0 {
						r := mc.Bindings[0]
						return []LockOp{{Key: keyP(r), Mode: mode, Acquire: false, At: ci.Instr, Class: lockClass(r), Direct: true}}
					}
				}
			}
		}
	}
	if ci.Static == nil || !inModule(ci.Static) || ci.Static.Blocks == nil || depth >= le.MaxDepth {
		return nil
	}
	sum := le.summary(ci.Static, depth+1)
	if sum == nil || (len(sum.HeldAtExit) == 0 && len(sum.Released) == 0) {
		return nil
	}
	// substitution of parameter roots
	subst := func(k string) (string, bool) {
		callee := ci.Static
		args := ci.Common.Args
		// bound closures carry the receiver as binding
		if mc, ok := ci.Common.Value.(*ssa.MakeClosure); ok {
			args = append(append([]ssa.Value{}, mc.Bindings...), args...)
		}
		for i, p := range callee.Params {
			pre := "param:" + p.Name()
			for _, lead := range []string{"", "*"} {
				_ = lead
			}
			idx := strings.Index(k, pre)
			if idx < 0 {
				continue
			}
			rest := k[idx+len(pre):]
			if rest != "" && rest[0] != '.' {
				continue
			}
			if i >= len(args) {
				return "", false
			}
			return k[:idx] + keyP(args[i]) + rest, true
		}
		return "", false
	}
	var out []LockOp
	for _, k := range sum.Released {
		if nk, ok := subst(k); ok {
			out = append(out, LockOp{Key: nk, Mode: 'W', Acquire: false, At: ci.Instr, Class: sum.Class[k]})
		}
	}
	var keys []string
	for k := range sum.HeldAtExit {
		keys = append(keys, k)
	}
	sort.Strings(keys)
	for _, k := range keys {
		if nk, ok := subst(k); ok {
			out = append(out, LockOp{Key: nk, Mode: sum.HeldAtExit[k], Acquire: true, At: ci.Instr, Class: sum.Class[k]})
		}
	}
	return out
}

func (le *LockEngine) summary(f *ssa.Function, depth int) *LockSummary {
	if s, ok := le.sums[f]; ok {
		return s
	}
	if le.inflight[f] {
		return nil // recursion: assume neutral
	}
	le.inflight[f] = true
	defer delete(le.inflight, f)
	la := le.analyze(f, depth)
	sum := &LockSummary{HeldAtExit: nil, Class: map[string]string{}}
	for _, m := range []map[ssa.Instruction][]LockOp{la.ops, la.def} {
		for _, ops := range m {
			for _, op := range ops {
				sum.Class[op.Key] = op.Class
			}
		}
	}
	rets := returnsOf(f)
	for _, r := range rets {
		h := la.HeldBefore(r)
		if sum.HeldAtExit == nil {
			sum.HeldAtExit = h.clone()
		} else {
			sum.HeldAtExit = meet(sum.HeldAtExit, h)
		}
	}
	if sum.HeldAtExit == nil {
		sum.HeldAtExit = lockset{}
	}
	// keep only parameter-rooted keys
	for k := range sum.HeldAtExit {
		if !strings.Contains(k, "param:") {
			delete(sum.HeldAtExit, k)
		}
	}
	// releases of locks not acquired in this function
	rel := map[string]bool{}
	for _, b := range f.Blocks {
		for _, in := range b.Instrs {
			var ops []LockOp
			if _, isDefer := in.(*ssa.Defer); isDefer {
				ops = la.def[in]
			} else {
				ops = la.ops[in]
			}
			for _, op := range ops {
				if op.Acquire || !strings.Contains(op.Key, "param:") {
					continue
				}
				if _, isDefer := in.(*ssa.Defer); isDefer {
					// deferred release: paired with an acquisition if any acquisition of the key exists
					if !la.acquiresKey(op.Key) {
						rel[op.Key] = true
					}
					continue
				}
				if _, held := la.HeldBefore(in)[op.Key]; !held {
					rel[op.Key] = true
				}
			}
		}
	}
	for k := range rel {
		sum.Released = append(sum.Released, k)
	}
	sort.Strings(sum.Released)
	le.sums[f] = sum
	return sum
}

func (la *LockAn) acquiresKey(k string) bool {
	for _, ops := range la.ops {
		for _, op := range ops {
			if op.Acquire && op.Key == k {
				return true
			}
		}
	}
	return false
}

// Analyze computes the must-hold lockset of f (entry: nothing held).
func (le *LockEngine) Analyze(f *ssa.Function) *LockAn {
	if la, ok := le.cache[f]; ok {
		return la
	}
	if le.analyzing == nil {
		le.analyzing = map[*ssa.Function]bool{}
	}
	if le.analyzing[f] {
		return le.analyzeEntry(f, 0, nil)
	}
	le.analyzing[f] = true
	entry := le.entryLocks(f)
	la := le.analyzeEntry(f, 0, entry)
	la.Entry = entry
	delete(le.analyzing, f)
	le.cache[f] = la
	return la
}

// callSites indexes the static call sites of every module function, and which
// functions are used as values (address taken).
type callSite struct {
	caller *ssa.Function
	ci     *CallInfo
}

func (le *LockEngine) buildCallIndex() {
	le.sites = map[*ssa.Function][]callSite{}
	le.escapes = map[*ssa.Function]bool{}
	for _, f := range le.P.AllModuleFuncs() {
		eachInstr(f, func(b *ssa.BasicBlock, i int, in ssa.Instruction) {
			ci := callInfo(in, b, i)
			for _, op := range in.Operands(nil) {
				if op == nil || *op == nil {
					continue
				}
				if g, ok := (*op).(*ssa.Function); ok {
					if ci != nil && ci.Common.Value == ssa.Value(g) {
						continue // the callee position
					}
					le.escapes[g] = true
				}
				if mc, ok := (*op).(*ssa.MakeClosure); ok {
					if g, ok := mc.Fn.(*ssa.Function); ok && strings.HasSuffix(g.Name(), "$bound") {
						if fo, ok := g.Object().(*types.Func); ok {
							if real := f.Prog.FuncValue(fo); real != nil {
								le.escapes[real] = true
							}
						}
					}
				}
			}
			if ci != nil && ci.Static != nil && inModule(ci.Static) {
				le.sites[ci.Static] = append(le.sites[ci.Static], callSite{f, ci})
			}
		})
	}
}

// entryLocks: locks held at every call site of an unexported, non-escaping
// function, expressed over the callee's parameters ("the caller holds the
// lock" idiom of *Locked helpers).
func (le *LockEngine) entryLocks(f *ssa.Function) lockset {
	if f.Parent() != nil {
		return le.closureEntryLocks(f)
	}
	if f.Object() == nil || f.Object().Exported() {
		return nil
	}
	if le.sites == nil {
		le.buildCallIndex()
	}
	if le.escapes[f] {
		return nil
	}
	sites := le.sites[f]
	if len(sites) == 0 {
		return nil
	}
	var acc lockset
	first := true
	for _, s := range sites {
		if s.caller == f {
			continue // recursion inherits
		}
		if s.ci.Kind != "call" {
			return nil // go / defer: the caller's locks are not held when it runs
		}
		held := le.Analyze(s.caller).HeldBefore(s.ci.Instr)
		tr := lockset{}
		args := s.ci.Common.Args
		for k, m := range held {
			for i, p := range f.Params {
				if i >= len(args) {
					break
				}
				ak := keyP(args[i])
				if k == ak || strings.HasPrefix(k, ak+".") {
					tr["param:"+p.Name()+k[len(ak):]] = m
				}
			}
		}
		if first {
			acc, first = tr, false
		} else {
			acc = meet(acc, tr)
		}
	}
	if first || len(acc) == 0 {
		return nil
	}
	return acc
}

func (le *LockEngine) analyze(f *ssa.Function, depth int) *LockAn {
	return le.analyzeEntry(f, depth, nil)
}

func (le *LockEngine) analyzeEntry(f *ssa.Function, depth int, entry lockset) *LockAn {
	la := &LockAn{Fn: f, in: map[*ssa.BasicBlock]lockset{}, ops: map[ssa.Instruction][]LockOp{}, def: map[ssa.Instruction][]LockOp{}}
	if len(f.Blocks) == 0 {
		return la
	}
	for _, b := range f.Blocks {
		for i, in := range b.Instrs {
			ci := callInfo(in, b, i)
			if ci == nil {
				continue
			}
			switch ci.Kind {
			case "call":
				if ops := le.opsOfCall(ci, depth); len(ops) > 0 {
					la.ops[in] = ops
				}
			case "defer":
				if ops := le.opsOfCall(ci, depth); len(ops) > 0 {
					la.def[in] = ops
				}
			}
		}
	}
	transfer := func(b *ssa.BasicBlock, s lockset, upto int) lockset {
		s = s.clone()
		for i, in := range b.Instrs {
			if upto >= 0 && i >= upto {
				break
			}
			if _, ok := in.(*ssa.RunDefers); ok {
				// every deferred release may have been registered: drop them (sound for must-hold)
				for _, ops := range la.def {
					for _, op := range ops {
						if !op.Acquire {
							delete(s, op.Key)
						}
					}
				}
				continue
			}
			for _, op := range la.ops[in] {
				if op.Acquire {
					s[op.Key] = op.Mode
				} else {
					delete(s, op.Key)
				}
			}
		}
		return s
	}
	la.in[f.Blocks[0]] = lockset{}
	for k, m := range entry {
		la.in[f.Blocks[0]][k] = m
	}
	changed := true
	for iter := 0; changed && iter < 100; iter++ {
		changed = false
		for _, b := range f.Blocks {
			if b == f.Blocks[0] {
				continue
			}
			var acc lockset
			first := true
			for _, p := range b.Preds {
				pin, ok := la.in[p]
				if !ok {
					continue
				}
				out := transfer(p, pin, -1)
				if first {
					acc, first = out, false
				} else {
					acc = meet(acc, out)
				}
			}
			if first {
				continue
			}
			if old, ok := la.in[b]; !ok || !sameLockset(old, acc) {
				la.in[b] = acc
				changed = true
			}
		}
	}
	la.transferFn = transfer
	return la
}

func (la *LockAn) HeldBefore(in ssa.Instruction) lockset {
	b := in.Block()
	s, ok := la.in[b]
	if !ok {
		return lockset{}
	}
	return la.transferFn(b, s, instrIndex(in))
}

// ---------------------------------------------------------------------------
// guarded-by

// FieldAccess is one access to a struct field found in SSA.
type FieldAccess struct {
	Fn    *ssa.Function
	Instr ssa.Instruction // the FieldAddr / Field instruction
	Base  ssa.Value       // struct pointer (or value)
	Kind  string          // "write", "read", "len", "addr-escape"
	Pos   token.Pos
	Why   string
	// Points: the instructions at which the guard must be held (the load of
	// the header and the use of the content).
	Points []ssa.Instruction
}

// fieldAccesses finds every access to field `fld` of struct type `st` in fns
// and classifies it.
func fieldAccesses(fns []*ssa.Function, st *types.Struct, fieldIdx int) []FieldAccess {
	var out []FieldAccess
	for _, f := range fns {
		eachInstr(f, func(b *ssa.BasicBlock, i int, in ssa.Instruction) {
			switch x := in.(type) {
			case *ssa.FieldAddr:
				pt, ok := x.X.Type().Underlying().(*types.Pointer)
				if !ok {
					return
				}
				if s, ok := pt.Elem().Underlying().(*types.Struct); !ok || s != st || x.Field != fieldIdx {
					return
				}
				for _, acc := range classifyAddrUses(x) {
					acc.Fn, acc.Instr, acc.Base = f, x, x.X
					if !acc.Pos.IsValid() {
						acc.Pos = x.Pos()
					}
					out = append(out, acc)
				}
			case *ssa.Field:
				if s, ok := x.X.Type().Underlying().(*types.Struct); ok && s == st && x.Field == fieldIdx {
					out = append(out, FieldAccess{Fn: f, Instr: x, Base: x.X, Kind: "read", Pos: x.Pos(), Why: "field of struct value"})
				}
			}
		})
	}
	return out
}

// classifyAddrUses: how is the address &x.F used?
func classifyAddrUses(fa *ssa.FieldAddr) []FieldAccess {
	var out []FieldAccess
	for _, r := range *fa.Referrers() {
		switch u := r.(type) {
		case *ssa.Store:
			if u.Addr == fa {
				out = append(out, FieldAccess{Kind: "write", Pos: u.Pos(), Why: "store to field", Points: []ssa.Instruction{u}})
			} else {
				out = append(out, FieldAccess{Kind: "addr-escape", Pos: u.Pos(), Why: "address of field stored"})
			}
		case *ssa.UnOp:
			if u.Op != token.MUL {
				continue
			}
			for _, a := range classifyLoadedUses(u) {
				a.Points = append([]ssa.Instruction{u}, a.Points...)
				out = append(out, a)
			}
		case *ssa.DebugRef:
		default:
			// address passed to a call, etc.
			if ci, ok := r.(ssa.CallInstruction); ok {
				// handed to sync/atomic (function, or method of an atomic type): an atomic access
				if cal := ci.Common().StaticCallee(); cal != nil && cal.Pkg != nil && cal.Pkg.Pkg.Path() == "sync/atomic" {
					out = append(out, FieldAccess{Kind: "atomic", Pos: r.Pos(), Why: "atomic access through " + cal.Name(), Points: []ssa.Instruction{r}})
					continue
				}
				out = append(out, FieldAccess{Kind: "addr-escape", Pos: r.Pos(), Why: "address of field passed to " + r.String()})
			} else {
				out = append(out, FieldAccess{Kind: "addr-escape", Pos: r.Pos(), Why: "address used by " + r.String()})
			}
		}
	}
	return out
}

// classifyLoadedUses: the field value (a slice or map header, or a scalar) was
// loaded; what is done with it?
func classifyLoadedUses(ld *ssa.UnOp) []FieldAccess {
	var out []FieldAccess
	refs := *ld.Referrers()
	if len(refs) == 0 {
		return []FieldAccess{{Kind: "read", Pos: ld.Pos(), Why: "load"}}
	}
	for _, r := range refs {
		switch u := r.(type) {
		case *ssa.DebugRef:
			continue
		case *ssa.Call:
			if b, ok := u.Call.Value.(*ssa.Builtin); ok {
				switch b.Name() {
				case "len", "cap":
					out = append(out, FieldAccess{Kind: "len", Pos: u.Pos(), Why: b.Name() + "() of header"})
					continue
				case "delete":
					out = append(out, FieldAccess{Kind: "write", Pos: u.Pos(), Why: "delete from map", Points: []ssa.Instruction{u}})
					continue
				case "append":
					// append(field, ...) reads (and may write the backing array); the result store is seen separately
					out = append(out, FieldAccess{Kind: "read", Pos: u.Pos(), Why: "append", Points: []ssa.Instruction{u}})
					continue
				case "copy":
					if len(u.Call.Args) > 0 && u.Call.Args[0] == ssa.Value(ld) {
						out = append(out, FieldAccess{Kind: "write", Pos: u.Pos(), Why: "copy into", Points: []ssa.Instruction{u}})
					} else {
						out = append(out, FieldAccess{Kind: "read", Pos: u.Pos(), Why: "copy from", Points: []ssa.Instruction{u}})
					}
					continue
				}
			}
			out = append(out, FieldAccess{Kind: "read", Pos: u.Pos(), Why: "passed to call", Points: []ssa.Instruction{u}})
		case *ssa.MapUpdate:
			if u.Map == ssa.Value(ld) {
				out = append(out, FieldAccess{Kind: "write", Pos: u.Pos(), Why: "map update", Points: []ssa.Instruction{u}})
			} else {
				out = append(out, FieldAccess{Kind: "read", Pos: u.Pos(), Why: "used as map key/value"})
			}
		case *ssa.IndexAddr:
			// element address: store through it = write, load = read
			w := false
			for _, rr := range *u.Referrers() {
				if s, ok := rr.(*ssa.Store); ok && s.Addr == ssa.Value(u) {
					w = true
				}
			}
			pts := []ssa.Instruction{u}
			for _, rr := range *u.Referrers() {
				pts = append(pts, rr)
			}
			if w {
				out = append(out, FieldAccess{Kind: "write", Pos: u.Pos(), Why: "element store", Points: pts})
			} else {
				out = append(out, FieldAccess{Kind: "read", Pos: u.Pos(), Why: "element load", Points: pts})
			}
		case *ssa.Return, *ssa.Store, *ssa.Phi, *ssa.MakeInterface, *ssa.BinOp, *ssa.If, *ssa.Convert, *ssa.ChangeType:
			// the loaded header / scalar is only copied or compared: the guard matters at the load
			out = append(out, FieldAccess{Kind: "read", Pos: r.Pos(), Why: fmt.Sprintf("used by %T", r)})
		default:
			out = append(out, FieldAccess{Kind: "read", Pos: r.Pos(), Why: fmt.Sprintf("used by %T", r), Points: []ssa.Instruction{r}})
		}
	}
	return out
}

// freshBase: the struct was allocated in this function (constructor).
func freshBase(v ssa.Value) bool {
	switch x := v.(type) {
	case *ssa.Alloc:
		return true
	case *ssa.FieldAddr:
		return freshBase(x.X) // a struct embedded by value in the object under construction
	case *ssa.Phi:
		for _, e := range x.Edges {
			if !freshBase(e) {
				return false
			}
		}
		return true
	}
	return false
}

// GuardVerdict for one access.
type GuardVerdict struct {
	Acc    FieldAccess
	OK     bool
	Exempt string
	Held   lockset
	Need   string
}

// CheckGuardedBy: every access to field `field` of named struct type T in fns
// holds T.`guard` (a sync.Mutex/RWMutex field, possibly embedded) on the same
// base object: W for writes, >=R for content reads.  len()/cap() of the header
// and accesses on a freshly allocated object are exempt.
func (le *LockEngine) CheckGuardedBy(fns []*ssa.Function, T *types.Named, field, guard string) ([]GuardVerdict, error) {
	st, ok := T.Underlying().(*types.Struct)
	if !ok {
		return nil, fmt.Errorf("%s is not a struct", T)
	}
	fi, gi := -1, -1
	tshort := lastSeg(typeString(T))
	for i := 0; i < st.NumFields(); i++ {
		n := st.Field(i).Name()
		if n == field || refFieldName(tshort, n) == field {
			fi = i
		}
		if n == guard || refFieldName(tshort, n) == guard {
			gi = i
		}
	}
	if fi < 0 || gi < 0 {
		return nil, fmt.Errorf("field %s or guard %s not found in %s", field, guard, T)
	}
	var out []GuardVerdict
	accs := fieldAccesses(fns, st, fi)
	// a field that is touched only through sync/atomic (apart from objects under construction)
	// needs no lock; a mix of atomic and plain accesses is judged as plain accesses
	atomicOnly, nAtomic := true, 0
	for _, acc := range accs {
		switch {
		case acc.Kind == "atomic":
			nAtomic++
		case freshBase(acc.Base):
		default:
			atomicOnly = false
		}
	}
	atomicOnly = atomicOnly && nAtomic > 0
	for _, acc := range accs {
		v := GuardVerdict{Acc: acc}
		if acc.Kind == "atomic" {
			if atomicOnly {
				v.OK, v.Need = true, "accessed only through sync/atomic"
				out = append(out, v)
				continue
			}
			acc.Kind = "addr-escape"
			v.Acc = acc
		}
		switch {
		case acc.Kind == "len":
			v.OK, v.Exempt = true, "len/cap of the header only"
		case freshBase(acc.Base):
			v.OK, v.Exempt = true, "object under construction (fresh allocation)"
		default:
			la := le.Analyze(acc.Fn)
			key := fmt.Sprintf("%s.&f%d", keyP(acc.Base), gi)
			need := byte('R')
			if acc.Kind == "write" || acc.Kind == "addr-escape" {
				need = 'W'
			}
			v.Need = fmt.Sprintf("%s in mode >=%c", key, need)
			pts := acc.Points
			if len(pts) == 0 {
				pts = []ssa.Instruction{acc.Instr}
			}
			v.OK = true
			for _, pt := range pts {
				if pt.Block() == nil || pt.Parent() != acc.Fn {
					continue
				}
				held := la.HeldBefore(pt)
				v.Held = held
				mode, has := held[key]
				if !(has && (need == 'R' || mode == 'W')) {
					v.OK = false
					break
				}
			}
		}
		out = append(out, v)
	}
	return out, nil
}

// accInstr: the instruction at which the access happens (the use, if we can
// find it by position; otherwise the FieldAddr itself).
func accInstr(acc FieldAccess) ssa.Instruction {
	return acc.Instr
}

func fmtLockset(l lockset) string {
	var ks []string
	for k, m := range l {
		ks = append(ks, fmt.Sprintf("%s:%c", k, m))
	}
	sort.Strings(ks)
	return "{" + strings.Join(ks, ", ") + "}"
}

// ---------------------------------------------------------------------------
// pairing, ordering

// LeakedAcquisitions: for every acquisition made directly in f (not through a
// summary), the exits that can be reached without releasing it.
type LockLeak struct {
	Op   LockOp
	Exit PathExit
}

func (le *LockEngine) Leaks(f *ssa.Function) (leaks []LockLeak, acquisitions int) {
	la := le.Analyze(f)
	for _, b := range f.Blocks {
		for _, in := range b.Instrs {
			for _, op := range la.ops[in] {
				if !op.Acquire || !op.Direct {
					continue
				}
				acquisitions++
				key := op.Key
				bad := MustPass(f, in, func(x ssa.Instruction) bool {
					for _, o := range la.ops[x] {
						if !o.Acquire && o.Key == key {
							return true
						}
					}
					for _, o := range la.def[x] {
						if !o.Acquire && o.Key == key {
							return true
						}
					}
					return false
				})
				for _, e := range bad {
					leaks = append(leaks, LockLeak{Op: op, Exit: e})
				}
			}
		}
	}
	return
}

// classOfKey looks a key's class up among the ops of an analysis.
func (la *LockAn) classOfKey(k string) string {
	for _, m := range []map[ssa.Instruction][]LockOp{la.ops, la.def} {
		for _, ops := range m {
			for _, op := range ops {
				if op.Key == k {
					return op.Class
				}
			}
		}
	}
	return "?"
}

// MayAcquire: lock classes f may acquire, transitively through static callees
// inside the module (bounded depth).
func (le *LockEngine) MayAcquire(f *ssa.Function, depth int, seen map[*ssa.Function]bool) map[string]bool {
	out := map[string]bool{}
	if f == nil || f.Blocks == nil || seen[f] || depth > 6 {
		return out
	}
	seen[f] = true
	for _, ci := range Calls(f) {
		if op := syncOp(ci); op != nil {
			if op.Acquire {
				out[op.Class] = true
			}
			continue
		}
		if ci.Static != nil && inModule(ci.Static) {
			for k := range le.MayAcquire(ci.Static, depth+1, seen) {
				out[k] = true
			}
		}
	}
	delete(seen, f)
	return out
}

type OrderEdge struct {
	From, To string
	Fn       *ssa.Function
	At       ssa.Instruction
}

// OrderEdges: "class To is acquired while class From is held".
func (le *LockEngine) OrderEdges(fns []*ssa.Function) []OrderEdge {
	var out []OrderEdge
	for _, f := range fns {
		la := le.Analyze(f)
		for _, ci := range Calls(f) {
			if ci.Kind != "call" {
				continue
			}
			held := la.HeldBefore(ci.Instr)
			if len(held) == 0 {
				continue
			}
			var acquired []string
			if op := syncOp(ci); op != nil {
				if op.Acquire {
					acquired = []string{op.Class}
				}
			} else if ci.Static != nil && inModule(ci.Static) {
				for k := range le.MayAcquire(ci.Static, 0, map[*ssa.Function]bool{}) {
					acquired = append(acquired, k)
				}
			}
			sort.Strings(acquired)
			for hk := range held {
				hc := la.classOfKey(hk)
				for _, ac := range acquired {
					out = append(out, OrderEdge{From: hc, To: ac, Fn: f, At: ci.Instr})
				}
			}
		}
	}
	sort.Slice(out, func(i, j int) bool {
		if out[i].From != out[j].From {
			return out[i].From < out[j].From
		}
		if out[i].To != out[j].To {
			return out[i].To < out[j].To
		}
		return out[i].At.Pos() < out[j].At.Pos()
	})
	return out
}

// findCycle in the class graph, ignoring the allowed self edges.
func findCycle(edges []OrderEdge, allowSelf map[string]bool) []string {
	adj := map[string]map[string]bool{}
	for _, e := range edges {
		if e.From == e.To && allowSelf[e.From] {
			continue
		}
		if adj[e.From] == nil {
			adj[e.From] = map[string]bool{}
		}
		adj[e.From][e.To] = true
	}
	color := map[string]int{}
	var stack []string
	var cyc []string
	var dfs func(n string) bool
	dfs = func(n string) bool {
		color[n] = 1
		stack = append(stack, n)
		var nx []string
		for m := range adj[n] {
			nx = append(nx, m)
		}
		sort.Strings(nx)
		for _, m := range nx {
			if color[m] == 1 {
				for i, s := range stack {
					if s == m {
						cyc = append(append([]string{}, stack[i:]...), m)
						return true
					}
				}
			}
			if color[m] == 0 && dfs(m) {
				return true
			}
		}
		stack = stack[:len(stack)-1]
		color[n] = 2
		return false
	}
	var nodes []string
	for n := range adj {
		nodes = append(nodes, n)
	}
	sort.Strings(nodes)
	for _, n := range nodes {
		if color[n] == 0 && dfs(n) {
			return cyc
		}
	}
	return nil
}

// releasedBetween: some non-deferred release of key can execute after a and
// before b (a dominates b).
func (la *LockAn) releasedBetween(key string, a, b ssa.Instruction) bool {
	for in, ops := range la.ops {
		for _, op := range ops {
			if op.Acquire || op.Key != key {
				continue
			}
			if in == a || in == b {
				continue
			}
			if reachableFrom(a, in) && reachableFrom(in, b) {
				return true
			}
		}
	}
	return false
}

// holdsLockByValue: struct type T has a sync primitive as a direct (non-pointer) field.
func holdsLockByValue(t types.Type, depth int) string {
	st, ok := t.Underlying().(*types.Struct)
	if !ok || depth > 3 {
		return ""
	}
	for i := 0; i < st.NumFields(); i++ {
		ft := st.Field(i).Type()
		if n, ok := ft.(*types.Named); ok && n.Obj().Pkg() != nil {
			pp := n.Obj().Pkg().Path()
			if (pp == "sync" && (n.Obj().Name() == "Mutex" || n.Obj().Name() == "RWMutex" || n.Obj().Name() == "Once" || n.Obj().Name() == "WaitGroup" || n.Obj().Name() == "Cond")) ||
				(pp == "sync/atomic" && n.Obj().Name() == "Value") {
				return st.Field(i).Name()
			}
			if _, isS := n.Underlying().(*types.Struct); isS {
				if s := holdsLockByValue(n, depth+1); s != "" {
					return st.Field(i).Name() + "." + s
				}
			}
		}
	}
	return ""
}

// ruleNoLockCopy: a method with a value receiver works on a copy of the object
// and therefore on a copy of its mutex: its critical sections exclude nobody
// while the maps/slices it guards are still shared by reference.
func ruleNoLockCopy(c *Ctx, rule string, owners []*types.Named) int {
	n := 0
	for _, T := range owners {
		lf := holdsLockByValue(T, 0)
		if lf == "" || T.Obj().Pkg() == nil {
			continue
		}
		rel := strings.TrimPrefix(T.Obj().Pkg().Path(), modPath+"/")
		bad := ""
		var pos token.Pos = T.Obj().Pos()
		for _, f := range c.P.PkgFuncs(rel) {
			recv := f.Signature.Recv()
			if recv == nil {
				continue
			}
			if rn, ok := recv.Type().(*types.Named); ok && rn == T {
				bad, pos = fmt.Sprintf("method %s has a value receiver", f.Name()), f.Pos()
			}
		}
		n++
		c.Check(bad == "", rule, "methods of "+shortPkg(T.Obj().Pkg().Path())+"."+T.Obj().Name()+" do not copy "+lf, pos, "all methods use a pointer receiver",
			bad+": every call locks a private copy of "+lf+" while the guarded maps are shared — concurrent callers are not excluded (fatal 'concurrent map read and map write')")
	}
	return n
}

// closureEntryLocks: a function literal that is only ever run synchronously at one place - called
// directly, or handed to a function of the module that does nothing with that parameter but call
// it - starts with the locks its creator holds at that place (keys translated from the creator's
// variables to the literal's captured variables).
func (le *LockEngine) closureEntryLocks(f *ssa.Function) lockset {
	parent := f.Parent()
	var mc *ssa.MakeClosure
	n := 0
	eachInstr(parent, func(_ *ssa.BasicBlock, _ int, in ssa.Instruction) {
		if x, ok := in.(*ssa.MakeClosure); ok && x.Fn == ssa.Value(f) {
			mc = x
			n++
		}
	})
	if mc == nil || n != 1 {
		return nil
	}
	refs := *mc.Referrers()
	var site *ssa.Call
	for _, r := range refs {
		if _, isDbg := r.(*ssa.DebugRef); isDbg {
			continue
		}
		c, ok := r.(*ssa.Call)
		if !ok || site != nil {
			return nil // stored, deferred, started with go, or used twice
		}
		site = c
	}
	if site == nil {
		return nil
	}
	if site.Call.Value != ssa.Value(mc) {
		// an argument of a call: the callee only calls it
		h := site.Call.StaticCallee()
		if h == nil || h.Blocks == nil || !inModule(h) {
			return nil
		}
		okUse := false
		for i, a := range site.Call.Args {
			if a != ssa.Value(mc) || i >= len(h.Params) {
				continue
			}
			okUse = true
			for _, r := range *h.Params[i].Referrers() {
				switch x := r.(type) {
				case *ssa.DebugRef:
				case *ssa.Call:
					if x.Call.Value != ssa.Value(h.Params[i]) {
						okUse = false
					}
				default:
					okUse = false
				}
			}
		}
		if !okUse {
			return nil
		}
	}
	if le.inProgress == nil {
		le.inProgress = map[*ssa.Function]bool{}
	}
	if le.inProgress[parent] {
		return nil
	}
	le.inProgress[parent] = true
	held := le.Analyze(parent).HeldBefore(site)
	delete(le.inProgress, parent)
	out := lockset{}
	for i, fv := range f.FreeVars {
		if i >= len(mc.Bindings) {
			break
		}
		b := mc.Bindings[i]
		// the creator's key for what the captured variable holds
		var pk string
		if a, ok := b.(*ssa.Alloc); ok {
			if st := uniqueStore(a); st != nil {
				pk = keyP(st.Val)
			}
			for k, m := range held {
				ak := "*" + keyP(a)
				if k == ak || strings.HasPrefix(k, ak+".") {
					out["*free:"+fv.Name()+k[len(ak):]] = m
				}
			}
		} else {
			pk = keyP(b)
		}
		if pk == "" || pk == "?" {
			continue
		}
		for k, m := range held {
			if k == pk || strings.HasPrefix(k, pk+".") {
				if _, isAlloc := b.(*ssa.Alloc); isAlloc {
					out["*free:"+fv.Name()+k[len(pk):]] = m
				} else {
					out["free:"+fv.Name()+k[len(pk):]] = m
				}
			}
		}
	}
	if len(out) == 0 {
		return nil
	}
	return out
}
