package triage

import (
	"fmt"
	"sync"
	"testing"

	"github.com/goatcms/goatcore/app/scope/contextscope"
)

func TestTriage3(t *testing.T) {
	panics := 0
	var mu sync.Mutex
	for i := 0; i < 200000; i++ {
		s := contextscope.New()
		var wg sync.WaitGroup
		start := make(chan struct{})
		for g := 0; g < 4; g++ {
			wg.Add(1)
			go func() {
				defer wg.Done()
				defer func() {
					if r := recover(); r != nil {
						mu.Lock()
						panics++
						mu.Unlock()
					}
				}()
				<-start
				s.AppendError(fmt.Errorf("e"))
			}()
		}
		close(start)
		wg.Wait()
	}
	fmt.Println("FIX-10  panics in 200000 four-goroutine trials:", panics)
}
