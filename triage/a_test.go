package triage

import (
	"fmt"
	"testing"

	"github.com/goatcms/goatcore/app"
	"github.com/goatcms/goatcore/app/dependency"
	"github.com/goatcms/goatcore/app/scope"
	"github.com/goatcms/goatcore/filesystem/filespace/encryptfs/cipherfs/aesgcm256cfs"
	"github.com/goatcms/goatcore/filesystem/filespace/encryptfs/cipherfs/extcfs"
	"github.com/goatcms/goatcore/filesystem/filespace/memfs"
	"github.com/goatcms/goatcore/filesystem/fscache"
	"github.com/goatcms/goatcore/filesystem/fshelper"
	"github.com/goatcms/goatcore/varutil"
	"github.com/goatcms/goatcore/varutil/plainmap"
)

func rec(name string, f func()) {
	defer func() {
		if r := recover(); r != nil {
			fmt.Printf("%-8s PANIC: %v\n", name, r)
		}
	}()
	f()
}

func TestTriage(t *testing.T) {
	rec("FIX-1", func() {
		fs, _ := memfs.NewFilespace()
		fs.WriteFile("b", []byte("x"), 0644)
		fs.MkdirAll("a", 0777)
		fmt.Println("FIX-1   IsExist(a/../b)=", fs.IsExist("a/../b"), " IsFile(a/../b)=", fs.IsFile("a/../b"))
	})
	rec("FIX-2", func() {
		fs, _ := memfs.NewFilespace()
		fs.WriteFile("f1", []byte("1"), 0644)
		fs.WriteFile("f2", []byte("2"), 0644)
		fs.WriteFile("f3", []byte("3"), 0644)
		l, _ := fs.ReadDir("")
		before := fmt.Sprint(l[0].Name(), l[1].Name(), l[2].Name())
		fs.Remove("f1")
		after := fmt.Sprint(l[0].Name(), l[1].Name(), l[2].Name())
		fmt.Println("FIX-2   listing before:", before, " same slice after Remove(f1):", after)
		buf := []byte("hello")
		fs.WriteFile("w", buf, 0644)
		buf[0] = 'J'
		d, _ := fs.ReadFile("w")
		fmt.Println("FIX-2   after caller mutates buffer file is:", string(d))
		d[1] = 'X'
		d2, _ := fs.ReadFile("w")
		fmt.Println("FIX-2   after reader mutates result file is:", string(d2))
	})
	rec("C01dot", func() {
		fs, _ := memfs.NewFilespace()
		fs.MkdirAll(".", 0777)
		l, _ := fs.ReadDir("")
		for _, n := range l {
			fmt.Println("C01     phantom node after MkdirAll(\".\"):", n.Name())
		}
	})
	rec("FIX-5", func() {
		fs, _ := memfs.NewFilespace()
		fs.WriteFile("p", []byte("abcdef"), 0644)
		w, _ := fs.Writer("p")
		w.Write([]byte("xy"))
		w.Close()
		d, _ := fs.ReadFile("p")
		fmt.Println("FIX-5   writer over existing:", string(d))
	})
	rec("FIX-6a", func() {
		_, err := aesgcm256cfs.NewCipher().Decrypt([]byte("k"), []byte{1, 2, 3})
		fmt.Println("FIX-6a  err:", err)
	})
	rec("FIX-6b", func() {
		_, err := extcfs.NewDefaultCipher().Decrypt([]byte("k"), []byte{1, 2})
		fmt.Println("FIX-6b  err:", err)
	})
	rec("FIX-8", func() {
		dp := dependency.NewProvider("dependency")
		dp.AddFactory("Y", func(app.DependencyProvider) (interface{}, error) { return nil, fmt.Errorf("boom") })
		dp.AddFactory("X", func(p app.DependencyProvider) (interface{}, error) {
			p.Get("Y") // optional
			return "x-instance", nil
		})
		v1, e1 := dp.Get("X")
		v2, e2 := dp.Get("X")
		fmt.Println("FIX-8   first:", v1, e1, " second:", v2, e2)
	})
	rec("FIX-9", func() {
		dp := dependency.NewProvider("dependency")
		dp.AddFactory("n", func(app.DependencyProvider) (interface{}, error) { return "explicit", nil })
		dp.SetDefault("n", "default")
		v, e := dp.Get("n")
		fmt.Println("FIX-9   Get(n)=", v, e)
	})
	rec("FIX-12", func() {
		p := scope.New(scope.Params{})
		p.Stop()
		c := scope.NewChild(p, scope.ChildParams{})
		fmt.Println("FIX-12  child close:", c.Close())
	})
	rec("FIX-14", func() {
		a, _, e := varutil.SplitArguments("\\a b")
		fmt.Println("FIX-14 ", a, e)
	})
	rec("FIX-14b", func() {
		a, _, e := varutil.SplitArguments("x \\a")
		fmt.Printf("FIX-14b %q %v\n", a, e)
	})
	rec("FIX-15", func() {
		a, _, _ := varutil.SplitArguments("\xe9")
		fmt.Printf("FIX-15  %x\n", a)
	})
	rec("FIX-18", func() {
		m, e := plainmap.JSONToPlainStringMap([]byte(`{"k":"a\"b\n"}`))
		fmt.Printf("FIX-18  %q %v\n", m, e)
	})
	rec("FIX-19", func() {
		s, e := plainmap.PlainStringMapToJSON(map[string]string{"k": "a\\b\n"})
		fmt.Printf("FIX-19  %s %v\n", s, e)
	})
	rec("KF-1", func() {
		fs, _ := memfs.NewFilespace()
		fs.WriteFile("b", []byte("secret"), 0644)
		fs.MkdirAll("a", 0777)
		sub := fshelper.NewSubFS(fs, "a")
		d, e := sub.ReadFile("../b")
		fmt.Printf("KF-1    sub.ReadFile(../b)= %q %v\n", d, e)
		c, _ := fscache.NewMemCache(fs)
		cs, _ := c.Filespace("a")
		d, e = cs.ReadFile("../b")
		fmt.Printf("KF-1    cacheChild.ReadFile(../b)= %q %v\n", d, e)
	})
	rec("KF-2", func() {
		fs, _ := memfs.NewFilespace()
		fs.WriteFile("x", []byte("1"), 0644)
		c, _ := fscache.NewMemCache(fs)
		e := c.Remove("x")
		fmt.Println("KF-2    after Remove(x): err=", e, " IsExist(x)=", c.IsExist("x"))
	})
}
