package triage

import (
	"os"
	"sync"
	"testing"

	"github.com/goatcms/goatcore/filesystem/filespace/memfs"
	"github.com/goatcms/goatcore/goathtml"
	"github.com/goatcms/goatcore/goathtml/ghprovider"
)

func TestTriage4(t *testing.T) {
	if os.Getenv("RUN4") == "" {
		t.Skip()
	}
	fs, _ := memfs.NewFilespace()
	fs.WriteFile("layouts/default/main.gohtml", []byte(`{{define "l"}}x{{end}}`), 0644)
	for v := 0; v < 50; v++ {
		fs.WriteFile("views/v"+string(rune('a'+v%26))+string(rune('a'+v/26))+"/main.gohtml", []byte(`{{define "v"}}y{{end}}`), 0644)
	}
	for i := 0; i < 2000; i++ {
		p := ghprovider.NewProvider(fs, goathtml.HelpersPath, goathtml.LayoutPath, goathtml.ViewPath, goathtml.FileExtension, nil, true)
		var wg sync.WaitGroup
		for g := 0; g < 8; g++ {
			wg.Add(1)
			go func(g int) {
				defer wg.Done()
				for v := 0; v < 50; v++ {
					p.View("", "v"+string(rune('a'+v%26))+string(rune('a'+v/26)))
				}
			}(g)
		}
		wg.Wait()
	}
}
