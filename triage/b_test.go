package triage

import (
	"fmt"
	"io/ioutil"
	"os"
	"os/exec"
	"strings"
	"testing"
	"time"

	"github.com/goatcms/goatcore/app/gio"
	"github.com/goatcms/goatcore/app/modules/commonm/commservices/envs"
	"github.com/goatcms/goatcore/app/modules/ocm/ocservices/dcmd"
	"github.com/goatcms/goatcore/app/modules/pipelinem/pipservices"
	"github.com/goatcms/goatcore/app/modules/pipelinem/pipservices/namespaces"
	"github.com/goatcms/goatcore/app/modules/pipelinem/pipservices/tasks"
	"github.com/goatcms/goatcore/app/scope"
	"github.com/goatcms/goatcore/filesystem/filespace/diskfs"
	"github.com/goatcms/goatcore/filesystem/filespace/memfs"
)

func TestTriage2(t *testing.T) {
	rec("FIX-3", func() {
		dir, _ := ioutil.TempDir("", "tri")
		defer os.RemoveAll(dir)
		fs, _ := diskfs.NewFilespace(dir)
		fs.WriteFile("p", []byte("0123456789"), 0644)
		w, _ := fs.Writer("p")
		w.Write([]byte("abc"))
		w.Close()
		d, _ := fs.ReadFile("p")
		fmt.Printf("FIX-3   %q\n", d)
	})
	rec("FIX-4", func() {
		dir, _ := ioutil.TempDir("", "tri")
		defer os.RemoveAll(dir)
		fs, _ := diskfs.NewFilespace(dir)
		fs.WriteFile("src/d/f.txt", []byte("x"), 0644)
		err := fs.CopyDirectory("src", "dst")
		out, _ := exec.Command("find", dir, "-mindepth", "1").Output()
		fmt.Printf("FIX-4   err=%v tree=%s\n", err, strings.Replace(strings.Replace(string(out), dir, "", -1), "\n", " ", -1))
	})
	rec("FIX-4b", func() {
		dir, _ := ioutil.TempDir("", "tri")
		defer os.RemoveAll(dir)
		fs, _ := diskfs.NewFilespace(dir)
		err := fs.CopyDirectory("missing", "dst")
		fmt.Printf("FIX-4b  err=%v\n", err)
	})
	rec("FIX-13", func() {
		root := scope.New(scope.Params{})
		mgr := tasks.NewTaskManager(tasks.UnitDeps{NamespacesUnit: namespaces.NewUnit()}, root)
		cwd, _ := memfs.NewFilespace()
		_, err := mgr.Create(pipservices.Pip{
			Name:       "b",
			Namespaces: namespaces.NewNamespaces(pipservices.NamasepacesParams{}),
			Wait:       []string{"missing"},
			Context: pipservices.PipContext{
				In: gio.NewInput(strings.NewReader("")), Out: gio.NewNilOutput(), Err: gio.NewNilOutput(),
				CWD: cwd, Scope: root,
			},
		})
		fmt.Println("FIX-13  Create err:", err, " names after refusal:", mgr.Names())
		done := make(chan error, 1)
		go func() { done <- mgr.Wait() }()
		select {
		case e := <-done:
			fmt.Println("FIX-13  Wait returned:", e)
		case <-time.After(2 * time.Second):
			fmt.Println("FIX-13  TasksManager.Wait still blocked after 2s (zombie task)")
		}
	})
	rec("FIX-16", func() {
		// same template as sshsb.initSequence (private): unquoted heredoc; dcmd.InitSequence is public (quoted)
		e := envs.NewEnvironments()
		e.Set("X", "$(echo INJECTED)`echo BT`$HOME")
		r, _ := dcmd.InitSequence(e)
		script, _ := ioutil.ReadAll(r)
		quoted := string(script) + "printf '%s\\n' \"$X\"\n"
		out, err := exec.Command("/bin/sh", "-c", quoted).CombinedOutput()
		fmt.Printf("FIX-16  container builder (quoted):   %q %v\n", out, err)
		unq := strings.Replace(quoted, "<<'", "<<", -1)
		unq = strings.Replace(unq, "'\n$(", "\n$(", 1)
		out, err = exec.Command("/bin/sh", "-c", unq).CombinedOutput()
		fmt.Printf("FIX-16  ssh-style (unquoted heredoc): %q %v\n", out, err)
	})
}
