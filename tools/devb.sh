#!/bin/bash
# devb.sh <benign-id|seeded-id> <props...> : apply the patch to a scratch worktree and run the DEV binary /tmp/gv-dev
id=$1; shift
dir=/verif/benign/$id; [ -d $dir ] || dir=/verif/seeded/$id
wt=/tmp/hw2-$$; rm -rf $wt; git -C /repo worktree add -q --detach $wt HEAD
git -C $wt apply $dir/patch.diff || echo "PATCH DOES NOT APPLY"
for p in "$@"; do /tmp/gv-dev check -p $p -repo $wt -no-evidence 2>&1 | grep "violated:" | cut -c1-${W:-250}; done
git -C /repo worktree remove --force $wt
