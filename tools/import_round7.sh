#!/bin/bash
# import_round7.sh <Cnn> : round 7 - "maintenance commits" (optimisation, feature, bug-fix attempt, modernisation, diagnostics): b1,b2 are defective maintenance commits
# refactoring (kept as seeded/<Cnn>-m8,m9 after tools/verify_seed.sh confirmed them), c1,c2 combine three or
# more refactoring kinds (kept as benign/<Cnn>-r9,r10 after apply + build + whole suite).
export GOFLAGS=-mod=mod GOPROXY=off GOSUMDB=off GOTOOLCHAIN=local
p=$1
for k in 1 2; do
  src=/tmp/r7out/$p/b$k
  [ -f $src/patch.diff ] || { echo "$p-b$k: no patch"; continue; }
  /verif/tools/verify_seed.sh $src > /tmp/r7out/$p/b$k.verify.log 2>&1
  ok=$(python3 -c "
import json;v=json.load(open('$src/verify.json'))
print('yes' if v['applies']=='yes' and v['builds']=='yes' and v['suite_with_change']=='pass' and v['demo_with_change']=='fail' and v['demo_without_change']=='pass' else 'no')" 2>/dev/null)
  if [ "$ok" = yes ]; then
    dst=/verif/seeded/$p-m$((k+16)); rm -rf $dst; mkdir -p $dst
    cp $src/patch.diff $src/meta.json $src/verify.json $dst/
    for f in $src/*_test.go; do [ -f "$f" ] && cp $f $dst/$(basename $f).txt; done
    python3 - $dst/meta.json <<'PY'
import json,sys
m=json.load(open(sys.argv[1])); m['round']=7; m['slot']='defective maintenance commit'
json.dump(m,open(sys.argv[1],'w'),indent=1)
PY
    echo "$p-m$((k+16)) KEPT"
  else
    echo "$p-b$k NOT CONFIRMED: $(tail -1 /tmp/r7out/$p/b$k.verify.log)"
  fi
done
for k in 1 2; do
  src=/tmp/r7out/$p/c$k
  [ -f $src/patch.diff ] || { echo "$p-c$k: no patch"; continue; }
  wt=/tmp/vb/$p-c$k; mkdir -p /tmp/vb; rm -rf $wt
  git -C /repo worktree add -q --detach $wt HEAD || continue
  ok=no
  if git -C $wt apply $src/patch.diff 2>/dev/null; then
    if ( cd $wt && go build ./... >/dev/null 2>&1 && go test -vet=off -count=1 ./... > /tmp/vb/$p-c$k.log 2>&1 ); then ok=yes; fi
  fi
  git -C /repo worktree remove --force $wt
  if [ $ok = yes ]; then
    dst=/verif/benign/$p-r$((k+16)); rm -rf $dst; mkdir -p $dst
    cp $src/patch.diff $src/meta.json $dst/
    python3 - $dst/meta.json <<'PY'
import json,sys
m=json.load(open(sys.argv[1])); m['round']=7; m['slot']='clean maintenance commit'
m['verified']='applies, builds, full suite passes (tools/import_round7.sh)'
json.dump(m,open(sys.argv[1],'w'),indent=1)
PY
    echo "$p-r$((k+16)) KEPT"
  else
    echo "$p-c$k NOT CONFIRMED"
  fi
done
