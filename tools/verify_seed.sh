#!/bin/bash
# verify_seed.sh <srcdir> : confirm a seeded change in a scratch worktree of /repo:
#   builds, full suite passes with the change, demo fails with it and passes without.
# Writes <srcdir>/verify.json.  The worktree is removed afterwards.
export GOFLAGS=-mod=mod GOPROXY=off GOSUMDB=off GOTOOLCHAIN=local
src=$(readlink -f "$1"); id=$(basename $(dirname $src))-$(basename $src)
wt=/tmp/vs/$id; mkdir -p /tmp/vs; rm -rf $wt
git -C /repo worktree add -q --detach $wt HEAD || exit 2
cd $wt
demo_dir=$(python3 -c "import json;print(json.load(open('$src/meta.json')).get('demo_dir',''))")
demo_cmd=$(python3 -c "
import json,re
c=json.load(open('$src/meta.json')).get('demo_cmd','')
c=re.sub(r'\s\s+\([^()]*\)\s*\$','',c,flags=re.S); c=re.sub(r'\s+\((after|env|note|with)\b.*\)\s*\$','',c,flags=re.S)   # drop a trailing explanatory parenthesis
print(c)")
res() { python3 - "$@" <<'PY'
import json,sys
keys=sys.argv[2::2]; vals=sys.argv[3::2]
json.dump(dict(zip(keys,vals)),open(sys.argv[1],'w'),indent=1)
PY
}
applies=no; builds=no; suite=no; demo_with=unknown; demo_without=unknown
if git apply --check $src/patch.diff 2>/dev/null; then applies=yes; git apply $src/patch.diff; fi
if [ $applies = yes ]; then
  if go build ./... 2>/tmp/vs/$id.build; then builds=yes; fi
  if [ $builds = yes ]; then
    if go test -vet=off -count=1 ./... > /tmp/vs/$id.suite 2>&1; then suite=pass; else suite=FAIL; fi
    for f in $src/*_test.go; do [ -f "$f" ] && cp $f $wt/$demo_dir/; done
    if ( cd $wt && timeout 300 bash -c "$demo_cmd" > /tmp/vs/$id.demo1 2>&1 ); then demo_with=pass; else demo_with=fail; fi
    git apply -R $src/patch.diff
    if ( cd $wt && timeout 300 bash -c "$demo_cmd" > /tmp/vs/$id.demo0 2>&1 ); then demo_without=pass; else demo_without=fail; fi
  fi
fi
res $src/verify.json applies $applies builds $builds suite_with_change $suite demo_with_change $demo_with demo_without_change $demo_without demo_cmd "$demo_cmd" repo_head $(git -C /repo rev-parse --short HEAD)
cd /; git -C /repo worktree remove --force $wt
echo "$id applies=$applies builds=$builds suite=$suite demo_with=$demo_with demo_without=$demo_without"
