#!/usr/bin/env python3
# replay: print a violation report written by goatverif in readable form
import json,sys
r=json.load(open(sys.argv[1]))
print("property",r["property"],"tier",r["tier"],"config",r.get("config"))
for v in r.get("violations") or []:
    print("VIOLATED %s @ %s (%s)\n    %s"%(v["rule"],v["construct"],v.get("pos",""),v.get("detail","")))
for v in r.get("known") or []:
    print("KNOWN    %s @ %s"%(v["rule"],v["construct"]))
print("re-run: /verif/bin/goatverif check -p %s -tier %s -v"%(r["property"],r["tier"]))
