#!/bin/bash
# try_seed.sh <patch.diff> <prop> [<prop>...] : apply a seeded change to /repo, run the quick checks, undo it.
patch=$(readlink -f "$1"); shift
if ! git -C /repo diff --quiet; then echo "/repo is dirty"; exit 2; fi
if ! git -C /repo apply --check "$patch" 2>/dev/null; then echo "PATCH-DOES-NOT-APPLY $patch"; exit 3; fi
git -C /repo apply "$patch"
for p in "$@"; do
  out=$(/verif/bin/goatverif check -p $p -no-evidence -verif /verif 2>&1); rc=$?
  echo "== $p rc=$rc"; echo "$out" | grep -E 'violated:|VIOLATION|cannot' | head -8
done
git -C /repo checkout -- . ; git -C /repo clean -fdq
