#!/usr/bin/env python3
# Regenerates /verif/MANIFEST.json from the table below (one entry per claimed property).
import json,sys
ids=[json.loads(l)['id'] for l in open('/verif/properties.jsonl')]
NOTE=("Sound for the analysed program only: all paths of the named functions / all call sites in the module, default build configuration in the quick tier (+windows, darwin, 386, -tags verif in thorough). "
      "Assumes no unsafe/cgo/linkname reaches the analysed state (checked on every run), user-supplied implementations of the library's interfaces are outside the program, and trusts go/types, x/tools go/ssa and the standard library's documented contracts. "
      "Decides structural necessary conditions of the property, not the behaviour itself; the behavioural remainder is listed in the evidence file's coverage.explanation.")
claimed={
 # id: (technique, level text, design ref)
}
exec(open('/verif/tools/claims.py').read())
checks=[]
for i in ids:
    if i not in claimed: continue
    tech,text,ref=claimed[i]
    checks.append({"property_id":i,
      "quick_cmd":"/verif/bin/goatverif check -p %s -tier quick"%i,
      "thorough_cmd":"/verif/bin/goatverif check -p %s -tier thorough"%i,
      "evidence_file":"/verif/evidence/%s.json"%i,
      "replay_cmd_template":"python3 /verif/tools/explain.py {path}",
      "engine":"goatverif",
      "level_claimed":{"category":"other","text":text,"design_ref":ref},
      "level_note":NOTE,"technique":tech})
na=[{"property_id":i,"reason":NA.get(i,"check not built yet (implementation in progress, DESIGN.md §11)")} for i in ids if i not in claimed]
m={"version":1,
 "setup_cmd":"cd /verif/checker && GOFLAGS=-mod=mod GOPROXY=off GOSUMDB=off GOTOOLCHAIN=local GOWORK=off go build -o /verif/bin/goatverif .",
 "hooks":{"guard":"verif","enable":"none: the analysis reads /repo's source (all build configurations incl. -tags verif in the thorough tier); no instrumentation is compiled into goatcore","baseline_off_cmd":"cd /repo && go test -vet=off -count=1 ./...","source_commits":[],"add_only":True},
 "engines":[{"name":"goatverif","path":"/verif/checker","serves_properties":sorted(claimed),"kind_free_text":"repository-specific static analyser over go/types + go/ssa (lockset, path automata, branch facts/dominance, value-origin flow, call/effect tables, constant tables)"}],
 "checks":checks,"not_applicable":na,
 "notes":"Family of technique: static analysis only. Every check re-loads and re-analyses /repo's working tree on every run; nothing in /repo is executed. Genuine defects found by the rules were repaired by 'fix:' commits in /repo and are recorded (status fixed) in /verif/known_findings.json; unrepaired ones are listed there with status known."}
json.dump(m,open('/verif/MANIFEST.json','w'),indent=1)
print("claimed",len(checks),"na",len(na))
