#!/bin/bash
# import_round2.sh <Cnn> : verify the round-2 seeded changes a sub-agent left in /tmp/seedout2/<Cnn>/m1..m4
# (tools/verify_seed.sh: builds, suite passes, demo fails with / passes without) and, if confirmed,
# keep them as /verif/seeded/<Cnn>-m4..m7.
p=$1
for k in 1 2 3 4; do
  src=/tmp/seedout2/$p/m$k
  [ -f $src/patch.diff ] || { echo "$p-m$k: no patch"; continue; }
  /verif/tools/verify_seed.sh $src > /tmp/seedout2/$p/m$k.verify.log 2>&1
  tail -1 /tmp/seedout2/$p/m$k.verify.log
  ok=$(python3 -c "
import json;v=json.load(open('$src/verify.json'))
print('yes' if v['applies']=='yes' and v['builds']=='yes' and v['suite_with_change']=='pass' and v['demo_with_change']=='fail' and v['demo_without_change']=='pass' else 'no')")
  if [ "$ok" = yes ]; then
    dst=/verif/seeded/$p-m$((k+3)); rm -rf $dst; mkdir -p $dst
    cp $src/patch.diff $src/meta.json $src/verify.json $dst/
    for f in $src/*_test.go $src/*.go; do [ -f "$f" ] && cp $f $dst/$(basename $f).txt; done
    python3 - $dst/meta.json $k <<'PY'
import json,sys
m=json.load(open(sys.argv[1])); m['round']=2; m['slot']={'1':'indirect','2':'addition','3':'looks-equivalent','4':'free'}[sys.argv[2]]
json.dump(m,open(sys.argv[1],'w'),indent=1)
PY
    echo "$p-m$((k+3)) KEPT"
  else
    echo "$p-m$k NOT CONFIRMED (see $src/verify.json)"
  fi
done
