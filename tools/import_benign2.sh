#!/bin/bash
# import_benign2.sh <Cnn> : confirm the round-2 refactorings in /tmp/refout2/<Cnn>/r1..r4 (apply, build,
# whole suite passes) and keep them as /verif/benign/<Cnn>-r5..r8.
export GOFLAGS=-mod=mod GOPROXY=off GOSUMDB=off GOTOOLCHAIN=local
p=$1
for k in 1 2 3 4; do
  src=/tmp/refout2/$p/r$k
  [ -f $src/patch.diff ] || { echo "$p-r$k: no patch"; continue; }
  wt=/tmp/vb/$p-r$k; mkdir -p /tmp/vb; rm -rf $wt
  git -C /repo worktree add -q --detach $wt HEAD || continue
  ok=no
  if git -C $wt apply $src/patch.diff 2>/dev/null; then
    if ( cd $wt && go build ./... >/dev/null 2>&1 && go test -vet=off -count=1 ./... > /tmp/vb/$p-r$k.log 2>&1 ); then ok=yes; fi
  fi
  git -C /repo worktree remove --force $wt
  if [ $ok = yes ]; then
    dst=/verif/benign/$p-r$((k+4)); rm -rf $dst; mkdir -p $dst
    cp $src/patch.diff $src/meta.json $dst/
    python3 - $dst/meta.json $k <<'PY'
import json,sys
m=json.load(open(sys.argv[1])); m['round']=2; m['slot']={'1':'indirect','2':'correct addition','3':'moved across functions','4':'idiom'}[sys.argv[2]]
m['verified']='applies, builds, full suite passes (tools/import_benign2.sh)'
json.dump(m,open(sys.argv[1],'w'),indent=1)
PY
    echo "$p-r$((k+4)) KEPT"
  else
    echo "$p-r$k NOT CONFIRMED"
  fi
done
