#!/bin/bash
# seed_matrix.sh [ids...] : for every seeded change, apply it in a scratch worktree of /repo and run all
# registered checks against that worktree (goatverif -repo); prints which properties raise a violation.
# Nothing in /repo or in /verif/evidence is touched.
export GOFLAGS=-mod=mod GOPROXY=off GOSUMDB=off GOTOOLCHAIN=local
one() {
  id=$1; d=/verif/seeded/$id; wt=/tmp/mx/$id
  rm -rf $wt; git -C /repo worktree add -q --detach $wt HEAD 2>/dev/null || { echo "$id WORKTREE-FAIL"; return; }
  if ! git -C $wt apply $d/patch.diff 2>/dev/null; then echo "$id PATCH-DOES-NOT-APPLY"; git -C /repo worktree remove --force $wt; return; fi
  hits=""
  for p in $(/verif/bin/goatverif list | cut -f1); do
    if ! /verif/bin/goatverif check -p $p -repo $wt -no-evidence >/tmp/mx/$id.$p.log 2>&1; then
      rules=$(grep -o "violated: $p\.[A-Za-z0-9]*" /tmp/mx/$id.$p.log | sort -u | sed "s/violated: //" | tr '\n' ',' )
      hits="$hits $rules"
    fi
  done
  git -C /repo worktree remove --force $wt
  own=${id%%-*}
  case "$hits" in *"$own."*) verdict=CAUGHT-BY-OWN ;; "") verdict=MISSED ;; *) verdict=CAUGHT-BY-OTHER ;; esac
  echo "$id $verdict $hits"
  rm -f /tmp/mx/$id.*.log
}
export -f one
mkdir -p /tmp/mx
if [ $# -gt 0 ]; then ids="$@"; else ids=$(ls /verif/seeded | grep -E '^C[0-9]+-m[0-9]+$'); fi
echo $ids | tr ' ' '\n' | xargs -P 10 -I{} bash -c 'one {}' | sort
git -C /repo worktree prune
