#!/bin/bash
# benign_matrix.sh [ids...] : apply every behaviour-preserving refactoring kept under /verif/benign to a
# scratch worktree of /repo and run all checks against it; any violation is a FALSE ALARM of the checker.
export GOFLAGS=-mod=mod GOPROXY=off GOSUMDB=off GOTOOLCHAIN=local
one() {
  id=$1; d=/verif/benign/$id; wt=/tmp/bx/$id
  rm -rf $wt; git -C /repo worktree add -q --detach $wt HEAD 2>/dev/null || { echo "$id WORKTREE-FAIL"; return; }
  if ! git -C $wt apply $d/patch.diff 2>/dev/null; then echo "$id PATCH-DOES-NOT-APPLY"; git -C /repo worktree remove --force $wt; return; fi
  hits=""
  for p in $(/verif/bin/goatverif list | cut -f1); do
    if ! /verif/bin/goatverif check -p $p -repo $wt -no-evidence >/tmp/bx/$id.$p.log 2>&1; then
      rules=$(grep -o "violated: $p\.[A-Za-z0-9.-]*" /tmp/bx/$id.$p.log | sort -u | sed "s/violated: //" | tr '\n' ',' )
      hits="$hits $rules"
    fi
  done
  git -C /repo worktree remove --force $wt
  if [ -z "$hits" ]; then echo "$id SILENT"; else echo "$id FALSE-ALARM $hits"; fi
}
export -f one
mkdir -p /tmp/bx
if [ $# -gt 0 ]; then ids="$@"; else ids=$(ls /verif/benign | grep '^C'); fi
echo $ids | tr ' ' '\n' | xargs -P 10 -I{} bash -c 'one {}' | sort
git -C /repo worktree prune
