#!/bin/bash
# benign_detail.sh <id> [props...] : show the violations a benign refactoring triggers
id=$1; shift
wt=/tmp/bx/$id; rm -rf $wt; git -C /repo worktree add -q --detach $wt HEAD
git -C $wt apply /verif/benign/$id/patch.diff
props="$@"; [ -z "$props" ] && props=$(/verif/bin/goatverif list | cut -f1)
for p in $props; do /verif/bin/goatverif check -p $p -repo $wt -no-evidence 2>&1 | grep "violated:" | cut -c1-420; done
git -C /repo worktree remove --force $wt
