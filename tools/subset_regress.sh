#!/bin/bash
# subset_regress.sh <props...> : quick regression after a change to the rules of a few properties:
#   (a) every clean change of the corpus, checked with those properties' checks only -> must be silent;
#   (b) every seeded change OF those properties, checked with its own property's check -> must be reported.
# (tools/benign_matrix.sh / seed_matrix.sh run all 20 checks on everything; ~110 min)
export GOFLAGS=-mod=mod GOPROXY=off GOSUMDB=off GOTOOLCHAIN=local
export PROPS="$*"
one_b() {
  id=$1; wt=/tmp/sx/b-$id
  rm -rf $wt; git -C /repo worktree add -q --detach $wt HEAD 2>/dev/null || { echo "$id WORKTREE-FAIL"; return; }
  if ! git -C $wt apply /verif/benign/$id/patch.diff 2>/dev/null; then echo "$id PATCH-DOES-NOT-APPLY"; git -C /repo worktree remove --force $wt; return; fi
  hits=""
  for p in $PROPS; do
    if ! /verif/bin/goatverif check -p $p -repo $wt -no-evidence >/tmp/sx/$id.$p.log 2>&1; then
      hits="$hits $(grep -o "violated: $p\.[A-Za-z0-9.-]*" /tmp/sx/$id.$p.log | sort -u | sed 's/violated: //' | tr '\n' ',')"
    fi
  done
  git -C /repo worktree remove --force $wt; rm -f /tmp/sx/$id.*.log
  [ -z "$hits" ] || echo "$id FALSE-ALARM $hits"
}
one_s() {
  id=$1; p=${id%%-*}; wt=/tmp/sx/s-$id
  rm -rf $wt; git -C /repo worktree add -q --detach $wt HEAD 2>/dev/null || { echo "$id WORKTREE-FAIL"; return; }
  if ! git -C $wt apply /verif/seeded/$id/patch.diff 2>/dev/null; then echo "$id PATCH-DOES-NOT-APPLY"; git -C /repo worktree remove --force $wt; return; fi
  if /verif/bin/goatverif check -p $p -repo $wt -no-evidence >/tmp/sx/$id.log 2>&1; then echo "$id MISSED"; fi
  git -C /repo worktree remove --force $wt; rm -f /tmp/sx/$id.log
}
export -f one_b one_s
mkdir -p /tmp/sx
ls /verif/benign | grep '^C' | xargs -P 12 -I{} bash -c 'one_b {}' | sort
for p in $PROPS; do ls /verif/seeded | grep -E "^$p-m[0-9]+$"; done | xargs -P 12 -I{} bash -c 'one_s {}' | sort
git -C /repo worktree prune
echo "subset regression done for: $PROPS"
