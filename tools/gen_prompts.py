#!/usr/bin/env python3
# gen_prompts.py <round-dir-name e.g. r7> : writes /tmp/<r>out/<P>/prompt.txt for the held-out "maintenance
# commit" rounds (DESIGN.md §13-§15): the property text from properties.jsonl + the fixed task description.
# The sub-agents get this file and their own scratch worktree /tmp/<r>/<P>, nothing from /verif.
import json,os,sys
R=sys.argv[1]
props={}
for l in open('/verif/properties.jsonl'):
    d=json.loads(l); props[d['id']]=d
head='''You are helping test a verification effort by producing test commits (some with a hidden defect, some clean) for the Go library goatcms/goatcore.

Your scratch git worktree of the repository is /tmp/{R}/{P} (work ONLY there; never touch /repo or /verif, never read /verif). Put your results ONLY under /tmp/{R}out/{P}/.

Environment: the sandbox is offline. In EVERY shell call first run:
  export GOFLAGS=-mod=mod GOPROXY=off GOSUMDB=off GOTOOLCHAIN=local
The full test suite is:  cd /tmp/{R}/{P} && go test -vet=off -count=1 ./...   (takes ~30 s; all packages must stay "ok").

Here is one semantic property that the library is supposed to satisfy (this is all the context you get; read the code in the worktree as needed):

-----
Property {P} — {title}

Statement: {statement}

Quantifier: {quant}

Why tests can't settle it: {why}

Anchors (files): {files}
Mechanisms:
{mechs}
-----

'''
task='''Task: produce FOUR patches against the library source (non-test .go files only): two BUGGY commits (b1, b2) and two CLEAN commits (c1, c2). The commits are ordinary MAINTENANCE commits, not pure refactorings. The kinds are:
  K1 performance optimisation (avoid a copy or an allocation, cache / memoise something, batch work, shorten or split a critical section, pre-size, lazy initialisation, fast path for a common case, replace a data structure);
  K2 feature addition or API extension (a new option / parameter with a default, a new exported or unexported method, a new mode of an existing operation, support for one more input form);
  K3 a bug-fix attempt for some OTHER plausible issue (a reported edge case, a panic guard, a leak, a race somebody suspected, an error message) that touches the code the property depends on;
  K4 modernisation / dependency hygiene (newer standard-library API or idiom: strings.Builder, errors.Is/As, sync.Map, sync/atomic, context, slices/maps helpers, generics, io.ReadAll, filepath.WalkDir ... as far as the module's Go version allows);
  K5 error-handling / diagnostics clean-up (wrap or aggregate errors, add logging or metrics hooks, change what is returned when several things fail, add validation of arguments).

BUGGY commits b1, b2 - each is a realistic commit of ONE of the kinds above (b1 and b2 of DIFFERENT kinds, and breaking different mechanisms) that looks reasonable in review but makes the property above FALSE, as a natural consequence of what the commit does (not a gratuitous unrelated edit). Requirements for each:
  (a) still compiles (`go build ./...`) and the ENTIRE existing test suite still passes unchanged,
  (b) the property is false after the commit, and
  (c) the defect needs something specific to manifest (an interleaving, a fault at a particular point, a multi-step sequence, an unusual input or configuration); ordinary use must not expose it at once.
  15-80 changed lines each.

CLEAN commits c1, c2 - each is a realistic commit of ONE of the kinds above (c1 and c2 of DIFFERENT kinds; prefer kinds you did not use for b1/b2 where that is natural) that keeps the property TRUE: the observable behaviour relevant to the property is exactly the same on every input, schedule and history that was valid before (an optimisation must be exactly safe, a new feature must leave the existing paths alone or be exactly neutral by default, a modernisation must be semantically identical, added validation must reject nothing that worked before; do not weaken locking, error handling, ordering or validation; if you are not sure a step is exactly safe, leave it out). The commit must touch the code the property depends on (the anchored files/mechanisms or their direct helpers/callers), not just unrelated files. 25-120 changed lines each. Do not rename or change the signature of existing EXPORTED identifiers (adding new ones is fine).

For b1, b2 deliver in /tmp/{R}out/{P}/b<k>/ :
  - patch.diff : the whole commit as `git diff` output against the worktree HEAD (must apply with `git apply` at the repository root), library change only (not the demo).
  - a demonstration: a Go test file demo_test.go (say which package directory it must be copied to in meta.json key "demo_dir", relative to repo root) which FAILS (or panics/hangs-with-timeout) with the commit applied and PASSES without it. Deterministic if possible; if probabilistic, loop enough that it fails reliably (state the rate).
  - meta.json : {{"property":"{P}","kind":"K1..K5","summary":"what the commit does, what the defect is and why the property breaks","needs":"what specific input/schedule/sequence is needed","demo_dir":"...","demo_cmd":"exact command to run the demo from the repo root (a plain go test command, no comments)","ran":"what you ran and observed with and without the change"}}
For c1, c2 deliver in /tmp/{R}out/{P}/c<k>/ :
  - patch.diff : as above.
  - meta.json : {{"property":"{P}","kind":"K1..K5","summary":"what was changed","why_equivalent":"why behaviour relevant to the property is unchanged","ran":"build + full suite result"}}

Procedure for each patch: make the edit in the worktree; run go build and the full test suite (all ok); for b-patches add the demo and confirm it fails; save the library change as patch.diff (if the commit adds a new file run `git add -N <file>` first so that it shows up; then `git diff -- . ':(exclude)*demo_test.go'`); then `git checkout -- .` (and remove the demo file and any new files) to restore the worktree; for b-patches copy the demo back and confirm it passes on the unchanged code, then remove it. Leave the worktree clean at the end (`git status` clean).

Important: the worktree HEAD already contains recent "fix:" commits; treat HEAD as the correct reference behaviour.

When done, reply with a short list: for each patch, the kind, the files/functions touched, and (for b-patches) the defect in one sentence.
'''
for pid,d in props.items():
    a=d['anchors']
    mechs='\n'.join('  - %s @ %s'%(m['name'],m['where']) for m in a.get('mechanism',[]))
    s=head.format(R=R,P=pid,title=d['title'],statement=d['statement'],quant=d['quantifier']['text'],why=d['why_tests_cant'],files=', '.join(a.get('files',[])),mechs=mechs)+task.format(R=R,P=pid)
    os.makedirs('/tmp/%sout/%s'%(R,pid),exist_ok=True)
    open('/tmp/%sout/%s/prompt.txt'%(R,pid),'w').write(s)
print("prompts written for", len(props), "properties under /tmp/%sout" % R)
